/-
  C20k — the van der Corput / stratification property of the first Sobol coordinate for ALL k ≤ 32
  (Props/C20d has it kernel-checked for k < 8 only).

  * `sobolX`: the error-free Gray-code walk `x_0 = 0`, `x_{i+1} = x_i XOR 2^(32 − c[i])`;
    `sobolDim1_eq_map`, `sobolDim1Src_eq_map`: the model's walk returns `[sobolX 1, …, sobolX n]`;
  * `firstZeroIdx_rec`, `firstZeroIdx_ruler`, `testBit_succ_eq`: `c[i] − 1` is the number of trailing one bits of `i`
    (the ruler function of `i+1`) and `i ↦ i+1` flips exactly the bits below `c[i]`;
  * `sobolX_testBit`, `sobolX_gray`: `sobolX i` is the 32-bit reversal of the Gray code `i XOR (i >> 1)`;
  * `sobolX_lt`, `sobolX_dvd`, `sobolX_inj`, `sobolX_perm`: for `k ≤ 32` the values `sobolX i`, `i < 2^k`, are exactly
    the multiples `j·2^(32−k)`, `j < 2^k`, each once;
  * `sobol_dim1_stratified_all`, `sobol_dim1_perm_all`, `sobolDim1StratifiedAll_holds`: the same for the list
    returned by `sobolDim1Src (2^k − 1)` and the Boolean `stratified`.
-/
import FinVerif.Props.C20d
import Mathlib.Data.List.Perm.Subperm
import Mathlib.Data.List.Nodup
import Mathlib.Tactic.Ring

namespace FinVerif.Props.C20
open FinVerif FinVerif.Model.C20Sobol

/-- The fuel of `firstZeroAux` is irrelevant once it is at least the argument. -/
theorem firstZeroAux_fuel (f g i : Nat) (hf : i ≤ f) (hg : i ≤ g) : firstZeroAux f i = firstZeroAux g i := by
  induction f generalizing g i with
  | zero =>
    have : i = 0 := by omega
    subst this
    cases g <;> simp [firstZeroAux]
  | succ f ih =>
    cases g with
    | zero =>
      have : i = 0 := by omega
      subst this
      simp [firstZeroAux]
    | succ g =>
      unfold firstZeroAux
      split
      · rename_i h
        rw [ih g (i / 2) (by omega) (by omega)]
      · rfl

/-- Binary recursion of `c[i]`: one more than `c[i/2]` when `i` is odd, `1` when `i` is even. -/
theorem firstZeroIdx_rec (i : Nat) : firstZeroIdx i = if i % 2 = 1 then firstZeroIdx (i / 2) + 1 else 1 := by
  unfold firstZeroIdx
  cases i with
  | zero => simp [firstZeroAux]
  | succ n =>
    rw [firstZeroAux]
    split
    · rename_i h
      rw [firstZeroAux_fuel n ((n + 1) / 2) ((n + 1) / 2) (by omega) (Nat.le_refl _)]
    · rfl

/-- `c[i] ≥ 1`: the walk never reads `v[0]`. -/
theorem firstZeroIdx_pos (i : Nat) : 1 ≤ firstZeroIdx i := by
  rw [firstZeroIdx_rec]; split <;> omega

/-- Incrementing `i` flips exactly the bits strictly below `c[i]` (the trailing ones and the first zero). -/
theorem testBit_succ_eq (p i : Nat) :
    Nat.testBit (i + 1) p = (Nat.testBit i p ^^ decide (p < firstZeroIdx i)) := by
  induction p generalizing i with
  | zero =>
    have := firstZeroIdx_pos i
    simp only [Nat.testBit_zero]
    have h : (0 < firstZeroIdx i) := by omega
    simp only [h, decide_true, Bool.xor_true]
    by_cases h2 : i % 2 = 1
    · have : ¬ (i + 1) % 2 = 1 := by omega
      simp [h2, this]
    · have : (i + 1) % 2 = 1 := by omega
      simp [h2, this]
  | succ p ih =>
    rw [Nat.testBit_add_one, Nat.testBit_add_one, firstZeroIdx_rec i]
    by_cases h2 : i % 2 = 1
    · have : (i + 1) / 2 = i / 2 + 1 := by omega
      rw [this, ih, if_pos h2]
      simp
    · have : (i + 1) / 2 = i / 2 := by omega
      rw [this, if_neg h2]
      simp

/-- The error-free Gray-code walk of the first coordinate (scaled by 2**32):
`x_0 = 0`, `x_{i+1} = x_i XOR 2^(32 − c[i])`. -/
def sobolX : Nat → Nat
  | 0 => 0
  | i + 1 => sobolX i ^^^ 2 ^ (32 - firstZeroIdx i)

/-- Closed form, bit by bit: bit `p < 32` of `sobolX i` is bit `31 − p` of the Gray code `i XOR (i >> 1)`;
bits `≥ 32` are zero (`i < 2^32`). -/
theorem sobolX_testBit (i : Nat) (hi : i < 2 ^ 32) (p : Nat) :
    Nat.testBit (sobolX i) p =
      (decide (p < 32) && (Nat.testBit i (31 - p) ^^ Nat.testBit i (32 - p))) := by
  induction i with
  | zero => simp [sobolX]
  | succ i ih =>
    have hc1 := firstZeroIdx_pos i
    have hc2 : firstZeroIdx i ≤ 32 := firstZeroIdx_le_of_lt_pow (n := i + 1) (Nat.lt_succ_self i) hi
    rw [sobolX, Nat.testBit_xor, ih (by omega), Nat.testBit_two_pow, testBit_succ_eq, testBit_succ_eq]
    generalize firstZeroIdx i = c at hc1 hc2
    by_cases hp : p < 32
    · have key : decide (32 - c = p) = (decide (31 - p < c) ^^ decide (32 - p < c)) := by
        by_cases h1 : 31 - p < c <;> by_cases h2 : 32 - p < c <;> simp [h1, h2] <;> omega
      rw [key]
      simp only [hp, decide_true, Bool.true_and]
      cases Nat.testBit i (31 - p) <;> cases Nat.testBit i (32 - p) <;>
        cases decide (31 - p < c) <;> cases decide (32 - p < c) <;> rfl
    · have : ¬ (32 - c = p) := by omega
      simp [hp, this]

/-- Every point is below `2^32` (the scaled coordinate is in `[0, 1)`). -/
theorem sobolX_lt (i : Nat) (hi : i < 2 ^ 32) : sobolX i < 2 ^ 32 := by
  apply Nat.lt_pow_two_of_testBit
  intro p hp
  rw [sobolX_testBit i hi]
  have : ¬ p < 32 := by omega
  simp [this]

/-- The first `2^k` points (origin included) are multiples of `2^(32−k)`, `k ≤ 32`. -/
theorem sobolX_dvd (k i : Nat) (hk : k ≤ 32) (hi : i < 2 ^ k) : 2 ^ (32 - k) ∣ sobolX i := by
  have hi32 : i < 2 ^ 32 := Nat.lt_of_lt_of_le hi (Nat.pow_le_pow_right (by decide) hk)
  apply Nat.dvd_of_mod_eq_zero
  apply Nat.eq_of_testBit_eq
  intro p
  rw [Nat.testBit_mod_two_pow, sobolX_testBit i hi32, Nat.zero_testBit]
  by_cases hp : p < 32 - k
  · have h1 : Nat.testBit i (31 - p) = false :=
      Nat.testBit_lt_two_pow (Nat.lt_of_lt_of_le hi (Nat.pow_le_pow_right (by decide) (by omega)))
    have h2 : Nat.testBit i (32 - p) = false :=
      Nat.testBit_lt_two_pow (Nat.lt_of_lt_of_le hi (Nat.pow_le_pow_right (by decide) (by omega)))
    simp [h1, h2]
  · simp [hp]

/-- The walk never revisits a point within the first `2^32` steps (the Gray code is a bijection). -/
theorem sobolX_inj (i j : Nat) (hi : i < 2 ^ 32) (hj : j < 2 ^ 32) (h : sobolX i = sobolX j) : i = j := by
  have hb : ∀ q, q < 32 → (Nat.testBit i q ^^ Nat.testBit i (q + 1)) = (Nat.testBit j q ^^ Nat.testBit j (q + 1)) := by
    intro q hq
    have h1 := sobolX_testBit i hi (31 - q)
    have h2 := sobolX_testBit j hj (31 - q)
    rw [h] at h1
    rw [h1] at h2
    have e1 : 31 - (31 - q) = q := by omega
    have e2 : 32 - (31 - q) = q + 1 := by omega
    have e3 : 31 - q < 32 := by omega
    simpa [e1, e2, e3] using h2
  have hhi : ∀ q, 32 ≤ q → Nat.testBit i q = Nat.testBit j q := by
    intro q hq
    rw [Nat.testBit_lt_two_pow (Nat.lt_of_lt_of_le hi (Nat.pow_le_pow_right (by decide) hq)),
      Nat.testBit_lt_two_pow (Nat.lt_of_lt_of_le hj (Nat.pow_le_pow_right (by decide) hq))]
  have hall : ∀ d q, q + d = 32 → Nat.testBit i q = Nat.testBit j q := by
    intro d
    induction d with
    | zero => intro q hq; exact hhi q (by omega)
    | succ d ih =>
      intro q hq
      have h1 := ih (q + 1) (by omega)
      have h2 := hb q (by omega)
      rw [h1] at h2
      revert h2
      cases Nat.testBit i q <;> cases Nat.testBit j q <;> cases Nat.testBit j (q + 1) <;> simp
  apply Nat.eq_of_testBit_eq
  intro q
  by_cases hq : q ≤ 32
  · exact hall (32 - q) q (by omega)
  · exact hhi q (by omega)

/-- Table lookup: `v[j] = 2^(32−j)` for `1 ≤ j ≤ ll`. -/
theorem dirNum1_getElem_some (ll j : Nat) (h1 : 1 ≤ j) (h2 : j ≤ ll) : (dirNum1 ll)[j]? = some (2 ^ (32 - j)) := by
  have hj : j ≠ 0 := by omega
  have hs : j < (dirNum1 ll).size := by rw [dirNum1_size]; omega
  rw [Array.getElem?_eq_getElem hs]
  simp [dirNum1, hj]

/-- The monadic fold of the model is the pure walk: state after `n` steps. -/
theorem sobol_fold_eq (ll n : Nat) (h : n < 2 ^ ll) :
    (List.range n).foldlM (sobolStep (dirNum1 ll)) (0, []) =
      .ok (sobolX n, ((List.range n).map (fun i => sobolX (i + 1))).reverse) := by
  induction n with
  | zero => rfl
  | succ n ih =>
    have hc1 := firstZeroIdx_pos n
    have hc2 : firstZeroIdx n ≤ ll := firstZeroIdx_le_of_lt_pow (Nat.lt_succ_self n) h
    rw [List.range_succ, List.foldlM_append, ih (by omega)]
    simp only [List.foldlM_cons, List.foldlM_nil]
    show (sobolStep (dirNum1 ll) _ n >>= pure) = _
    unfold sobolStep
    rw [dirNum1_getElem_some ll _ hc1 hc2]
    simp [sobolX]

/-- With `N < 2^ll` the model returns exactly `[sobolX 1, …, sobolX N]`. -/
theorem sobolDim1_eq_map (ll n : Nat) (h : n < 2 ^ ll) :
    sobolDim1 ll n = .ok ((List.range n).map (fun i => sobolX (i + 1))) := by
  unfold sobolDim1 sobolWalk
  rw [sobol_fold_eq ll n h]
  simp [Except.map]

/-- … in particular with the table sized as in the source, for every `N`. -/
theorem sobolDim1Src_eq_map (n : Nat) :
    sobolDim1Src n = .ok ((List.range n).map (fun i => sobolX (i + 1))) :=
  sobolDim1_eq_map _ _ (sobolLL_spec n)

/-- Prepending the origin to `[sobolX 1, …, sobolX n]` gives `[sobolX 0, …, sobolX n]`. -/
theorem sobolX_range_eq (n : Nat) :
    0 :: (List.range n).map (fun i => sobolX (i + 1)) = (List.range (n + 1)).map sobolX := by
  rw [List.range_succ_eq_map]
  simp [sobolX, Function.comp_def]

/-- The first `2^k` points (origin included) are pairwise distinct, `k ≤ 32`. -/
theorem sobolX_nodup (k : Nat) (hk : k ≤ 32) : ((List.range (2 ^ k)).map sobolX).Nodup := by
  have hle : 2 ^ k ≤ 2 ^ 32 := Nat.pow_le_pow_right (by decide) hk
  refine List.Nodup.map_on ?_ List.nodup_range
  intro i hi j hj h
  rw [List.mem_range] at hi hj
  exact sobolX_inj i j (by omega) (by omega) h

/-- Stratification of the pure walk: the first `2^k` points (origin included) are a permutation of the multiples
`j·2^(32−k)`, `j < 2^k`, for every `k ≤ 32`. -/
theorem sobolX_perm (k : Nat) (hk : k ≤ 32) :
    ((List.range (2 ^ k)).map sobolX).Perm ((List.range (2 ^ k)).map (· * 2 ^ (32 - k))) := by
  have hle : 2 ^ k ≤ 2 ^ 32 := Nat.pow_le_pow_right (by decide) hk
  have hpow : 2 ^ k * 2 ^ (32 - k) = 2 ^ 32 := by rw [← Nat.pow_add]; congr 1; omega
  apply (List.subperm_of_subset (sobolX_nodup k hk) ?_).perm_of_length_le (by simp)
  intro x hx
  rw [List.mem_map] at hx ⊢
  obtain ⟨i, hi, rfl⟩ := hx
  rw [List.mem_range] at hi
  obtain ⟨q, hq⟩ := sobolX_dvd k i hk hi
  have hlt := sobolX_lt i (by omega)
  refine ⟨q, ?_, by rw [hq, Nat.mul_comm]⟩
  rw [List.mem_range]
  rw [hq, ← hpow, Nat.mul_comm] at hlt
  exact Nat.lt_of_mul_lt_mul_right hlt

/-- `c[i] − 1` is the ruler function of `i+1`: the exact power of two dividing `i+1`. -/
theorem firstZeroIdx_ruler (i : Nat) :
    2 ^ (firstZeroIdx i - 1) ∣ i + 1 ∧ ¬ 2 ^ firstZeroIdx i ∣ i + 1 := by
  induction i using Nat.strong_induction_on with
  | _ i ih =>
    rw [firstZeroIdx_rec]
    by_cases h : i % 2 = 1
    · rw [if_pos h]
      obtain ⟨⟨q, hq⟩, h2⟩ := ih (i / 2) (by omega)
      have hpos := firstZeroIdx_pos (i / 2)
      have e : i + 1 = 2 * (i / 2 + 1) := by omega
      have e2 : firstZeroIdx (i / 2) + 1 - 1 = (firstZeroIdx (i / 2) - 1) + 1 := by omega
      constructor
      · rw [e2, e, Nat.pow_succ, hq]
        exact ⟨q, by ring⟩
      · rintro ⟨r, hr⟩
        apply h2
        refine ⟨r, ?_⟩
        rw [Nat.pow_succ] at hr
        have : 2 * (i / 2 + 1) = 2 * (2 ^ firstZeroIdx (i / 2) * r) := by rw [← e, hr]; ring
        omega
    · rw [if_neg h]
      refine ⟨by simp, ?_⟩
      rintro ⟨r, hr⟩
      omega

/-- `sobolX i` is the bit reversal (in 32 bits) of the Gray code `i XOR (i >> 1)`. -/
theorem sobolX_gray (i j : Nat) (hi : i < 2 ^ 32) (h1 : 1 ≤ j) (h2 : j ≤ 32) :
    Nat.testBit (sobolX i) (32 - j) = Nat.testBit (i ^^^ (i / 2)) (j - 1) := by
  rw [sobolX_testBit i hi, Nat.testBit_xor, ← Nat.testBit_add_one]
  have e1 : 31 - (32 - j) = j - 1 := by omega
  have e2 : 32 - (32 - j) = j - 1 + 1 := by omega
  have e3 : 32 - j < 32 := by omega
  simp [e1, e2, e3]

/-- The list returned by `sobolDim1Src (2^k − 1)` with the origin prepended is `[sobolX 0, …, sobolX (2^k − 1)]`. -/
theorem sobolDim1Src_cons_origin (k : Nat) :
    ∃ xs, sobolDim1Src (2 ^ k - 1) = .ok xs ∧ 0 :: xs = (List.range (2 ^ k)).map sobolX := by
  refine ⟨_, sobolDim1Src_eq_map _, ?_⟩
  rw [sobolX_range_eq]
  have : 2 ^ k - 1 + 1 = 2 ^ k := by have := Nat.two_pow_pos k; omega
  rw [this]

/-- The Boolean `stratified` holds for a list that, with the origin, is a permutation of the multiples. -/
theorem stratified_of_perm (k : Nat) (xs : List Nat)
    (h : (0 :: xs).Perm ((List.range (2 ^ k)).map (· * 2 ^ (32 - k)))) : stratified k xs = true := by
  unfold stratified
  rw [Bool.and_eq_true, List.all_eq_true, List.all_eq_true]
  constructor
  · intro x hx
    rw [h.mem_iff, List.mem_map] at hx
    obtain ⟨j, _, rfl⟩ := hx
    simp
  · intro j hj
    have hnd : (0 :: xs).Nodup := by
      rw [h.nodup_iff]
      refine List.Nodup.map_on ?_ List.nodup_range
      intro a _ b _ hab
      exact Nat.eq_of_mul_eq_mul_right (Nat.two_pow_pos _) hab
    have hmem : j * 2 ^ (32 - k) ∈ (0 :: xs) := by
      rw [h.mem_iff, List.mem_map]
      exact ⟨j, hj, rfl⟩
    have := List.count_eq_one_of_mem hnd hmem
    rw [List.count_eq_countP, List.countP_eq_length_filter] at this
    rw [this]
    rfl

/-- C20 Sobol, van der Corput property of the first coordinate for EVERY `k ≤ 32` (extends the kernel-checked
`sobol_dim1_stratified`, `k < 8`): the origin and the first `2^k − 1` points are exactly the multiples `j/2^k`,
each once (scaled by 2**32). -/
theorem sobol_dim1_stratified_all (k : Nat) (hk : k ≤ 32) :
    (sobolDim1Src (2 ^ k - 1)).toOption.map (stratified k) = some true := by
  obtain ⟨xs, h1, h2⟩ := sobolDim1Src_cons_origin k
  rw [h1]
  have := stratified_of_perm k xs (h2 ▸ sobolX_perm k hk)
  simp [Except.toOption, this]

/-- The same as a permutation statement about the returned list. -/
theorem sobol_dim1_perm_all (k : Nat) (hk : k ≤ 32) :
    ∃ xs, sobolDim1Src (2 ^ k - 1) = .ok xs ∧
      (0 :: xs).Perm ((List.range (2 ^ k)).map (· * 2 ^ (32 - k))) := by
  obtain ⟨xs, h1, h2⟩ := sobolDim1Src_cons_origin k
  exact ⟨xs, h1, h2 ▸ sobolX_perm k hk⟩

/-- The full stratification statement (all `k ≤ 32`), in terms of the model. -/
def SobolDim1StratifiedAll : Prop :=
  ∀ k : Nat, k ≤ 32 → (sobolDim1Src (2 ^ k - 1)).toOption.map (stratified k) = some true

/-- The full statement holds. -/
theorem sobolDim1StratifiedAll_holds : SobolDim1StratifiedAll := sobol_dim1_stratified_all

/-! Non-vacuity: concrete instances evaluated by the kernel. -/
example : (List.range 8).map sobolX
    = [0, 2 ^ 31, 2 ^ 31 + 2 ^ 30, 2 ^ 30, 2 ^ 30 + 2 ^ 29, 2 ^ 31 + 2 ^ 30 + 2 ^ 29, 2 ^ 31 + 2 ^ 29, 2 ^ 29] := by decide
example : sobolDim1Src 7 = .ok ((List.range 7).map (fun i => sobolX (i + 1))) := sobolDim1Src_eq_map 7
example : (sobolDim1Src (2 ^ 3 - 1)).toOption.map (stratified 3) = some true := sobol_dim1_stratified_all 3 (by decide)
example : stratified 3 [1, 2, 3] = false := by decide
example : firstZeroIdx 11 = 3 ∧ 2 ^ 2 ∣ 11 + 1 ∧ ¬ 2 ^ 3 ∣ 11 + 1 := by decide
example : 2 ^ (32 - 3) ∣ sobolX 5 ∧ sobolX 5 < 2 ^ 32 := ⟨sobolX_dvd 3 5 (by decide) (by decide), sobolX_lt 5 (by decide)⟩
example : Nat.testBit (sobolX 5) (32 - 1) = Nat.testBit (5 ^^^ (5 / 2)) (1 - 1) := sobolX_gray 5 1 (by decide) (by decide) (by decide)

end FinVerif.Props.C20
