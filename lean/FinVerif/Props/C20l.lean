/-
  C20 (part l) — the reflection relation of `phi2` (Props/C20h.lean, `N` abstract) instantiated with the GENERATED
  Hull polynomial `N` of the source (Gen/KernR, regenerated on every run; symmetry facts from Props/C20c.lean):
  exact for `hk ≠ 0`, and with its exact deviation `2·N(0) − 1` at `hk = 0` (Hull's `N(0)` is not ½).
-/
import FinVerif.Props.C20c
import FinVerif.Props.C20h

namespace FinVerif.Props.C20
open FinVerif FinVerif.Model.C20

/-- `phi2(h, k, ρ) + phi2(h, −k, −ρ) = N(h)` exactly as coded, with the source's own `N`, for every `ρ ≤ −0.7`,
`|h|, |k| ≤ 35`, `k ≠ 0`, and whatever `exp` and `sqrt` compute. -/
theorem phi2_reflection_generated_N (exp sqrt : ℝ → ℝ) (h1 hk r : ℝ)
    (hr : r ≤ -(7 / 10)) (h1b : |h1| ≤ 35) (hkb : |hk| ≤ 35) (hk0 : hk ≠ 0) :
    phi2G phi2ConstsR exp sqrt Gen.KernR.N h1 hk r + phi2G phi2ConstsR exp sqrt Gen.KernR.N h1 (-hk) (-r)
      = Gen.KernR.N h1 :=
  phi2G_src_high_neg_reflection exp sqrt Gen.KernR.N h1 hk r hr h1b hkb (N_symmetry hk hk0)

/-- At `k = 0` (and `h ≥ 0`, the branch that adds `N(h) + N(k) − 1`) the relation is off by exactly
`2·N(0) − 1 = 1 − 2·1.253314136·0.3989422804014327` (about `1e-9`, inside the stated accuracy of `N`). -/
theorem phi2_reflection_generated_N_at_zero (exp sqrt : ℝ → ℝ) (h1 r : ℝ)
    (hr : r ≤ -(7 / 10)) (h1b : |h1| ≤ 35) (h1n : 0 ≤ h1) :
    phi2G phi2ConstsR exp sqrt Gen.KernR.N h1 0 r + phi2G phi2ConstsR exp sqrt Gen.KernR.N h1 (-0) (-r)
      = Gen.KernR.N h1 + (1 - 2 * (1.253314136 * 0.3989422804014327)) := by
  have hhigh : ¬ Phi2Low phi2ConstsR h1 0 r :=
    (not_phi2Low_src_iff h1 0 r).mpr ⟨by rw [abs_of_neg (by linarith)]; linarith, h1b, by simp⟩
  rw [phi2G_high_neg_reflection_of_not_lt phi2ConstsR exp sqrt Gen.KernR.N h1 0 r hhigh (by linarith)
    (by simp only [neg_zero]; exact not_lt.mpr h1n)]
  rw [neg_zero, N_zero_value]
  ring

/-- non-vacuity of both statements: `(h, k, ρ) = (1, 2, −0.8)` and `(1, 0, −0.8)` meet the hypotheses. -/
example : ((-(4 / 5) : ℝ) ≤ -(7 / 10)) ∧ |(1 : ℝ)| ≤ 35 ∧ |(2 : ℝ)| ≤ 35 ∧ (2 : ℝ) ≠ 0 ∧ (0 : ℝ) ≤ 1 := by
  refine ⟨by norm_num, by norm_num, by norm_num, by norm_num, by norm_num⟩

end FinVerif.Props.C20
