/-
  C20 (part m) — range, ordering across 0 and tail facts about the GENERATED Hull-polynomial `N`
  (`FinVerif/Gen/KernR.lean`, regenerated from `financepy/utils/math.py`), read over ℝ.
  Builds on the closed forms of `C20c` (`hullUpper`, `N_of_nonneg`, `N_of_neg`).
-/
import FinVerif.Props.C20c
import Mathlib.Analysis.SpecialFunctions.Exp
import Mathlib.Tactic.Positivity
import Mathlib.Tactic.Linarith
import Mathlib.Tactic.Ring
import Mathlib.Tactic.NormNum

namespace FinVerif.Props.C20
open FinVerif FinVerif.Gen.KernR

/-- Hull's quintic `P(k) = a1 k + a2 k² + a3 k³ + a4 k⁴ + a5 k⁵`, in exactly the association used by
`hullUpper` (hence by the generated `N`). -/
noncomputable def hullPoly (k : ℝ) : ℝ :=
  0.31938153 * k + (-0.356563782) * (k * k) + 1.781477937 * (k * k * k)
    + (-1.821255978) * (k * k * k * k) + 1.330274429 * (k * k * k * k * k)

/-- The argument `k = 1 / (1 + 0.2316419·|x|)` fed to the polynomial. -/
noncomputable def hullK (x : ℝ) : ℝ := 1 / (1 + 0.2316419 * |x|)

/-- `hullUpper` is literally `1 − P(k(x)) · exp(−x·x/2) · 0.3989422804014327` (definitional). -/
theorem hullUpper_eq (x : ℝ) :
    hullUpper x = 1 - hullPoly (hullK x) * Real.exp (-x * x / 2) * 0.3989422804014327 := rfl

/-- `0 < k(x) ≤ 1` for every real `x`. -/
theorem hullK_pos (x : ℝ) : 0 < hullK x := by
  unfold hullK
  have := abs_nonneg x
  positivity

/-- `k(x) ≤ 1`. -/
theorem hullK_le_one (x : ℝ) : hullK x ≤ 1 := by
  unfold hullK
  have h := abs_nonneg x
  rw [div_le_one (by positivity)]
  linarith

/-- The quartic cofactor `Q` in `P(k) = k · Q(k)` is bounded below by `0.15` for EVERY real `k`
(two completed squares: `a1 + a2 k + 0.2 k²` and `k²·((a3 − 0.2) + a4 k + a5 k²)`; true minimum on
`[0,1]` is ≈ 0.2994 at k ≈ 0.119). -/
theorem hullQuartic_pos (k : ℝ) :
    0.15 < 0.31938153 + (-0.356563782) * k + 1.781477937 * (k * k)
      + (-1.821255978) * (k * k * k) + 1.330274429 * (k * k * k * k) := by
  nlinarith [sq_nonneg (k - 0.891), sq_nonneg (k * (k - 0.6845)), sq_nonneg k]

/-- `hullPoly_pos`: `P(k) > 0` for every `k > 0` (in particular on `(0, 1]`, the range of `k(x)`). -/
theorem hullPoly_pos (k : ℝ) (hk : 0 < k) : 0 < hullPoly k := by
  have hq := hullQuartic_pos k
  have : hullPoly k = k * (0.31938153 + (-0.356563782) * k + 1.781477937 * (k * k)
      + (-1.821255978) * (k * k * k) + 1.330274429 * (k * k * k * k)) := by
    unfold hullPoly; ring
  rw [this]
  exact mul_pos hk (by linarith)

example : 0 < hullPoly 1 := hullPoly_pos 1 one_pos

/-- `P(1)` is the sum of the coefficients. -/
theorem hullPoly_one : hullPoly 1 = 1.253314136 := by
  unfold hullPoly; norm_num

/-- `hullPoly_le`: `P(k) ≤ P(1) = 1.253314136` on `0 ≤ k ≤ 1`
(`P(1) − P(k) = (1 − k)·S(k)` with `S ≥ 0` on `[0,1]`; numerically `P` is increasing there,
`min P' ≈ 0.293`). -/
theorem hullPoly_le (k : ℝ) (h0 : 0 ≤ k) (h1 : k ≤ 1) : hullPoly k ≤ 1.253314136 := by
  have e : (1.253314136 : ℝ) - hullPoly k = (1 - k) *
      (1.253314136 + 0.933932606 * k + 1.290496388 * (k * k) + (-0.490981549) * (k * k * k)
        + 1.330274429 * (k * k * k * k)) := by
    unfold hullPoly; ring
  have hk2 : 0 ≤ k * k := mul_nonneg h0 h0
  have hk3 : k * k * k ≤ k * k := by nlinarith
  have hk4 : 0 ≤ k * k * k * k := by positivity
  have hS : 0 ≤ 1.253314136 + 0.933932606 * k + 1.290496388 * (k * k) + (-0.490981549) * (k * k * k)
        + 1.330274429 * (k * k * k * k) := by nlinarith
  have : 0 ≤ (1.253314136 : ℝ) - hullPoly k := by
    rw [e]; exact mul_nonneg (by linarith) hS
  linarith

example : hullPoly 1 ≤ 1.253314136 := hullPoly_le 1 zero_le_one le_rfl

/-- The subtracted term `T(x) = P(k(x))·exp(−x·x/2)·c` of `hullUpper` is strictly positive. -/
theorem hullTerm_pos (x : ℝ) :
    0 < hullPoly (hullK x) * Real.exp (-x * x / 2) * 0.3989422804014327 := by
  have hp := hullPoly_pos (hullK x) (hullK_pos x)
  have he := Real.exp_pos (-x * x / 2)
  positivity

/-- `T(x) ≤ 1.253314136·0.3989422804014327·exp(−x·x/2)`. -/
theorem hullTerm_le_exp (x : ℝ) :
    hullPoly (hullK x) * Real.exp (-x * x / 2) * 0.3989422804014327
      ≤ 1.253314136 * 0.3989422804014327 * Real.exp (-x * x / 2) := by
  have hp := hullPoly_le (hullK x) (le_of_lt (hullK_pos x)) (hullK_le_one x)
  have he := Real.exp_pos (-x * x / 2)
  nlinarith

/-- `exp(−x·x/2) ≤ 1`. -/
theorem exp_negsq_le_one (x : ℝ) : Real.exp (-x * x / 2) ≤ 1 := by
  rw [Real.exp_le_one_iff]
  nlinarith [mul_self_nonneg x]

/-- `T(x) ≤ 1.253314136·0.3989422804014327 (≈ 0.4999999994752 < ½)`. -/
theorem hullTerm_le (x : ℝ) :
    hullPoly (hullK x) * Real.exp (-x * x / 2) * 0.3989422804014327
      ≤ 1.253314136 * 0.3989422804014327 := by
  have h1 := hullTerm_le_exp x
  have h2 := exp_negsq_le_one x
  nlinarith

/-- `N_ge_half_of_nonneg`: for `x ≥ 0`, `N x ≥ N 0 = 1 − 1.253314136·0.3989422804014327`.
NOTE the value: `1.253314136·0.3989422804014327 = 0.49999999947519…`, so
`N 0 = 0.50000000052481… ` — slightly ABOVE ½ (not ½, and not below it). -/
theorem N_ge_half_of_nonneg (x : ℝ) (hx : 0 ≤ x) :
    1 - 1.253314136 * 0.3989422804014327 ≤ N x := by
  rw [N_of_nonneg x hx, hullUpper_eq]
  have := hullTerm_le x
  linarith

example : 1 - 1.253314136 * 0.3989422804014327 ≤ N 2 := N_ge_half_of_nonneg 2 (by norm_num)

/-- Same fact phrased with `N 0`: `N 0` is the minimum of the coded `N` over `x ≥ 0`. -/
theorem N_zero_le_of_nonneg (x : ℝ) (hx : 0 ≤ x) : N 0 ≤ N x := by
  rw [N_zero_value]; exact N_ge_half_of_nonneg x hx

/-- Consequently the coded `N` is strictly above ½ on the whole half-line `x ≥ 0` (including `x = 0`). -/
theorem N_gt_half_of_nonneg (x : ℝ) (hx : 0 ≤ x) : 1 / 2 < N x := by
  have := N_ge_half_of_nonneg x hx
  norm_num at this ⊢
  linarith

/-- `N_lt_one`: `N x < 1` for `x ≥ 0`. -/
theorem N_lt_one (x : ℝ) (hx : 0 ≤ x) : N x < 1 := by
  rw [N_of_nonneg x hx, hullUpper_eq]
  have := hullTerm_pos x
  linarith

example : N 0 < 1 := N_lt_one 0 le_rfl

/-- `N_le_half_of_neg`: for `x < 0`, `N x ≤ 1.253314136·0.3989422804014327 = 0.49999999947519…`
(slightly BELOW ½). -/
theorem N_le_half_of_neg (x : ℝ) (hx : x < 0) :
    N x ≤ 1.253314136 * 0.3989422804014327 := by
  rw [N_of_neg x hx, hullUpper_eq]
  have := hullTerm_le (-x)
  linarith

example : N (-1) ≤ 1.253314136 * 0.3989422804014327 := N_le_half_of_neg (-1) (by norm_num)

/-- The coded `N` is strictly below ½ on `x < 0`. -/
theorem N_lt_half_of_neg (x : ℝ) (hx : x < 0) : N x < 1 / 2 := by
  have := N_le_half_of_neg x hx
  norm_num at this ⊢
  linarith

/-- `N_mem_unit_interval`: for EVERY real `x`, `0 < N x < 1` — the coded CDF approximation never
leaves the open unit interval (exact real arithmetic). -/
theorem N_mem_unit_interval (x : ℝ) : 0 < N x ∧ N x < 1 := by
  rcases le_or_gt 0 x with hx | hx
  · have := N_gt_half_of_nonneg x hx
    exact ⟨by linarith, N_lt_one x hx⟩
  · have h1 := N_lt_half_of_neg x hx
    refine ⟨?_, by linarith⟩
    rw [N_of_neg x hx, hullUpper_eq]
    have := hullTerm_pos (-x)
    linarith

/-- `N_jump_at_zero` (size of the discontinuity of the coded `N` at 0). For `x < 0` the code returns
`1 − hullUpper (−x)`, whose limit as `x → 0⁻` is `1 − hullUpper 0 = 1 − N 0` (`hullUpper` is
continuous). The gap between `N 0` and that left-limit value is
`N 0 − (1 − N 0) = 1 − 2·1.253314136·0.3989422804014327 = 1.0496…e-9 > 0`.
So the jump is UPWARD: the coded `N` does not lose monotonicity at 0 (see `N_neg_lt_N_nonneg`).
Classification: magnitude 1e-9, far inside the documented 6-decimal accuracy of Hull's
approximation — a property of the published coefficients, not a defect of the code. -/
theorem N_jump_at_zero :
    N 0 - (1 - N 0) = 1 - 2 * (1.253314136 * 0.3989422804014327)
      ∧ 0 < N 0 - (1 - N 0) ∧ N 0 - (1 - N 0) < 1.05e-9 ∧ 1.04e-9 < N 0 - (1 - N 0) := by
  rw [N_zero_value]
  norm_num

/-- `N_left_limit_lt`: the left-limit value `1 − hullUpper 0` is strictly BELOW `N 0 = hullUpper 0`
(`0.49999999947… < 0.50000000052…`). The opposite inequality — which would make `N` non-monotone
across 0 — is false; this theorem records the correct direction. -/
theorem N_left_limit_lt : 1 - hullUpper 0 < hullUpper 0 := by
  rw [← N_of_nonneg 0 le_rfl, N_zero_value]
  norm_num

/-- `N_neg_lt_N_nonneg`: order is preserved across the branch point: every value on `x < 0` is
strictly below every value on `y ≥ 0` (they are separated by ½). Hence
"`∃ x < 0, N 0 < N x`" is FALSE for the coded `N`. -/
theorem N_neg_lt_N_nonneg (x y : ℝ) (hx : x < 0) (hy : 0 ≤ y) : N x < N y := by
  have h1 := N_lt_half_of_neg x hx
  have h2 := N_gt_half_of_nonneg y hy
  linarith

example : N (-1) < N 0 := N_neg_lt_N_nonneg (-1) 0 (by norm_num) le_rfl

/-- The candidate statement "`N` is not monotone at 0" is refuted: no negative `x` reaches `N 0`. -/
theorem N_monotone_at_zero : ¬ ∃ x : ℝ, x < 0 ∧ N 0 ≤ N x := by
  rintro ⟨x, hx, h⟩
  have := N_neg_lt_N_nonneg x 0 hx le_rfl
  linarith

/-- `N_tail_bound`: Gaussian-type upper-tail bound of the coded function, `x ≥ 0`:
`1 − N x ≤ ½·exp(−x·x/2)` (from `P ≤ 1.253314136` and `1.253314136·0.39894… < ½`). -/
theorem N_tail_bound (x : ℝ) (hx : 0 ≤ x) : 1 - N x ≤ 0.5 * Real.exp (-x * x / 2) := by
  rw [N_of_nonneg x hx, hullUpper_eq]
  have h1 := hullTerm_le_exp x
  have he := Real.exp_pos (-x * x / 2)
  nlinarith

example : 1 - N 3 ≤ 0.5 * Real.exp (-3 * 3 / 2) := N_tail_bound 3 (by norm_num)

/-- Lower-tail mirror: for `x < 0`, `N x ≤ ½·exp(−x·x/2)`. -/
theorem N_lower_tail_bound (x : ℝ) (hx : x < 0) : N x ≤ 0.5 * Real.exp (-x * x / 2) := by
  rw [N_of_neg x hx, hullUpper_eq]
  have h1 := hullTerm_le_exp (-x)
  have he := Real.exp_pos (-(-x) * (-x) / 2)
  have e : (-(-x) * (-x) / 2) = -x * x / 2 := by ring
  rw [e] at h1 he ⊢
  nlinarith

example : N (-3) ≤ 0.5 * Real.exp (-(-3) * (-3) / 2) := N_lower_tail_bound (-3) (by norm_num)

end FinVerif.Props.C20
