/-
  C20 (part n) — Cholesky–Banachiewicz for EVERY n: `L·Lᵀ = ρ` on the lower triangle.

  Main theorem `cholesky_LLt` (statement: `CholeskyLLt`): for every matrix `rho : List (List ℝ)` (any number of
  rows; only the lower triangle `ρ[i][j]`, `j ≤ i`, is read, absent entries read as 0), with
  `L = cholesky Real.sqrt rho`: if every divisor `L[j][j]` (`j + 1 < n`) is non-zero and every argument of a
  square root `ρ[i][i] − Σ_{k<i} L[i][k]²` (`i < n`) is non-negative, then
  `Σ_{k ≤ j} L[i][k]·L[j][k] = ρ[i][j]` for all `j ≤ i < n`.
  Variants: `cholesky_LLt_sum` (Finset notation), `cholesky_LLt_rows` (no truncations),
  `cholesky_LLt_of_diag_pos` (hypothesis "every diagonal entry of `L` is positive").
  Intermediate results: the inner loop as `cholRowPrefix` (length, prefix-stability, the row equations
  `cholRow_offdiag_eq`, `cholRow_diag_eq`, together `cholRow_LLt`), the outer loop (`cholesky_append_row`,
  `cholesky_prefix_stable` = locality, `cholesky_getD_row`, `cholesky_diag_entry`).
-/
import FinVerif.Props.C20g

namespace FinVerif.Props.C20
open FinVerif FinVerif.Model.C20

/-- `dotPrefix` is the sum of the entrywise products (of the common prefix). -/
theorem dotPrefix_eq_sum (x y : List ℝ) : dotPrefix x y = (List.zipWith (· * ·) x y).sum := by
  unfold dotPrefix; rw [sumFrom_eq, zero_add]

/-- appending one entry to each of two equally long lists adds one product. -/
theorem dotPrefix_snoc (x y : List ℝ) (a b : ℝ) (h : x.length = y.length) :
    dotPrefix (x ++ [a]) (y ++ [b]) = dotPrefix x y + a * b := by
  rw [dotPrefix_eq_sum, dotPrefix_eq_sum, List.zipWith_append h]; simp

/-- `zipWith` stops at the shorter list: the right list may be cut to the length of the left one. -/
theorem zipWith_take_right (x y : List ℝ) :
    List.zipWith (· * ·) x y = List.zipWith (· * ·) x (y.take x.length) := by
  induction x generalizing y with
  | nil => simp
  | cons a x ih =>
    cases y with
    | nil => simp
    | cons b y => simp only [List.zipWith_cons_cons, List.length_cons, List.take_succ_cons]; rw [← ih]

/-- `dotPrefix x y` reads only the first `x.length` entries of `y`. -/
theorem dotPrefix_take_right (x y : List ℝ) : dotPrefix x y = dotPrefix x (y.take x.length) := by
  rw [dotPrefix_eq_sum, dotPrefix_eq_sum, ← zipWith_take_right]

/-- `zipWith` stops at the shorter list: the left list may be cut to the length of the right one. -/
theorem zipWith_take_left (x y : List ℝ) :
    List.zipWith (· * ·) x y = List.zipWith (· * ·) (x.take y.length) y := by
  induction x generalizing y with
  | nil => simp
  | cons a x ih =>
    cases y with
    | nil => simp
    | cons b y => simp only [List.zipWith_cons_cons, List.length_cons, List.take_succ_cons]; rw [← ih]

/-- `dotPrefix x y` reads only the first `y.length` entries of `x`. -/
theorem dotPrefix_take_left (x y : List ℝ) : dotPrefix x y = dotPrefix (x.take y.length) y := by
  rw [dotPrefix_eq_sum, dotPrefix_eq_sum, ← zipWith_take_left]

/-- a list of length `j+1` is its first `j` entries followed by entry `j`. -/
theorem eq_take_snoc (l : List ℝ) (j : ℕ) (h : l.length = j + 1) : l = l.take j ++ [l.getD j 0] := by
  have hj : j < l.length := by omega
  have := List.take_succ_eq_append_getElem hj
  have e : l.getD j 0 = l[j] := by simp [List.getD_eq_getElem?_getD, hj]
  rw [e, ← this, List.take_of_length_le (by omega)]

/-! ### inner loop: one row -/

/-- The inner `for j in range(m)` loop of `cholRow` run for `m` passes: the entries `L[i][0..m-1]` of the new
row (`m ≤ i = prev.length`).  Verbatim the fold inside `cholRow` (see `cholRow_eq`, proved by `rfl`). -/
noncomputable def cholRowPrefix (rhoRow : List ℝ) (prev : List (List ℝ)) (m : ℕ) : List ℝ :=
  (List.range m).foldl (fun acc j =>
      let lj := prev.getD j []
      acc ++ [((rhoRow.getD j 0) - dotPrefix acc lj) / (lj.getD j 0)]) ([] : List ℝ)

/-- `cholRow` = the off-diagonal entries followed by the square root of the pivot (definitional). -/
theorem cholRow_eq (sq : ℝ → ℝ) (rhoRow : List ℝ) (prev : List (List ℝ)) :
    cholRow sq rhoRow prev = cholRowPrefix rhoRow prev prev.length ++
      [sq (rhoRow.getD prev.length 0 -
        dotPrefix (cholRowPrefix rhoRow prev prev.length) (cholRowPrefix rhoRow prev prev.length))] := rfl

/-- no pass, no entry. -/
theorem cholRowPrefix_zero (rhoRow : List ℝ) (prev : List (List ℝ)) : cholRowPrefix rhoRow prev 0 = [] := rfl

/-- pass `m` appends `L[i][m] = (ρ[i][m] − Σ_{k<m} L[i][k]·L[m][k]) / L[m][m]`. -/
theorem cholRowPrefix_succ (rhoRow : List ℝ) (prev : List (List ℝ)) (m : ℕ) :
    cholRowPrefix rhoRow prev (m + 1) = cholRowPrefix rhoRow prev m ++
      [(rhoRow.getD m 0 - dotPrefix (cholRowPrefix rhoRow prev m) (prev.getD m [])) /
        (prev.getD m []).getD m 0] := by
  unfold cholRowPrefix
  rw [List.range_succ, List.foldl_append]; rfl

/-- `m` passes give `m` entries. -/
theorem cholRowPrefix_length (rhoRow : List ℝ) (prev : List (List ℝ)) (m : ℕ) :
    (cholRowPrefix rhoRow prev m).length = m := by
  induction m with
  | zero => rfl
  | succ m ih => rw [cholRowPrefix_succ, List.length_append, ih]; rfl

/-- prefix-stability of the inner loop: later passes do not change earlier entries. -/
theorem cholRowPrefix_take (rhoRow : List ℝ) (prev : List (List ℝ)) (m k : ℕ) :
    (cholRowPrefix rhoRow prev (m + k)).take m = cholRowPrefix rhoRow prev m := by
  induction k with
  | zero => rw [Nat.add_zero, List.take_of_length_le (by rw [cholRowPrefix_length])]
  | succ k ih =>
    rw [← Nat.add_assoc, cholRowPrefix_succ, List.take_append_of_le_length (by rw [cholRowPrefix_length]; omega), ih]


/-- prefix `j+1` of the off-diagonal part against row `j` of the previous rows gives `ρ[i][j]`. -/
theorem cholRowPrefix_dot (rhoRow : List ℝ) (prev : List (List ℝ)) (j : ℕ)
    (hlen : (prev.getD j []).length = j + 1) (hd : (prev.getD j []).getD j 0 ≠ 0) :
    dotPrefix (cholRowPrefix rhoRow prev (j + 1)) (prev.getD j []) = rhoRow.getD j 0 := by
  rw [cholRowPrefix_succ]
  generalize hP : cholRowPrefix rhoRow prev j = P
  have hPl : P.length = j := by rw [← hP, cholRowPrefix_length]
  generalize hl : prev.getD j [] = lj at *
  have hs := eq_take_snoc lj j hlen
  have h1 : dotPrefix P lj = dotPrefix P (lj.take j) := by
    rw [dotPrefix_take_right, hPl]
  have h2 : ∀ e : ℝ, dotPrefix (P ++ [e]) lj = dotPrefix P lj + e * lj.getD j 0 := by
    intro e
    conv_lhs => rw [hs]
    rw [dotPrefix_snoc _ _ _ _ (by rw [hPl, List.length_take]; omega), ← h1]
  rw [h2, div_mul_cancel₀ _ hd]
  ring

/-- the first `m ≤ i` entries of the finished row are the result of `m` passes. -/
theorem cholRow_take_le (sq : ℝ → ℝ) (rhoRow : List ℝ) (prev : List (List ℝ)) (m : ℕ)
    (hm : m ≤ prev.length) : (cholRow sq rhoRow prev).take m = cholRowPrefix rhoRow prev m := by
  rw [cholRow_eq, List.take_append_of_le_length (by rw [cholRowPrefix_length]; exact hm)]
  obtain ⟨k, hk⟩ := Nat.exists_eq_add_of_le hm
  rw [hk, cholRowPrefix_take]

/-- C20 `cholRow_offdiag_eq`: for ANY previous rows, if row `j` of them has `j+1` entries and a non-zero diagonal,
the new row `r` satisfies `Σ_{k≤j} r[k]·prev[j][k] = rhoRow[j]` (any `sqrt`). -/
theorem cholRow_offdiag_eq (sq : ℝ → ℝ) (rhoRow : List ℝ) (prev : List (List ℝ)) (j : ℕ)
    (hj : j < prev.length)
    (hlen : (prev.getD j []).length = j + 1) (hd : (prev.getD j []).getD j 0 ≠ 0) :
    dotPrefix ((cholRow sq rhoRow prev).take (j + 1)) ((prev.getD j []).take (j + 1))
      = rhoRow.getD j 0 := by
  rw [cholRow_take_le sq rhoRow prev (j + 1) hj, List.take_of_length_le (by omega)]
  exact cholRowPrefix_dot rhoRow prev j hlen hd

/-- C20 `cholRow_diag_eq`: if the pivot `rhoRow[i] − Σ_{k<i} r[k]²` is non-negative, the new row satisfies
`Σ_{k≤i} r[k]² = rhoRow[i]`, `i = prev.length` (no condition on `prev`). -/
theorem cholRow_diag_eq (rhoRow : List ℝ) (prev : List (List ℝ))
    (hp : 0 ≤ rhoRow.getD prev.length 0 -
      dotPrefix ((cholRow Real.sqrt rhoRow prev).take prev.length)
        ((cholRow Real.sqrt rhoRow prev).take prev.length)) :
    dotPrefix (cholRow Real.sqrt rhoRow prev) (cholRow Real.sqrt rhoRow prev)
      = rhoRow.getD prev.length 0 := by
  rw [cholRow_take_le _ _ _ _ le_rfl] at hp
  rw [cholRow_eq, dotPrefix_snoc _ _ _ _ rfl, Real.mul_self_sqrt hp]
  ring


/-! ### outer loop -/

/-- C20 `cholesky_append_row`: one more row of `ρ` appends one row to `L`, computed from the factor so far. -/
theorem cholesky_append_row (sq : ℝ → ℝ) (rho : List (List ℝ)) (row : List ℝ) :
    cholesky sq (rho ++ [row]) = cholesky sq rho ++ [cholRow sq row (cholesky sq rho)] := by
  unfold cholesky; rw [List.foldl_append]; rfl

/-- the outer loop only appends. -/
theorem cholesky_foldl_prefix (sq : ℝ → ℝ) (rho acc : List (List ℝ)) :
    (rho.foldl (fun prev rhoRow => prev ++ [cholRow sq rhoRow prev]) acc).take acc.length = acc := by
  induction rho generalizing acc with
  | nil => simp
  | cons r l ih =>
    simp only [List.foldl_cons]
    have := ih (acc ++ [cholRow sq r acc])
    have h2 := congrArg (List.take acc.length) this
    rw [List.take_take] at h2
    simpa using h2

/-- C20 `cholesky_prefix_stable` (locality): later rows of `ρ` do not change earlier rows of `L` — the factor of
the leading block is the leading block of the factor. -/
theorem cholesky_prefix_stable (sq : ℝ → ℝ) (rho more : List (List ℝ)) :
    (cholesky sq (rho ++ more)).take rho.length = cholesky sq rho := by
  unfold cholesky
  rw [List.foldl_append]
  have := cholesky_foldl_prefix sq more (rho.foldl (fun prev rhoRow => prev ++ [cholRow sq rhoRow prev]) [])
  rw [cholesky_foldl_length] at this
  simpa using this

/-- `getD` inside the left part of an append. -/
theorem getD_append_lt {β : Type} (l1 l2 : List β) (d : β) (i : ℕ) (h : i < l1.length) :
    (l1 ++ l2).getD i d = l1.getD i d := by
  simp only [List.getD_eq_getElem?_getD]; rw [List.getElem?_append_left h]

/-- `getD` at the appended entry. -/
theorem getD_append_length {β : Type} (l1 : List β) (x d : β) :
    (l1 ++ [x]).getD l1.length d = x := by
  simp [List.getD_eq_getElem?_getD]

/-- The full statement of `L·Lᵀ = ρ` (lower triangle) for every `n = rho.length`.  Hypotheses on the OUTPUT `L`:
the divisors `L[j][j]`, `j + 1 < n`, are non-zero (the last diagonal entry is never a divisor) and the arguments
of the square roots are non-negative.  Conclusion: `Σ_{k ≤ j} L[i][k]·L[j][k] = ρ[i][j]` for `j ≤ i < n`, written with
`dotPrefix` of the `(j+1)`-truncated rows `i` and `j` of `L`. -/
def CholeskyLLt : Prop :=
  ∀ rho : List (List ℝ),
    (∀ j, j + 1 < rho.length → ((cholesky Real.sqrt rho).getD j []).getD j 0 ≠ 0) →
    (∀ i, i < rho.length → 0 ≤ (rho.getD i []).getD i 0 -
        dotPrefix (((cholesky Real.sqrt rho).getD i []).take i) (((cholesky Real.sqrt rho).getD i []).take i)) →
    ∀ i j, i < rho.length → j ≤ i →
      dotPrefix (((cholesky Real.sqrt rho).getD i []).take (j + 1))
        (((cholesky Real.sqrt rho).getD j []).take (j + 1)) = (rho.getD i []).getD j 0

/-- C20 `cholesky_LLt`: the Cholesky–Banachiewicz model returns a factor with `L·Lᵀ = ρ`, for EVERY `n`.
Induction over the rows of `ρ` from the end (`cholesky_append_row`); earlier rows are untouched, the new row is
handled by `cholRow_offdiag_eq` / `cholRow_diag_eq` with `cholesky_row_length` for the shape. -/
theorem cholesky_LLt : CholeskyLLt := by
  intro rho
  induction rho using List.reverseRecOn with
  | nil => intro _ _ i j hi; simp at hi
  | append_singleton rho row ih =>
    intro hd hp i j hi hij
    rw [cholesky_append_row] at hd hp ⊢
    have hL : (cholesky Real.sqrt rho).length = rho.length := cholesky_length _ _
    simp only [List.length_append, List.length_cons, List.length_nil] at hd hp hi
    by_cases hlt : i < rho.length
    · have hj : j < rho.length := by omega
      rw [getD_append_lt (cholesky Real.sqrt rho) _ _ i (by omega),
        getD_append_lt (cholesky Real.sqrt rho) _ _ j (by omega), getD_append_lt rho _ _ _ hlt]
      apply ih _ _ i j hlt hij
      · intro k hk
        have := hd k (by omega)
        rwa [getD_append_lt _ _ _ _ (by omega)] at this
      · intro k hk
        have := hp k (by omega)
        rwa [getD_append_lt (cholesky Real.sqrt rho) _ _ _ (by omega), getD_append_lt rho _ _ _ hk] at this
    · have hi' : i = rho.length := by omega
      subst hi'
      have e1 : (cholesky Real.sqrt rho ++ [cholRow Real.sqrt row (cholesky Real.sqrt rho)]).getD rho.length []
          = cholRow Real.sqrt row (cholesky Real.sqrt rho) := by
        rw [← hL]; exact getD_append_length _ _ _
      have e2 : (rho ++ [row]).getD rho.length [] = row := getD_append_length _ _ _
      rw [e1, e2]
      by_cases hjl : j < rho.length
      · rw [getD_append_lt _ _ _ _ (by omega)]
        have hdj := hd j (by omega)
        rw [getD_append_lt _ _ _ _ (by omega)] at hdj
        exact cholRow_offdiag_eq _ _ _ j (by omega) (cholesky_row_length _ _ j hjl) hdj
      · have hj' : j = rho.length := by omega
        subst hj'
        rw [e1]
        have hpi := hp rho.length (by omega)
        rw [e1, e2] at hpi
        have hlen : (cholRow Real.sqrt row (cholesky Real.sqrt rho)).length = rho.length + 1 := by
          rw [cholRow_length, hL]
        rw [List.take_of_length_le (by omega)]
        rw [← hL] at hpi ⊢
        exact cholRow_diag_eq row _ hpi


/-- sanity: the `n = 2` equations re-derived from the general theorem. -/
example (a b c u : ℝ) (ha : 0 < a) (hp : 0 ≤ c - b * b / a) :
    ∃ l11 l21 l22 : ℝ, cholesky Real.sqrt [[a, u], [b, c]] = [[l11], [l21, l22]] ∧
      l11 * l11 = a ∧ l21 * l11 = b ∧ l21 * l21 + l22 * l22 = c := by
  have hd' : ∀ j, j + 1 < [[a, u], [b, c]].length →
      ((cholesky Real.sqrt [[a, u], [b, c]]).getD j []).getD j 0 ≠ 0 := by
    intro j hj
    have : j = 0 := by simp at hj; omega
    subst this
    rw [cholesky_n2]
    simpa using (Real.sqrt_pos.mpr ha).ne'
  have hp' : ∀ i, i < [[a, u], [b, c]].length → 0 ≤ ([[a, u], [b, c]].getD i []).getD i 0 -
      dotPrefix (((cholesky Real.sqrt [[a, u], [b, c]]).getD i []).take i)
        (((cholesky Real.sqrt [[a, u], [b, c]]).getD i []).take i) := by
    intro i hi
    rw [cholesky_n2]
    have : i = 0 ∨ i = 1 := by simp at hi; omega
    rcases this with rfl | rfl
    · simpa [dotPrefix, sumFrom] using ha.le
    · simp only [dotPrefix, sumFrom]
      simp
      rw [div_sqrt_mul_div_sqrt _ _ _ ha.le]; linarith
  have h := cholesky_LLt [[a, u], [b, c]] hd' hp'
  have h00 := h 0 0 (by simp) le_rfl
  have h10 := h 1 0 (by simp) (by omega)
  have h11 := h 1 1 (by simp) le_rfl
  rw [cholesky_n2] at h00 h10 h11
  refine ⟨_, _, _, cholesky_n2 a b c u, ?_, ?_, ?_⟩
  · simpa [dotPrefix, sumFrom] using h00
  · simpa [dotPrefix, sumFrom] using h10
  · simpa [dotPrefix, sumFrom] using h11


/-- Row `i` of `L` is computed from row `i` of `ρ` and the factor of the leading `i × i` block. -/
theorem cholesky_getD_row (sq : ℝ → ℝ) (rho : List (List ℝ)) (i : ℕ) (hi : i < rho.length) :
    (cholesky sq rho).getD i [] = cholRow sq (rho.getD i []) (cholesky sq (rho.take i)) := by
  have hsplit : rho = (rho.take i ++ [rho.getD i []]) ++ rho.drop (i + 1) := by
    have e : rho.getD i [] = rho[i] := by simp [List.getD_eq_getElem?_getD, hi]
    rw [e, ← List.take_succ_eq_append_getElem hi, List.take_append_drop]
  have hst := cholesky_prefix_stable sq (rho.take i ++ [rho.getD i []]) (rho.drop (i + 1))
  rw [← hsplit, cholesky_append_row] at hst
  have hlen : (rho.take i ++ [rho.getD i []]).length = i + 1 := by
    simp [List.length_take]; omega
  rw [hlen] at hst
  have hL : (cholesky sq (rho.take i)).length = i := by
    rw [cholesky_length, List.length_take]; omega
  have h1 : ((cholesky sq rho).take (i + 1)).getD i [] = (cholesky sq rho).getD i [] := by
    simp [List.getD_eq_getElem?_getD]
  rw [← h1, hst]
  have := getD_append_length (cholesky sq (rho.take i)) (cholRow sq (rho.getD i []) (cholesky sq (rho.take i))) []
  rw [hL] at this
  exact this

/-- the diagonal entry of the new row is the square root of the pivot. -/
theorem cholRow_diag_entry (sq : ℝ → ℝ) (rhoRow : List ℝ) (prev : List (List ℝ)) :
    (cholRow sq rhoRow prev).getD prev.length 0 = sq (rhoRow.getD prev.length 0 -
      dotPrefix ((cholRow sq rhoRow prev).take prev.length) ((cholRow sq rhoRow prev).take prev.length)) := by
  rw [cholRow_take_le _ _ _ _ le_rfl, cholRow_eq]
  have := getD_append_length (cholRowPrefix rhoRow prev prev.length)
    (sq (rhoRow.getD prev.length 0 - dotPrefix (cholRowPrefix rhoRow prev prev.length)
      (cholRowPrefix rhoRow prev prev.length))) 0
  rw [cholRowPrefix_length] at this
  exact this

/-- `L[i][i] = sqrt(ρ[i][i] − Σ_{k<i} L[i][k]²)` for every `i < n`. -/
theorem cholesky_diag_entry (sq : ℝ → ℝ) (rho : List (List ℝ)) (i : ℕ) (hi : i < rho.length) :
    ((cholesky sq rho).getD i []).getD i 0 = sq ((rho.getD i []).getD i 0 -
      dotPrefix (((cholesky sq rho).getD i []).take i) (((cholesky sq rho).getD i []).take i)) := by
  have hL : (cholesky sq (rho.take i)).length = i := by
    rw [cholesky_length, List.length_take]; omega
  have := cholRow_diag_entry sq (rho.getD i []) (cholesky sq (rho.take i))
  rw [hL] at this
  rw [cholesky_getD_row sq rho i hi]
  exact this

/-- C20 `cholesky_LLt_of_diag_pos`: the hypotheses stated as "every diagonal entry of `L` is positive". -/
theorem cholesky_LLt_of_diag_pos (rho : List (List ℝ))
    (hpos : ∀ i, i < rho.length → 0 < ((cholesky Real.sqrt rho).getD i []).getD i 0)
    (i j : ℕ) (hi : i < rho.length) (hij : j ≤ i) :
    dotPrefix (((cholesky Real.sqrt rho).getD i []).take (j + 1))
      (((cholesky Real.sqrt rho).getD j []).take (j + 1)) = (rho.getD i []).getD j 0 := by
  apply cholesky_LLt rho _ _ i j hi hij
  · intro k hk; exact (hpos k (by omega)).ne'
  · intro k hk
    have := hpos k hk
    rw [cholesky_diag_entry _ _ _ hk, Real.sqrt_pos] at this
    exact this.le

/-- C20 `cholesky_LLt_rows`: the same without the truncations (row `j` of `L` has `j + 1` entries and `zipWith` stops there). -/
theorem cholesky_LLt_rows (rho : List (List ℝ))
    (hd : ∀ j, j + 1 < rho.length → ((cholesky Real.sqrt rho).getD j []).getD j 0 ≠ 0)
    (hp : ∀ i, i < rho.length → 0 ≤ (rho.getD i []).getD i 0 -
        dotPrefix (((cholesky Real.sqrt rho).getD i []).take i) (((cholesky Real.sqrt rho).getD i []).take i))
    (i j : ℕ) (hi : i < rho.length) (hij : j ≤ i) :
    dotPrefix ((cholesky Real.sqrt rho).getD i []) ((cholesky Real.sqrt rho).getD j [])
      = (rho.getD i []).getD j 0 := by
  have h := cholesky_LLt rho hd hp i j hi hij
  have hl := cholesky_row_length Real.sqrt rho j (by omega)
  rw [List.take_of_length_le (l := (cholesky Real.sqrt rho).getD j []) (by omega)] at h
  rw [dotPrefix_take_left, hl]; exact h


/-- `dotPrefix` of two `m`-truncations is the textbook sum `Σ_{k<m} x[k]·y[k]`. -/
theorem dotPrefix_take_eq_sum (x y : List ℝ) (m : ℕ) :
    dotPrefix (x.take m) (y.take m) = ∑ k ∈ Finset.range m, x.getD k 0 * y.getD k 0 := by
  induction x generalizing y m with
  | nil => simp [dotPrefix_eq_sum]
  | cons a x ih =>
    cases y with
    | nil => simp [dotPrefix_eq_sum]
    | cons b y =>
      cases m with
      | zero => simp [dotPrefix_eq_sum]
      | succ m =>
        rw [Finset.sum_range_succ']
        simp only [List.getD_cons_zero, List.getD_cons_succ]
        rw [← ih y m]
        simp only [dotPrefix_eq_sum, List.take_succ_cons, List.zipWith_cons_cons, List.sum_cons]
        ring

/-- C20 `cholesky_LLt_sum`: the main theorem in textbook notation,
`Σ_{k ≤ j} L[i][k]·L[j][k] = ρ[i][j]` for `j ≤ i < n`. -/
theorem cholesky_LLt_sum (rho : List (List ℝ))
    (hd : ∀ j, j + 1 < rho.length → ((cholesky Real.sqrt rho).getD j []).getD j 0 ≠ 0)
    (hp : ∀ i, i < rho.length → 0 ≤ (rho.getD i []).getD i 0 -
        ∑ k ∈ Finset.range i, ((cholesky Real.sqrt rho).getD i []).getD k 0 *
          ((cholesky Real.sqrt rho).getD i []).getD k 0)
    (i j : ℕ) (hi : i < rho.length) (hij : j ≤ i) :
    ∑ k ∈ Finset.range (j + 1), ((cholesky Real.sqrt rho).getD i []).getD k 0 *
      ((cholesky Real.sqrt rho).getD j []).getD k 0 = (rho.getD i []).getD j 0 := by
  rw [← dotPrefix_take_eq_sum]
  apply cholesky_LLt rho hd _ i j hi hij
  intro k hk
  rw [dotPrefix_take_eq_sum]; exact hp k hk

/-- The inductive heart in one statement: for ANY previous rows `prev` (row `j` of length `j+1`, non-zero
diagonal) and a non-negative pivot, the new row `r = cholRow √ rhoRow prev` satisfies
`Σ_{k≤j} r[k]·prev[j][k] = rhoRow[j]` for `j < i` and `Σ_k r[k]² = rhoRow[i]`, `i = prev.length`. -/
theorem cholRow_LLt (rhoRow : List ℝ) (prev : List (List ℝ))
    (hlen : ∀ j, j < prev.length → (prev.getD j []).length = j + 1)
    (hd : ∀ j, j < prev.length → (prev.getD j []).getD j 0 ≠ 0)
    (hp : 0 ≤ rhoRow.getD prev.length 0 -
      dotPrefix ((cholRow Real.sqrt rhoRow prev).take prev.length)
        ((cholRow Real.sqrt rhoRow prev).take prev.length)) :
    (∀ j, j < prev.length →
      dotPrefix ((cholRow Real.sqrt rhoRow prev).take (j + 1)) ((prev.getD j []).take (j + 1))
        = rhoRow.getD j 0) ∧
    dotPrefix (cholRow Real.sqrt rhoRow prev) (cholRow Real.sqrt rhoRow prev)
      = rhoRow.getD prev.length 0 :=
  ⟨fun j hj => cholRow_offdiag_eq _ _ _ j hj (hlen j hj) (hd j hj), cholRow_diag_eq _ _ hp⟩

/-- non-vacuity: `[[4,2],[2,5]]` (positive definite; `L = [[2],[1,2]]`) meets the hypotheses. -/
example : ∀ i j, i < 2 → j ≤ i →
    dotPrefix (((cholesky Real.sqrt [[4, 2], [2, 5]]).getD i []).take (j + 1))
      (((cholesky Real.sqrt [[4, 2], [2, 5]]).getD j []).take (j + 1))
      = ([[(4:ℝ), 2], [2, 5]].getD i []).getD j 0 := by
  have h4 : Real.sqrt 4 = 2 := by
    rw [show (4:ℝ) = 2 * 2 by norm_num, Real.sqrt_mul_self (by norm_num)]
  have hL : cholesky Real.sqrt [[4, 2], [2, 5]] = [[2], [1, 2]] := by
    rw [cholesky_n2, h4]; norm_num [h4]
  intro i j hi hij
  apply cholesky_LLt_of_diag_pos _ _ i j (by simpa using hi) hij
  intro k hk
  rw [hL]
  have : k = 0 ∨ k = 1 := by simp at hk; omega
  rcases this with rfl | rfl <;> norm_num

end FinVerif.Props.C20
