/-
  C20 (part o) — the SECANT path of `financepy/utils/solver_1d.py: newton` (`fprime=None`; plain Python), model
  `newtonSecLoop` / `newtonSec` of `Model/C20Halley.lean`, for an ARBITRARY objective `f`.

  * a flat secant through two DISTINCT abscissae is reported (`None`), in particular an objective that is flat
    around the start (the two starting abscissae are distinct for every `x0`: `secantStartNewton_ne`);
  * what a returned number is: the common point of coinciding abscissae, or the secant update of two distinct
    abscissae with different ordinates that `np.isclose` accepted — with the residual bound that follows;
  * the exhausted budget returns the last update silently (known finding `C20/newton-silent-nonconvergence` on
    this path): full statement, witness, `_partial` theorem.
-/
import FinVerif.Props.C20f

namespace FinVerif.Props.C20
open FinVerif FinVerif.Model.C20

/-- "failure is reported rather than a wrong root" at a flat secant: equal ordinates at distinct abscissae give
`None`, whatever budget is left. -/
theorem newtonSec_flat_reports_failure (f : ℝ → ℝ) (tol rtol : ℝ) (n : Nat) (p0 p1 q pl : ℝ) (hne : p1 ≠ p0) :
    newtonSecLoop f tol rtol (n + 1) p0 p1 q q pl = .flat := by
  unfold newtonSecLoop
  simp [hne]

/-- Entry form: if `f` takes the same value at `x0` and at the perturbed start `x0(1+eps) ± eps`, the secant path of
`newton` returns `None` for every tolerance and budget. -/
theorem newtonSec_flat_start_reports_failure (f : ℝ → ℝ) (eps x0 tol rtol : ℝ) (maxiter : Int)
    (heps : 0 < eps) (htol : 0 < tol) (hmi : 1 ≤ maxiter)
    (hflat : f (1 * x0) = f (secantStartNewton eps x0)) :
    newtonSec f eps x0 tol rtol maxiter = .ok .flat := by
  unfold newtonSec
  rw [if_neg (not_le.mpr htol), if_neg (by omega)]
  simp only
  obtain ⟨n, hn⟩ : ∃ n, maxiter.toNat = n + 1 := ⟨maxiter.toNat - 1, by omega⟩
  have hne : secantStartNewton eps x0 ≠ 1 * x0 := by
    rw [one_mul]; exact secantStartNewton_ne eps x0 heps
  rw [← hflat, if_neg (lt_irrefl _), hn, newtonSec_flat_reports_failure f tol rtol n _ _ _ _ hne]

/-- non-vacuity: a constant objective. -/
example : newtonSec (fun _ : ℝ => 1) (1e-4) 2 (1e-8) 0 50 = .ok .flat :=
  newtonSec_flat_start_reports_failure _ _ _ _ _ _ (by norm_num) (by norm_num) (by norm_num) rfl

/-- What each kind of result of the secant path guarantees (ordinates tied to `f`). -/
def NewtonSecPost (f : ℝ → ℝ) (tol rtol : ℝ) : SecRes ℝ → Prop
  | .mid x => ∃ a, x = a
  | .step x b => ∃ a, f b ≠ f a ∧ b ≠ a ∧ x = b - f b * (b - a) / (f b - f a) ∧ |x - b| ≤ tol + rtol * |b| ∧
      |f b| ≤ (tol + rtol * |b|) * |(f b - f a) / (b - a)|
  | .flat => True
  | .noconv _ => True

/-- Residual bound from the `np.isclose` criterion (the `≤` version of `secant_step_residual`). -/
theorem secant_isclose_residual (f : ℝ → ℝ) (t a b : ℝ) (hq : f b ≠ f a) (hab : b ≠ a)
    (hs : |secantUpdate a b (f a) (f b) - b| ≤ t) :
    |f b| ≤ t * |(f b - f a) / (b - a)| := by
  rw [secantUpdate_eq a b _ _ hq] at hs
  have hd : f b - f a ≠ 0 := sub_ne_zero.mpr hq
  have he : b - a ≠ 0 := sub_ne_zero.mpr hab
  have h1 : b - f b * (b - a) / (f b - f a) - b = -(f b * ((b - a) / (f b - f a))) := by ring
  rw [h1, abs_neg, abs_mul] at hs
  have hpos : 0 < |(f b - f a) / (b - a)| := abs_pos.mpr (div_ne_zero hd he)
  have h2 : |(b - a) / (f b - f a)| * |(f b - f a) / (b - a)| = 1 := by
    rw [← abs_mul]
    have : (b - a) / (f b - f a) * ((f b - f a) / (b - a)) = 1 := by field_simp
    rw [this, abs_one]
  calc |f b| = |f b| * (|(b - a) / (f b - f a)| * |(f b - f a) / (b - a)|) := by rw [h2, mul_one]
    _ = (|f b| * |(b - a) / (f b - f a)|) * |(f b - f a) / (b - a)| := by ring
    _ ≤ t * |(f b - f a) / (b - a)| := mul_le_mul_of_nonneg_right hs hpos.le

/-- C20 post-condition of the secant path of `newton` (any `f`, tolerances, budget, any two current abscissae whose
ordinates are the values of `f`): a `step` result is the textbook secant update from two DISTINCT abscissae with different
ordinates, within `tol + rtol·|b|` of the last one `b`, and `|f b| ≤ (tol + rtol|b|)·|chord slope|`. -/
theorem newtonSec_returns_post (f : ℝ → ℝ) (tol rtol : ℝ) (n : Nat) (p0 p1 q0 q1 pl : ℝ)
    (hq0 : q0 = f p0) (hq1 : q1 = f p1) :
    NewtonSecPost f tol rtol (newtonSecLoop f tol rtol n p0 p1 q0 q1 pl) := by
  induction n generalizing p0 p1 q0 q1 pl with
  | zero => simp [newtonSecLoop, NewtonSecPost]
  | succ n ih =>
    unfold newtonSecLoop
    split
    · split
      · simp [NewtonSecPost]
      · exact ⟨_, rfl⟩
    · rename_i hneq
      have hneq : q1 ≠ q0 := by simpa using hneq
      simp only
      split
      · rename_i hc
        rw [isclose_iff] at hc
        have hne : f p1 ≠ f p0 := by rw [← hq0, ← hq1]; exact hneq
        have hba : p1 ≠ p0 := by intro h; apply hne; rw [h]
        refine ⟨p0, hne, hba, ?_, hc, ?_⟩
        · rw [hq0, hq1, secantUpdate_eq p0 p1 _ _ hne]
        · rw [hq0, hq1] at hc
          exact secant_isclose_residual f _ p0 p1 hne hba hc
      · exact ih _ _ _ _ _ hq1 rfl

/-- The clause "failure is reported rather than a wrong root" for the secant path: the budget-exhausted exit never hands
back a number (`SecRes.noconv p` is returned to the caller as the plain float `p`). -/
def NewtonSecReportsFailure : Prop :=
  ∀ (f : ℝ → ℝ) (tol rtol : ℝ) (n : Nat) (p0 p1 pl p : ℝ),
    newtonSecLoop f tol rtol n p0 p1 (f p0) (f p1) pl ≠ .noconv p

/-- The unchanged code does NOT satisfy it (known finding `C20/newton-silent-nonconvergence` on this path): with the
budget exhausted the last update is returned although the step criterion did not fire.  Witness: `f x = x² + 1` (no real
root), abscissae `0, 1`, one pass, `tol = 1e-8`: the caller receives `−1`, where `f = 2`. -/
theorem newtonSec_silent_nonconvergence_witness :
    newtonSecLoop (fun x : ℝ => x ^ 2 + 1) (1e-8) 0 1 0 1 1 2 0 = .noconv (-1) := by
  have h1 : ((2:ℝ) == 1) = false := by rw [beq_eq_false_iff_ne]; norm_num
  have hu : secantUpdate (0:ℝ) 1 1 2 = -1 := by
    rw [secantUpdate_eq _ _ _ _ (by norm_num)]; norm_num
  have h3 : isclose (-1:ℝ) 1 0 1e-8 = false := by
    rw [Bool.eq_false_iff, Ne, isclose_iff]; norm_num
  simp [newtonSecLoop, h1, hu, h3]

theorem newtonSec_does_not_report_failure : ¬ NewtonSecReportsFailure := by
  intro h
  apply h (fun x : ℝ => x ^ 2 + 1) (1e-8) 0 1 0 1 0 (-1)
  have e0 : ((0:ℝ) ^ 2 + 1) = 1 := by norm_num
  have e1 : ((1:ℝ) ^ 2 + 1) = 2 := by norm_num
  show newtonSecLoop (fun x : ℝ => x ^ 2 + 1) 1e-8 0 1 0 1 ((0:ℝ) ^ 2 + 1) ((1:ℝ) ^ 2 + 1) 0 = SecRes.noconv (-1)
  rw [e0, e1]
  exact newtonSec_silent_nonconvergence_witness

/-- … and with the exhausted budget excluded (the classifier of the known finding; and the midpoint exit, which needs
coinciding abscissae) a number handed back is within the step tolerance of an abscissa `b` where the residual is bounded by
`(tol + rtol|b|)·|chord slope|`. -/
theorem newtonSec_reports_failure_partial (f : ℝ → ℝ) (tol rtol : ℝ) (n : Nat) (p0 p1 pl x : ℝ)
    (hconv : ∀ p, newtonSecLoop f tol rtol n p0 p1 (f p0) (f p1) pl ≠ .noconv p)
    (hmid : ∀ p, newtonSecLoop f tol rtol n p0 p1 (f p0) (f p1) pl ≠ .mid p)
    (h : (newtonSecLoop f tol rtol n p0 p1 (f p0) (f p1) pl).value = some x) :
    ∃ a b, b ≠ a ∧ f b ≠ f a ∧ |f b| ≤ (tol + rtol * |b|) * |(f b - f a) / (b - a)| ∧ |x - b| ≤ tol + rtol * |b| := by
  have hpost := newtonSec_returns_post f tol rtol n p0 p1 (f p0) (f p1) pl rfl rfl
  cases hres : newtonSecLoop f tol rtol n p0 p1 (f p0) (f p1) pl with
  | mid p => exact absurd hres (hmid p)
  | step p b =>
    rw [hres] at hpost h
    simp [SecRes.value] at h
    subst h
    obtain ⟨a, h1, h2, _, h4, h5⟩ := hpost
    exact ⟨a, b, h2, h1, h5, h4⟩
  | flat => rw [hres] at h; simp [SecRes.value] at h
  | noconv p => exact absurd hres (hconv p)

/-- The `mid` exit is unreachable from distinct starting abscissae as long as consecutive iterates stay distinct;
at the first pass it needs `p1 = p0`, which `secantStartNewton_ne` excludes: from the perturbed start the first pass
never returns a midpoint. -/
theorem newtonSec_first_pass_not_mid (f : ℝ → ℝ) (tol rtol : ℝ) (p0 p1 pl : ℝ) (hp : p1 ≠ p0) (x : ℝ) :
    newtonSecLoop f tol rtol 1 p0 p1 (f p0) (f p1) pl ≠ .mid x := by
  unfold newtonSecLoop
  split
  · simp [hp]
  · simp only
    split
    · simp
    · simp [newtonSecLoop]

end FinVerif.Props.C20
