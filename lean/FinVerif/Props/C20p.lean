/-
  C20 (part p) — the LOOPS of the numerical kernels.  `Gen/KernLoopR.lean` is cut out of the source `for` statements of
  `utils/math.py` and `utils/solver_1d.py` on every run (header triple, initial values, body as a step function, index
  expression of every array access, exit tests, tail; `tools/py2lean/registry/kernloops.py`).  Here the hand-written loops
  of `Model/C20.lean` / `Model/C20Halley.lean` are proved to BE those loops: same range, same initial state, recursion
  step = generated step (so the comparison operators of the guards, the index offsets, the factors and the order of the
  updates are the source's), same tail; then facts stated on the generated pieces (every array access in range, monotone
  accumulator).
-/
import FinVerif.Props.C20o
import FinVerif.Lemmas.C20Loop
import FinVerif.Gen.KernLoopR

set_option linter.unusedSimpArgs false
set_option linter.unusedVariables false
set_option linter.unnecessarySeqFocus false

namespace FinVerif.Props.C20
open FinVerif FinVerif.Model.C20 FinVerif.Lemmas.C20 FinVerif.Gen.KernLoopR

/-! ### solve_tridiagonal_matrix -/

/-- C20 (tie, headers): forward elimination runs `for j in range(1, n)`, back substitution `for j in range(n-2, -1, -1)`. -/
theorem tri_ranges_are_generated (n : Int) :
    tri_fwd_range n = (1, n, 1) ∧ tri_back_range n = (n - 2, -1, -1) := ⟨rfl, rfl⟩

/-- C20 (tie, index offsets): the forward body touches `gam[j], c[j-1], b[j], a[j], u[j], r[j], u[j-1]`, the backward
body `u[j], gam[j+1], u[j+1]`, the statements before the loops `b[0], u[0], r[0]`. -/
theorem tri_reads_are_generated (j : Int) :
    tri_fwd_reads j = (j, j - 1, j, j, j, j, j - 1) ∧ tri_back_reads j = (j, j + 1, j + 1) ∧ tri_head_reads = (0, 0, 0) :=
  ⟨rfl, rfl, rfl⟩

/-- C20 (tie, initial state): `thomas` starts from the generated `bet = b[0]`, `u[0] = r[0] / bet`, and its `none` is the
generated `raise ValueError` on `b[0] == 0`. -/
theorem thomas_head_is_generated (r0 : Row ℝ) (rest : List (Row ℝ)) :
    thomas (r0 :: rest) = (match tri_head r0.b r0.r with
      | .error _ => none
      | .ok g => thomasAux g.1 g.2 r0.c rest) := by
  unfold thomas tri_head
  by_cases h : r0.b = 0 <;> simp [h]

/-- C20 (tie, one row): one unfolding of the hand-written recursion is one generated forward step (zero-pivot test
included) and, on the way back, one generated back-substitution step applied to the head of the solved tail. -/
theorem thomasAux_step_is_generated (bet uf cprev : ℝ) (row : Row ℝ) (rest : List (Row ℝ)) :
    thomasAux bet uf cprev (row :: rest) = (match tri_fwd_step bet cprev row.b row.a row.r uf with
      | .error _ => none
      | .ok g => (match thomasAux g.2.1 g.2.2 row.c rest with
        | none => none
        | some xs => some (tri_back_step uf g.1 (xs.headD 0) :: xs))) := by
  conv_lhs => unfold thomasAux
  unfold tri_fwd_step tri_back_step
  by_cases h : row.b - row.a * (cprev / bet) = 0
  · simp [h]
  · simp [h]
    generalize thomasAux _ _ _ rest = t
    cases t <;> rfl

/-- C20 (no out-of-range access): for every `n`, every array access of the forward loop, of the back substitution and
of the head is inside `[0, n)` (the arrays have length `n`; `n ≥ 1` is what `b[0]` needs). -/
theorem tri_reads_in_range (n : Int) :
    (∀ j ∈ pyRange (tri_fwd_range n),
      let r := tri_fwd_reads j
      ∀ i ∈ [r.1, r.2.1, r.2.2.1, r.2.2.2.1, r.2.2.2.2.1, r.2.2.2.2.2.1, r.2.2.2.2.2.2], 0 ≤ i ∧ i < n) ∧
    (∀ j ∈ pyRange (tri_back_range n),
      let r := tri_back_reads j
      ∀ i ∈ [r.1, r.2.1, r.2.2], 0 ≤ i ∧ i < n) ∧
    (1 ≤ n → let r := tri_head_reads
      ∀ i ∈ [r.1, r.2.1, r.2.2], 0 ≤ i ∧ i < n) := by
  refine ⟨?_, ?_, ?_⟩
  · intro j hj
    rw [(tri_ranges_are_generated n).1, mem_pyRange_up] at hj
    simp only [(tri_reads_are_generated j).1, List.mem_cons, List.not_mem_nil, or_false]
    intro i hi
    rcases hi with h | h | h | h | h | h | h <;> omega
  · intro j hj
    rw [(tri_ranges_are_generated n).2, mem_pyRange_down] at hj
    simp only [(tri_reads_are_generated j).2.1, List.mem_cons, List.not_mem_nil, or_false]
    intro i hi
    rcases hi with h | h | h <;> omega
  · intro hn
    simp only [(tri_reads_are_generated 0).2.2, List.mem_cons, List.not_mem_nil, or_false]
    intro i hi
    rcases hi with h | h | h <;> omega

/-- the forward loop visits exactly the rows `1 … n-1` and the back substitution the rows `n-2 … 0`, in that order -/
theorem tri_ranges_enumerate (n : Nat) :
    pyRange (tri_fwd_range n) = (List.range (n - 1)).map (fun (k : Nat) => (1 : Int) + k) ∧
    pyRange (tri_back_range n) = (List.range (n - 1)).map (fun (k : Nat) => ((n : Int) - 2) - k) := by
  rw [(tri_ranges_are_generated n).1, (tri_ranges_are_generated n).2, pyRange_up, pyRange_down]
  have h1 : ((n : Int) - 1).toNat = n - 1 := by omega
  have h2 : ((n : Int) - 2 - -1).toNat = n - 1 := by omega
  rw [h1, h2]
  exact ⟨rfl, rfl⟩


/-! ### band_matrix_multiplication -/

/-- C20 (tie, clamps and headers): `jl[i] = max(i - m1, 0)` (`jl[jl < 0] = 0`), `ju[i] = min(i + m2, n - 1)`
(`ju[ju > n - 1] = n - 1`), `for i in range(n)`, `for j in range(jl[i], ju[i] + 1)`. -/
theorem band_frame_is_generated (i n m1 m2 jl ju : Int) :
    band_jl i n m1 = max (i - m1) 0 ∧ band_ju i n m2 = min (i + m2) (n - 1) ∧
    band_outer_range n = (0, n, 1) ∧ band_inner_range jl ju = (jl, ju + 1, 1) ∧ band_inner_range_reads i = (i, i) := by
  refine ⟨?_, ?_, rfl, rfl, rfl⟩
  · unfold band_jl; simp only [decide_eq_true_eq]; split <;> omega
  · unfold band_ju; simp only [decide_eq_true_eq]; split <;> omega

/-- C20 (tie, body): `k = j - i + m1; x[i] += a[i, k] * b[j]`. -/
theorem band_step_is_generated (i j m1 : Int) (x a b : ℝ) :
    band_step i j m1 x a b = x + a * b ∧ band_step_reads i j m1 = (i, i, j - i + m1, j) := ⟨rfl, rfl⟩

/-- C20 (no out-of-range access): for all sizes and band widths `m1, m2 ≥ 0`, every access of the double loop is inside
its array: `x[i]`, `jl[i]`, `ju[i]` with `0 ≤ i < n`, `b[j]` with `0 ≤ j < n`, `a[i, k]` with `0 ≤ k < m1 + m2 + 1`. -/
theorem band_reads_in_range (n m1 m2 : Int) (h1 : 0 ≤ m1) (h2 : 0 ≤ m2) :
    ∀ i ∈ pyRange (band_outer_range n), ∀ j ∈ pyRange (band_inner_range (band_jl i n m1) (band_ju i n m2)),
      let r := band_step_reads i j m1
      (0 ≤ r.1 ∧ r.1 < n) ∧ (0 ≤ r.2.1 ∧ r.2.1 < n) ∧ (0 ≤ r.2.2.1 ∧ r.2.2.1 < m1 + m2 + 1) ∧ (0 ≤ r.2.2.2 ∧ r.2.2.2 < n) := by
  intro i hi j hj
  obtain ⟨e1, e2, e3, e4, _⟩ := band_frame_is_generated i n m1 m2 (band_jl i n m1) (band_ju i n m2)
  rw [e3, mem_pyRange_up] at hi
  rw [e4, mem_pyRange_up, e1, e2] at hj
  simp only [(band_step_is_generated i j m1 0 0 0).2]
  omega

/-- C20 (tie, whole inner loop): row `i` of the hand model IS `for j in range(jl[i], ju[i] + 1): <generated body>` from
`x[i] = 0`, with the generated clamps and the generated index expressions, for every size and band width. -/
theorem bandMulRow_is_generated_loop (a : Nat → Nat → ℝ) (m1 m2 n : Nat) (b : Nat → ℝ) (i : Nat) (hi : i < n) :
    bandMulRow a m1 m2 n b i =
      forRange (band_inner_range (band_jl i n m1) (band_ju i n m2))
        (fun x j => let r := band_step_reads i j m1
                    band_step i j m1 x (a r.2.1.toNat r.2.2.1.toNat) (b r.2.2.2.toNat)) 0 := by
  obtain ⟨e1, e2, _, e4, _⟩ := band_frame_is_generated i n m1 m2 (band_jl i n m1) (band_ju i n m2)
  have hjl : band_jl (i : Int) n m1 = ((i - m1 : Nat) : Int) := by rw [e1]; omega
  have hju : band_ju (i : Int) n m2 = ((min (i + m2) (n - 1) : Nat) : Int) := by rw [e2]; omega
  unfold bandMulRow forRange sumFrom
  rw [e4, hjl, hju, pyRange_up, List.foldl_map, List.foldl_map]
  have hN : (((min (i + m2) (n - 1) : Nat) : Int) + 1 - ((i - m1 : Nat) : Int)).toNat
      = min (i + m2) (n - 1) + 1 - (i - m1) := by omega
  rw [hN]
  congr 1
  funext x t
  have hs : ∀ (j : Int) (x a b : ℝ), band_step i j m1 x a b = x + a * b := fun j x a b => rfl
  have hr : ∀ (j : Int), band_step_reads i j m1 = ((i : Int), (i : Int), j - i + m1, j) := fun j => rfl
  simp only [hs, hr]
  have k1 : ((i : Int)).toNat = i := by omega
  have k2 : (((i - m1 : Nat) : Int) + (t : Int) - (i : Int) + (m1 : Int)).toNat = i - m1 + t + m1 - i := by omega
  have k3 : (((i - m1 : Nat) : Int) + (t : Int)).toNat = i - m1 + t := by omega
  rw [k1, k2, k3]

/-- C20 (tie, outer loop): the result vector has one generated inner loop per index of `range(n)`. -/
theorem bandMul_is_generated_loop (a : Nat → Nat → ℝ) (m1 m2 n : Nat) (b : Nat → ℝ) :
    bandMul a m1 m2 n b = (pyRange (band_outer_range n)).map (fun i => bandMulRow a m1 m2 n b i.toNat) := by
  unfold bandMul
  rw [(band_frame_is_generated 0 n m1 m2 0 0).2.2.1, pyRange_up, List.map_map]
  have : ((n : Int) - 0).toNat = n := by omega
  rw [this]
  apply List.map_congr_left
  intro k _
  simp

/-! ### npv -/

/-- C20 (tie): `_npv = 0` and the body `_npv += c / ((1 + irr) ** t)`. -/
theorem npv_pieces_are_generated (irr acc t c : ℝ) :
    npv_init = 0 ∧ npv_step irr acc t c = acc + c / Real.rpow (1 + irr) t := by
  constructor
  · simp [npv_init]
  · simp [npv_step]

/-- C20 (tie, whole loop): the hand model of `npv` IS `for t, c in times_cfs: <generated body>` from the generated
initial value, for every cash-flow list. -/
theorem npv_is_generated_loop (irr : ℝ) (tcs : List (ℝ × ℝ)) :
    npv Real.rpow irr tcs = tcs.foldl (fun acc tc => npv_step irr acc tc.1 tc.2) npv_init := by
  unfold npv
  rw [(npv_pieces_are_generated irr 0 0 0).1]
  congr 1
  funext acc tc
  exact ((npv_pieces_are_generated irr acc tc.1 tc.2).2).symm

/-- C20 (invariant on the generated body): with a positive discounting base a non-negative flow never lowers the
accumulator, a non-positive one never raises it. -/
theorem npv_step_monotone (irr acc t c : ℝ) (h : 0 < 1 + irr) :
    (0 ≤ c → acc ≤ npv_step irr acc t c) ∧ (c ≤ 0 → npv_step irr acc t c ≤ acc) := by
  rw [(npv_pieces_are_generated irr acc t c).2]
  have hp : 0 < Real.rpow (1 + irr) t := Real.rpow_pos_of_pos h t
  constructor
  · intro hc
    have : 0 ≤ c / Real.rpow (1 + irr) t := div_nonneg hc hp.le
    linarith
  · intro hc
    have : c / Real.rpow (1 + irr) t ≤ 0 := div_nonpos_of_nonpos_of_nonneg hc hp.le
    linarith

/-! ### bisection -/

/-- C20 (tie, header and abscissa): `for i in range(0, maxiter)`, `xmid = (x1 + x2) / 2.0`. -/
theorem bisect_frame_is_generated (maxiter : Int) (x1 x2 : ℝ) :
    bisect_range maxiter = (0, maxiter, 1) ∧ bisect_mid x1 x2 = (x1 + x2) / 2 := ⟨rfl, rfl⟩

/-- C20 (tie, body): the generated body moves the RIGHT end when `f1 * fmid < 0` (strict), the left end otherwise, and
takes `return xmid` iff `|fmid| < xtol` (strict). -/
theorem bisect_step_spec (f1 x1 x2 xmid fmid xtol : ℝ) :
    bisect_step f1 x1 x2 xmid fmid xtol
      = (if f1 * fmid < 0 then x1 else xmid, if f1 * fmid < 0 then xmid else x2, decide (|fmid| < xtol)) := by
  unfold bisect_step
  by_cases h : f1 * fmid < 0 <;> by_cases h2 : |fmid| < xtol <;> simp [h, h2]

/-- C20 (tie): the hand-written bracket update is the generated body. -/
theorem bisectStep_is_generated (f : ℝ → ℝ) (f1 xtol : ℝ) (s : ℝ × ℝ) :
    bisectStep f f1 s =
      (let xm := bisect_mid s.1 s.2
       let g := bisect_step f1 s.1 s.2 xm (f xm) xtol
       (g.1, g.2.1)) := by
  simp only [bisect_step_spec, bisectStep, bisect_mid]
  split <;> rfl

/-- one generated iteration of `bisection`: leave the loop with `xmid` or continue with the new bracket -/
noncomputable def bisectBody (f : ℝ → ℝ) (f1 xtol : ℝ) (s : ℝ × ℝ) : Except ℝ (ℝ × ℝ) :=
  let xm := bisect_mid s.1 s.2
  let g := bisect_step f1 s.1 s.2 xm (f xm) xtol
  if g.2.2 then .error xm else .ok (g.1, g.2.1)

/-- C20 (tie, one iteration): one unfolding of the hand-written loop is one generated iteration. -/
theorem bisectLoop_step_is_generated (f : ℝ → ℝ) (f1 xtol : ℝ) (n : Nat) (s : ℝ × ℝ) :
    bisectLoop f f1 xtol (n + 1) s = (match bisectBody f f1 xtol s with
      | .error x => some x
      | .ok s' => bisectLoop f f1 xtol n s') := by
  conv_lhs => unfold bisectLoop
  simp only [bisectBody, bisectStep_is_generated f f1 xtol s, bisect_step_spec, absG_eq_abs, bisect_mid]
  by_cases h : |f ((s.1 + s.2) / 2)| < xtol <;> simp [h]

/-- C20 (tie, whole loop): the hand model of the `bisection` loop IS `for i in range(0, maxiter): <generated body>`
with its `return xmid`, falling through to `return None`, for every budget. -/
theorem bisectLoop_is_generated_loop (f : ℝ → ℝ) (f1 xtol : ℝ) (n : Nat) (s : ℝ × ℝ) :
    bisectLoop f f1 xtol n s =
      (match loopExit (fun s (_ : Int) => bisectBody f f1 xtol s) (pyRange (bisect_range n)) s with
        | .error x => some x
        | .ok _ => none) := by
  rw [loopExit_const, (bisect_frame_is_generated n 0 0).1, length_pyRange_up]
  have hn : ((n : Int) - 0).toNat = n := by omega
  rw [hn]
  clear hn
  induction n generalizing s with
  | zero => simp [bisectLoop, loopExit]
  | succ k ih =>
    rw [bisectLoop_step_is_generated, List.replicate_succ]
    simp only [loopExit]
    cases bisectBody f f1 xtol s with
    | error x => rfl
    | ok s' => exact ih s'

/-- C20 (tie, exits before the loop): the hand model takes exactly the generated exits — FinError on `|x1 - x2| < 1e-10`
or `x1 > x2`, `x1` / `x2` when `|f| < xtol` there, `None` when `f1 * f2 >= 0`, else the loop. -/
theorem bisection_head_is_generated (f : ℝ → ℝ) (x1 x2 xtol : ℝ) (maxiter : Nat) :
    bisection f (1e-10 : ℝ) x1 x2 xtol maxiter = (match bisect_head x1 x2 (f x1) (f x2) xtol with
      | .error e => .error e
      | .ok code =>
        if code = 1 then .ok (some x1) else if code = 2 then .ok (some x2) else if code = 3 then .ok none
        else .ok (bisectLoop f (f x1) xtol maxiter (x1, x2))) := by
  unfold bisection bisect_head
  simp only [absG_eq_abs]
  by_cases h1 : |x1 - x2| < (1e-10 : ℝ)
  · simp [h1]
  · by_cases h2 : x1 > x2
    · simp [h1, h2]
    · by_cases h3 : |f x1| < xtol
      · simp [h1, h2, h3]
      · by_cases h4 : |f x2| < xtol
        · simp [h1, h2, h3, h4]
        · by_cases h5 : f x1 * f x2 ≥ 0 <;> simp [h1, h2, h3, h4, h5]

/-! ### newton_secant -/

/-- C20 (tie, argument checks and header). -/
theorem nsec_frame_is_generated (tol : ℝ) (maxiter : Int) :
    nsec_range maxiter = (0, maxiter, 1) ∧ nsec_status_init = -1 ∧
    nsec_guard tol maxiter = (if tol ≤ 0 then .error .finError else if maxiter < 1 then .error .finError else .ok 0) := by
  refine ⟨rfl, rfl, ?_⟩
  unfold nsec_guard
  by_cases h : tol ≤ 0 <;> by_cases h2 : maxiter < 1 <;> simp [h, h2]

/-- C20 (tie, start): `p0 = 1.0 * x0`, `p1 = x0 (1 + 1e-4) ± 1e-4` with the strict test `p1 > 0`. -/
theorem nsec_start_is_generated (x0 : ℝ) :
    nsec_start x0 = (1 * x0, secantStart (0.0001 : ℝ) x0) := by
  unfold nsec_start secantStart
  by_cases h : x0 * (1 + (0.0001 : ℝ)) > 0 <;> simp [h]

/-- C20 (tie, update): the generated body's iterate is the hand model's `secantUpdate` (the branch test `|q1| > |q0|`
and both quotient forms). -/
theorem nsec_step_spec (p0 p1 q0 q1 tol : ℝ) :
    nsec_step p0 p1 q0 q1 tol =
      (if q1 = q0 then (if p1 ≠ p0 then .error .finError else .ok ((p1 + p0) / 2, 1))
       else if |secantUpdate p0 p1 q0 q1 - p1| < tol then .ok (secantUpdate p0 p1 q0 q1, 2)
       else .ok (secantUpdate p0 p1 q0 q1, 0)) := by
  unfold nsec_step secantUpdate
  simp only [absG_eq_abs]
  by_cases h : q1 = q0
  · by_cases h2 : p1 = p0 <;> simp [h, h2]
  · by_cases h3 : |q1| > |q0| <;> simp [h, h3]

/-- C20 (tie, shift): `p0, q0 = p1, q1; p1 = p; q1 = func(p1)`. -/
theorem nsec_shift_is_generated (p0 p1 q0 q1 p q : ℝ) : nsec_shift p0 p1 q0 q1 p q = (p1, p, q1, q) := rfl

/-- C20 (tie, one iteration): one unfolding of the hand-written secant loop is the generated exit tests followed by
the generated shift. -/
theorem secantLoop_step_is_generated (f : ℝ → ℝ) (tol : ℝ) (disp : Bool) (n : Nat) (p0 p1 q0 q1 pl : ℝ) :
    secantLoop f tol disp (n + 1) p0 p1 q0 q1 pl = (match nsec_step p0 p1 q0 q1 tol with
      | .error e => .error e
      | .ok g =>
        if g.2 = 0 then
          let s := nsec_shift p0 p1 q0 q1 g.1 (f g.1)
          secantLoop f tol disp n s.1 s.2.1 s.2.2.1 s.2.2.2 g.1
        else .ok g.1) := by
  conv_lhs => unfold secantLoop
  rw [nsec_step_spec]
  simp only [nsec_shift_is_generated, absG_eq_abs]
  by_cases h : q1 = q0
  · by_cases h2 : p1 = p0 <;> simp [h, h2]
  · by_cases h3 : |secantUpdate p0 p1 q0 q1 - p1| < tol <;> simp [h, h3]

/-- C20 (tie, exhausted budget): the hand model's last case is the generated tail with the generated initial status:
`disp` raises FinError, otherwise the last iterate is returned. -/
theorem secantLoop_zero_is_generated_tail (f : ℝ → ℝ) (tol : ℝ) (disp : Bool) (p0 p1 q0 q1 pl : ℝ) :
    secantLoop f tol disp 0 p0 p1 q0 q1 pl = nsec_tail disp nsec_status_init pl := by
  unfold secantLoop nsec_tail nsec_status_init
  cases disp <;> simp

/-- C20 (tie, whole function up to the loop): argument checks, start, ordering of the start (strict `|q1| < |q0|`). -/
theorem newton_secant_is_generated (f : ℝ → ℝ) (x0 tol : ℝ) (maxiter : Int) (disp : Bool) :
    newton_secant f (0.0001 : ℝ) x0 tol maxiter disp = (match nsec_guard tol maxiter with
      | .error e => .error e
      | .ok _ =>
        let s := nsec_start x0
        let w := nsec_swap s.1 s.2 (f s.1) (f s.2)
        secantLoop f tol disp maxiter.toNat w.1 w.2.1 w.2.2.1 w.2.2.2 s.1) := by
  rw [(nsec_frame_is_generated tol maxiter).2.2, nsec_start_is_generated]
  unfold newton_secant nsec_swap secantStart
  simp only [absG_eq_abs]
  by_cases h : tol ≤ 0
  · simp [h]
  · by_cases h2 : maxiter < 1
    · simp [h, h2]
    · simp only [h, h2, if_false]
      split <;> simp_all <;> (split <;> simp_all)

/-! ### newton (Newton–Raphson and Halley paths) -/

/-- C20 (tie, argument checks and header). -/
theorem newton_frame_is_generated (x0 tol : ℝ) (maxiter : Int) :
    newton_range maxiter = (0, maxiter, 1) ∧
    newton_guard x0 tol maxiter
      = (if tol ≤ 0 then .error .finError else if maxiter < 1 then .error .finError else .ok (1 * x0)) := by
  refine ⟨rfl, ?_⟩
  unfold newton_guard
  by_cases h : tol ≤ 0 <;> by_cases h2 : maxiter < 1 <;> simp [h, h2]

/-- C20 (tie, one Newton–Raphson iteration): one unfolding of the hand-written loop is the generated body without
`fprime2`: `fval == 0` → root, `fder == 0` → None, step `fval / fder`, `np.isclose` exit (non-strict `≤`). -/
theorem newtonLoop_step_is_generated (f f' : ℝ → ℝ) (tol rtol : ℝ) (n : Nat) (p0 d2 : ℝ) :
    newtonLoop f f' tol rtol (n + 1) p0 =
      (let g := newton_step p0 (f p0) (f' p0) false d2 tol rtol
       if g.2 = 1 then .root g.1 else if g.2 = 3 then .zeroDer else if g.2 = 2 then .step g.1 p0
       else newtonLoop f f' tol rtol n g.1) := by
  conv_lhs => unfold newtonLoop
  unfold newton_step isclose
  simp only [absG_eq_abs]
  by_cases h : f p0 = 0
  · simp [h]
  · by_cases h2 : f' p0 = 0
    · simp [h, h2]
    · simp [h, h2]
      split_ifs <;> simp_all

/-- C20 (tie, one Halley iteration): with `fprime2` the generated body takes the hand model's guarded Halley step
(`|adj| < 1`, strict). -/
theorem halleyLoop_step_is_generated (f f' f'' : ℝ → ℝ) (tol rtol : ℝ) (n : Nat) (p0 : ℝ) :
    halleyLoop f f' f'' tol rtol (n + 1) p0 =
      (let g := newton_step p0 (f p0) (f' p0) true (f'' p0) tol rtol
       if g.2 = 1 then .root g.1 else if g.2 = 3 then .zeroDer else if g.2 = 2 then .step g.1 p0
       else halleyLoop f f' f'' tol rtol n g.1) := by
  conv_lhs => unfold halleyLoop
  unfold newton_step isclose halleyStep
  simp only [absG_eq_abs]
  by_cases h : f p0 = 0
  · simp [h]
  · by_cases h2 : f' p0 = 0
    · simp [h, h2]
    · simp [h, h2]
      split_ifs <;> simp_all

/-- C20 (tie, whole function up to the loop): `newton` with `fprime` starts the loop at the generated `p0 = 1.0 * x0`
under the generated argument checks. -/
theorem newton_is_generated (f f' : ℝ → ℝ) (x0 tol rtol : ℝ) (maxiter : Int) :
    newton f f' x0 tol rtol maxiter = (match newton_guard x0 tol maxiter with
      | .error e => .error e
      | .ok p0 => .ok (newtonLoop f f' tol rtol maxiter.toNat p0)) := by
  rw [(newton_frame_is_generated x0 tol maxiter).2]
  unfold newton
  by_cases h : tol ≤ 0 <;> by_cases h2 : maxiter < 1 <;> simp [h, h2]

/-- the hypotheses used above are satisfiable: a 3-row system is scanned by both loops, a band of widths (1, 1), a rate -/
example : pyRange (tri_fwd_range 3) = [1, 2] ∧ pyRange (tri_back_range 3) = [1, 0] ∧
    pyRange (band_inner_range (band_jl 0 3 1) (band_ju 0 3 1)) = [0, 1] ∧ (0 : ℝ) < 1 + 0.05 := by
  refine ⟨by decide, by decide, by decide, by norm_num⟩

end FinVerif.Props.C20
