/-
C18 clause "valuation leaves its inputs unchanged" - the source-independent side of the argument-mutation table (growth round 6).

`ArgWrite` is one row of the table the extractor tools/effects/argwrites.py emits (Gen/ArgWrites.lean): function `fn` of `file`
writes in place through its parameter `param` (`kind`: setitem / augassign / setattr / call:<mutator>; `alias`: through a local
alias of the parameter).  THE DEMAND: no function writes through a parameter.  The exceptions are listed here ONE BY ONE with the
reason (and the callers that make it harmless); a row is excused only if file, function, parameter AND kind agree, so a scalar
excused for `x op= e` is not excused for `x[i] = e`.  `knownDefects` are NOT excused by design: they are genuine offenders of the
unchanged tree, each a finding with a reproduced witness (findings/C18.json), kept apart like Spec/Wiring.lean does.
This file imports nothing generated.
-/

namespace FinVerif.Spec.ArgWrites

structure ArgWrite where
  file : String
  fn : String
  line : Nat
  param : String
  kind : String
  viaAlias : Bool
deriving Repr, DecidableEq

structure FileCount where
  file : String
  scanned : Nat
  astDefs : Nat
  textual : Nat
deriving Repr, DecidableEq

structure Exc where
  file : String
  fn : String
  param : String
  kind : String
  why : String
deriving Repr, DecidableEq

def Exc.covers (e : Exc) (w : ArgWrite) : Bool :=
  e.file == w.file && e.fn == w.fn && e.param == w.param && e.kind == w.kind

/-- `x op= e` on a parameter that is a scalar for every caller: a rebind, not a mutation -/
def scalarRebinds : List Exc := [
  { file := "financepy/models/cir_montecarlo.py", fn := "zero_price_mc", param := "r0", kind := "augassign",
    why := "scalar by every caller (float / int): `x op= e` on a scalar rebinds the local name, the caller's value is untouched; callers: tests / CIR examples pass the float short rate" },
  { file := "financepy/models/equity_crr_tree.py", fn := "crr_tree_val", param := "num_steps_per_year", kind := "augassign",
    why := "scalar by every caller (float / int): `x op= e` on a scalar rebinds the local name, the caller's value is untouched; int step count from EquityAmericanOption / BlackScholes CRR (njit kernel: int64)" },
  { file := "financepy/models/equity_crr_tree.py", fn := "crr_tree_val", param := "stock_price", kind := "augassign",
    why := "scalar by every caller (float / int): `x op= e` on a scalar rebinds the local name, the caller's value is untouched; `s_low = stock_price; s_low *= d` on a float64 kernel argument" },
  { file := "financepy/models/gauss_copula_onefactor.py", fn := "homog_basket_loss_dbn", param := "num_integration_steps", kind := "augassign",
    why := "scalar by every caller (float / int): `x op= e` on a scalar rebinds the local name, the caller's value is untouched; int from CDSBasket / CDSTranche" },
  { file := "financepy/models/gauss_copula_onefactor.py", fn := "tranche_surv_prob_recursion", param := "num_integration_steps", kind := "augassign",
    why := "scalar by every caller (float / int): `x op= e` on a scalar rebinds the local name, the caller's value is untouched; int from CDSTranche.value_bc" },
  { file := "financepy/models/heston.py", fn := "get_paths", param := "v0", kind := "augassign",
    why := "scalar by every caller (float / int): `x op= e` on a scalar rebinds the local name, the caller's value is untouched; float64 kernel argument from Heston.value_mc" },
  { file := "financepy/models/heston.py", fn := "get_paths", param := "s0", kind := "augassign",
    why := "scalar by every caller (float / int): `x op= e` on a scalar rebinds the local name, the caller's value is untouched; float64 kernel argument from Heston.value_mc" },
  { file := "financepy/models/lmm_mc.py", fn := "lmm_flexi_cap_pricer", param := "maxCaplets", kind := "augassign",
    why := "scalar by every caller (float / int): `x op= e` on a scalar rebinds the local name, the caller's value is untouched; int kernel argument" },
  { file := "financepy/models/process_simulator.py", fn := "get_heston_paths", param := "v0", kind := "augassign",
    why := "scalar by every caller (float / int): `x op= e` on a scalar rebinds the local name, the caller's value is untouched; float64 kernel argument from HestonProcess.get_process" },
  { file := "financepy/models/process_simulator.py", fn := "get_heston_paths", param := "s0", kind := "augassign",
    why := "scalar by every caller (float / int): `x op= e` on a scalar rebinds the local name, the caller's value is untouched; float64 kernel argument from HestonProcess.get_process" },
  { file := "financepy/models/process_simulator.py", fn := "get_vasicek_paths", param := "r0", kind := "augassign",
    why := "scalar by every caller (float / int): `x op= e` on a scalar rebinds the local name, the caller's value is untouched; float64 kernel argument from VasicekProcess.get_process" },
  { file := "financepy/models/vasicek_mc.py", fn := "zero_price_mc", param := "r0", kind := "augassign",
    why := "scalar by every caller (float / int): `x op= e` on a scalar rebinds the local name, the caller's value is untouched; float short rate" },
  { file := "financepy/products/bonds/curve_fits.py", fn := "CurveFitNelsonSiegel.interp_yield", param := "beta_1", kind := "augassign",
    why := "scalar by every caller (float / int): `x op= e` on a scalar rebinds the local name, the caller's value is untouched; `yld = beta_1; yld += …` - scipy.optimize.curve_fit (BondYieldCurve.__init__) passes float parameters" },
  { file := "financepy/products/bonds/curve_fits.py", fn := "CurveFitNelsonSiegelSvensson.interp_yield", param := "beta_1", kind := "augassign",
    why := "scalar by every caller (float / int): `x op= e` on a scalar rebinds the local name, the caller's value is untouched; the same" },
  { file := "financepy/products/credit/cds.py", fn := "_prot_leg_pv_numba", param := "teff", kind := "augassign",
    why := "scalar by every caller (float / int): `x op= e` on a scalar rebinds the local name, the caller's value is untouched; float64 kernel argument from CDS.prot_leg_pv" },
  { file := "financepy/products/equity/equity_binomial_tree.py", fn := "_value_once", param := "stock_price", kind := "augassign",
    why := "scalar by every caller (float / int): `x op= e` on a scalar rebinds the local name, the caller's value is untouched; float from EquityBinomialTree.value" },
  { file := "financepy/products/equity/equity_compound_option.py", fn := "_value_once", param := "s", kind := "augassign",
    why := "scalar by every caller (float / int): `x op= e` on a scalar rebinds the local name, the caller's value is untouched; float from EquityCompoundOption._value_tree" },
  { file := "financepy/products/equity/equity_variance_swap.py", fn := "EquityVarianceSwap.fair_strike", param := "stock_price", kind := "augassign",
    why := "scalar by every caller (float / int): `x op= e` on a scalar rebinds the local name, the caller's value is untouched; `s0 = stock_price` then scalar stepping of the strike grid" },
  { file := "financepy/products/fx/fx_variance_swap.py", fn := "FinFXVarianceSwap.fair_strike", param := "stock_price", kind := "augassign",
    why := "scalar by every caller (float / int): `x op= e` on a scalar rebinds the local name, the caller's value is untouched; the same" },
  { file := "financepy/utils/calendar.py", fn := "Calendar.add_business_days", param := "num_days", kind := "augassign",
    why := "scalar by every caller (float / int): `x op= e` on a scalar rebinds the local name, the caller's value is untouched; int (the method raises on a non-int)" },
  { file := "financepy/utils/date.py", fn := "Date.add_days", param := "num_days", kind := "augassign",
    why := "scalar by every caller (float / int): `x op= e` on a scalar rebinds the local name, the caller's value is untouched; int day count" },
  { file := "financepy/utils/helpers.py", fn := "pv01_times", param := "t", kind := "augassign",
    why := "scalar by every caller (float / int): `x op= e` on a scalar rebinds the local name, the caller's value is untouched; float maturity" },
  { file := "financepy/utils/helpers.py", fn := "frange", param := "start", kind := "augassign",
    why := "scalar by every caller (float / int): `x op= e` on a scalar rebinds the local name, the caller's value is untouched; float range start" },
  { file := "financepy/utils/math.py", fn := "frange", param := "start", kind := "augassign",
    why := "scalar by every caller (float / int): `x op= e` on a scalar rebinds the local name, the caller's value is untouched; float range start" }]

/-- output buffers and documented in-place helpers -/
def outputBuffers : List Exc := [
  { file := "financepy/models/bdt_tree.py", fn := "f", param := "rt", kind := "setitem",
    why := "output buffer: the root-search target of build_tree_fast (its only caller, through search_root) fills row m of the rate tree that build_tree_fast itself allocated with np.zeros" },
  { file := "financepy/models/finite_difference.py", fn := "fd_roll_backwards", param := "res", kind := "setitem",
    why := "output buffer: `res` is the list of grid vectors created by black_scholes_fd (only caller) and returned as the result" },
  { file := "financepy/models/finite_difference.py", fn := "fd_roll_forwards", param := "res", kind := "setitem",
    why := "output buffer: the same, forward roll" },
  { file := "financepy/utils/helpers.py", fn := "normalise_weights", param := "wt_vector", kind := "setitem",
    why := "documented in-place normaliser (\"Normalise a vector of weights\"), returns the same vector; no caller inside financepy/" },
  { file := "financepy/products/bonds/bond_yield_curve.py", fn := "BondYieldCurve.__init__", param := "curve_fit", kind := "setattr",
    why := "the curve_fit object is the documented carrier of the fitted parameters (the constructor stores beta_1 … / coeffs / spline on it and keeps it as self.curve_fit)" },
  { file := "financepy/utils/solver_cg.py", fn := "_line_search_wolfe12", param := "kwargs", kind := "call:pop",
    why := "`**kwargs` is a dict built afresh by the call itself; no caller object is reachable through it" }]

/-- root-search / least-squares objectives of the curve bootstraps -/
def solverObjectives : List Exc := [
  { file := "financepy/products/bonds/bond_zero_curve.py", fn := "_f", param := "args", kind := "setitem",
    why := "solver objective: args[0] is the curve UNDER CONSTRUCTION, passed by its own _build_curve* method (only caller, through scipy / newton); writing the trial value into its last node is the bootstrap" },
  { file := "financepy/products/credit/cds_curve.py", fn := "f", param := "args", kind := "setitem",
    why := "solver objective: args[0] is the curve UNDER CONSTRUCTION, passed by its own _build_curve* method (only caller, through scipy / newton); writing the trial value into its last node is the bootstrap" },
  { file := "financepy/products/inflation/FinInflationSwapCurve.py", fn := "_f", param := "args", kind := "setitem",
    why := "solver objective: args[0] is the curve UNDER CONSTRUCTION, passed by its own _build_curve* method (only caller, through scipy / newton); writing the trial value into its last node is the bootstrap" },
  { file := "financepy/products/inflation/FinInflationSwapCurve.py", fn := "_g", param := "args", kind := "setitem",
    why := "solver objective: args[0] is the curve UNDER CONSTRUCTION, passed by its own _build_curve* method (only caller, through scipy / newton); writing the trial value into its last node is the bootstrap" },
  { file := "financepy/products/rates/dual_curve.py", fn := "_f", param := "args", kind := "setitem",
    why := "solver objective: args[0] is the curve UNDER CONSTRUCTION, passed by its own _build_curve* method (only caller, through scipy / newton); writing the trial value into its last node is the bootstrap" },
  { file := "financepy/products/rates/dual_curve.py", fn := "_g", param := "args", kind := "setitem",
    why := "solver objective: args[0] is the curve UNDER CONSTRUCTION, passed by its own _build_curve* method (only caller, through scipy / newton); writing the trial value into its last node is the bootstrap" },
  { file := "financepy/products/rates/ibor_single_curve.py", fn := "_f", param := "args", kind := "setitem",
    why := "solver objective: args[0] is the curve UNDER CONSTRUCTION, passed by its own _build_curve* method (only caller, through scipy / newton); writing the trial value into its last node is the bootstrap" },
  { file := "financepy/products/rates/ibor_single_curve.py", fn := "_g", param := "args", kind := "setitem",
    why := "solver objective: args[0] is the curve UNDER CONSTRUCTION, passed by its own _build_curve* method (only caller, through scipy / newton); writing the trial value into its last node is the bootstrap" },
  { file := "financepy/products/rates/ibor_single_curve.py", fn := "_cost_function", param := "args", kind := "setattr",
    why := "solver objective: args[0] is the curve UNDER CONSTRUCTION, passed by its own _build_curve* method (only caller, through scipy / newton); writing the trial value into its last node is the bootstrap" },
  { file := "financepy/products/rates/ois_curve.py", fn := "_f", param := "args", kind := "setitem",
    why := "solver objective: args[0] is the curve UNDER CONSTRUCTION, passed by its own _build_curve* method (only caller, through scipy / newton); writing the trial value into its last node is the bootstrap" },
  { file := "financepy/products/rates/ois_curve.py", fn := "_g", param := "args", kind := "setitem",
    why := "solver objective: args[0] is the curve UNDER CONSTRUCTION, passed by its own _build_curve* method (only caller, through scipy / newton); writing the trial value into its last node is the bootstrap" }]

/-- GENUINE offenders on the unchanged tree (findings, not design) -/
def knownDefects : List Exc := [
  { file := "financepy/products/bonds/bond.py", fn := "Bond.key_rate_durations", param := "rates", kind := "setitem",
    why := "finding C18/key-rate-durations-mutates-rates: the caller's `rates` array is shifted in place (rates[ind] += shift; -= 2*shift) and left shifted" },
  { file := "financepy/products/bonds/bond_callable.py", fn := "BondEmbeddedOption.value", param := "model", kind := "setattr",
    why := "known (Props/C18b exception list): model.num_time_steps adjusted on the caller's model" },
  { file := "financepy/products/equity/equity_option.py", fn := "EquityOption.theta", param := "discount_curve", kind := "setattr",
    why := "finding C18/theta-exception-leaves-curve-date: bumps value_dt of the caller's curve, restored only on the normal path" },
  { file := "financepy/products/equity/equity_option.py", fn := "EquityOption.theta", param := "dividend_curve", kind := "setattr",
    why := "the same" },
  { file := "financepy/products/fx/fx_option.py", fn := "FXOption.theta", param := "domestic_curve", kind := "setattr",
    why := "the same" },
  { file := "financepy/products/fx/fx_option.py", fn := "FXOption.theta", param := "foreign_curve", kind := "setattr",
    why := "the same" },
  { file := "financepy/products/rates/dual_curve.py", fn := "IborDualCurve._validate_inputs", param := "ibor_deposits", kind := "call:insert",
    why := "finding C18/deposits-list-mutated: a synthetic deposit is inserted into the caller's list" },
  { file := "financepy/products/rates/ibor_single_curve.py", fn := "IborSingleCurve._validate_inputs", param := "ibor_swaps", kind := "setattr",
    why := "finding C18/single-curve-plants-start-dt-on-swap: `swap.start_dt = swap.effective_dt` plants an attribute IborSwap does not have on the caller's swap" },
  { file := "financepy/products/rates/ois_curve.py", fn := "OISCurve._validate_inputs", param := "ois_deposits", kind := "call:insert",
    why := "finding C18/deposits-list-mutated: the same in the OIS curve" }]

def designExceptions : List Exc := scalarRebinds ++ outputBuffers ++ solverObjectives

def allExceptions : List Exc := designExceptions ++ knownDefects

def excusedBy (es : List Exc) (w : ArgWrite) : Bool := es.any (·.covers w)

/-- THE PROPERTY of a table of writes: every row is a listed exception -/
def NoArgMutation (ws : List ArgWrite) : Bool := ws.all (excusedBy allExceptions)

/-- the rows that break it (what a failing build should show) -/
def offenders (ws : List ArgWrite) : List (String × String × String × String) :=
  (ws.filter (fun w => !excusedBy allExceptions w)).map fun w => (w.file, w.fn, w.param, w.kind)

/-- files in which a line opens a `def` textually without being a def of the program: (file, how many, why) -/
def textualOnlyDefs : List (String × Nat × String) :=
  [("financepy/models/gauss_copula_lhp.py", 1, "a second exp_min_lk kept inside a module-level string literal (disabled code)")]

def textualOnly (f : String) : Nat := ((textualOnlyDefs.find? (·.1 == f)).map (·.2.1)).getD 0

/-- coverage: the extractor scanned every FunctionDef of the file and that is every textual `def ` line (up to the listed strings) -/
def FileCount.complete (c : FileCount) : Bool :=
  c.scanned == c.astDefs && c.astDefs + textualOnly c.file == c.textual

end FinVerif.Spec.ArgWrites
