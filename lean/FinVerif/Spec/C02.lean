/-
  C02 — what "a coherent discount curve" means, in the time domain and in the property's own vocabulary.
  Independent of the source: nothing here mentions the model or the implementation, only ℝ, `exp`, `rpow`.

  A curve is a function `D : ℝ → ℝ` of year-time (time 0 = valuation date) built from pillars
  `(tₖ, dₖ)`.  The property demands that `D` is anchored (`D 0 = 1`), positive, and reproduces its pillars;
  that zero rates and discount factors are related by the textbook compounding formulas; and that forward
  and par swap rates are the usual views of `D`.
-/
import Mathlib.Analysis.SpecialFunctions.Pow.Real
import Mathlib.Analysis.SpecialFunctions.Exp

namespace FinVerif.Spec.C02

/-- What the property demands of a discount function `D` of year-time built from the pillars
`(times[k], dfs[k])`. -/
structure Coherent (D : ℝ → ℝ) (times dfs : List ℝ) : Prop where
  /-- a unit paid today is worth one -/
  anchor : D 0 = 1
  /-- discount factors are strictly positive on the whole future -/
  positive : ∀ t, 0 ≤ t → 0 < D t
  /-- every pillar is reproduced exactly -/
  pillars : ∀ k, k < times.length → D (times.getD k 0) = dfs.getD k 0

/-- Compounding conventions of a zero rate: continuous, simple, or `f` periods a year. -/
inductive Compounding
  | continuous
  | simple
  | periodic (f : ℕ)

/-- Discount factor to time `t` of a zero rate `r` under each convention:
`exp (-r t)`, `1 / (1 + r t)`, `1 / (1 + r/f)^(f t)`. -/
noncomputable def dfOfRate : Compounding → ℝ → ℝ → ℝ
  | .continuous, r, t => Real.exp (-(r * t))
  | .simple, r, t => 1 / (1 + r * t)
  | .periodic f, r, t => 1 / (1 + r / (f : ℝ)) ^ ((f : ℝ) * t)

/-- On a non-negative base the periodic formula is the familiar `(1 + r/f)^(-(f t))`. -/
theorem dfOfRate_periodic_neg (f : ℕ) (r t : ℝ) (h : 0 ≤ 1 + r / (f : ℝ)) :
    dfOfRate (.periodic f) r t = (1 + r / (f : ℝ)) ^ (-((f : ℝ) * t)) := by
  simp only [dfOfRate]
  rw [Real.rpow_neg h, one_div]

/-- `F` is the simple forward rate of `D` between `t1` and `t2` over the accrual fraction `alpha`:
investing at `F` over the period is the same as rolling the discount factors, `1 + F α = D(t1) / D(t2)`. -/
def IsFwdRate (D : ℝ → ℝ) (t1 t2 alpha F : ℝ) : Prop := 1 + F * alpha = D t1 / D t2

/-- `S` is the par rate of the swap starting at `tStart` whose fixed leg pays the accrual fractions
`p.1` at the times `p.2` (schedule order, at least one flow): the fixed leg at `S` is worth the floating
leg, `S · Σ αᵢ D(tᵢ) = D(tStart) − D(t_last)`. -/
def IsParRate (D : ℝ → ℝ) (tStart : ℝ) (flows : List (ℝ × ℝ)) (S : ℝ) : Prop :=
  ∃ h : flows ≠ [], S * (flows.map (fun p => p.1 * D p.2)).sum = D tStart - D (flows.getLast h).2

end FinVerif.Spec.C02
