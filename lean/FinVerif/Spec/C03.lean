/-
  C03 — what the property demands, in its own words (independent of the source).

  A short-rate tree is *arbitrage-free and fitted to the curve* when
  * every node branches with weights in `[0,1]` that sum to one;
  * (trinomial, Hull 1994) the weights match the first two moments of the discretised
    mean-reverting process: with `x = a·j·Δt`, mean move `-x` and second moment `x² + 1/3`
    in units of the node spacing;
  * the Arrow–Debreu prices of every level sum to the curve's discount factor of that date;
  * pricing by backward induction is the pairing with the state prices (so zero-coupon and
    option-free coupon bonds price to the curve), and more exercise rights never lower a value.
-/
namespace FinVerif.Spec.C03

/-- weights of a three-way branch -/
structure Branch (α : Type) where
  u : α
  m : α
  d : α

/-- Hull's conditions for a branch whose three targets are the index moves `ku > km > kd`
(`+1,0,-1` in the interior, `0,-1,-2` at the top edge, `+2,+1,0` at the bottom edge). -/
def HullMoments {α : Type} [Add α] [Mul α] [Neg α] [OfNat α 1] [OfNat α 3] [Div α]
    (b : Branch α) (ku km kd x : α) : Prop :=
  b.u + b.m + b.d = 1 ∧
  ku * b.u + km * b.m + kd * b.d = -x ∧
  ku * ku * b.u + km * km * b.m + kd * kd * b.d = x * x + 1 / 3

/-- a level of state prices fits the curve -/
def FitsCurve {α : Type} (rowSum : Nat → α) (P : Nat → α) : Prop := ∀ m, rowSum m = P m

end FinVerif.Spec.C03
