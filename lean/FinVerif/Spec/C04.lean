/-
  C04 — what the property demands, in its own vocabulary (imports nothing from `Gen/` or `Model/`).

  A calibrated object is built from quotes `q₁ … qₙ`; asking it back gives `m₁ … mₙ`; the residuals are `rᵢ = mᵢ − qᵢ`.
-/
import Mathlib.Analysis.SpecialFunctions.Sqrt

namespace FinVerif.Spec.C04

/-- every quote is given back exactly -/
def QuotesMet (rs : List ℝ) : Prop := ∀ r ∈ rs, r = 0

/-- every quote is given back within `tol` -/
def QuotesWithin (tol : ℝ) (rs : List ℝ) : Prop := ∀ r ∈ rs, |r| ≤ tol

/-- a strike is "delta-neutral ATM" for a delta convention when the straddle struck there has no delta -/
def DeltaNeutral (deltaCall deltaPut : ℝ) : Prop := deltaCall + deltaPut = 0

/-- Stripping a term structure of flat cap vols `σ₁ … σₙ` (accrual fractions `τ₁ … τₙ`) into caplet vols `γ₁ … γₙ`
"in variance": for every cap `i`, the accrual-weighted caplet variances up to `i` add up to the cap's flat variance over
the same accruals, on top of whatever variance `c₀` and time `s₀` were accumulated before the first caplet.
`ps` is the list of `(τᵢ, σᵢ)`, `gs` the list of `γᵢ`. -/
def VarianceIdentity : ℝ → ℝ → List (ℝ × ℝ) → List ℝ → Prop
  | _, _, [], [] => True
  | c, s, (τ, σ) :: ps, γ :: gs =>
      c + γ ^ 2 * τ = σ ^ 2 * (s + τ) ∧ 0 ≤ γ ∧ VarianceIdentity (c + γ ^ 2 * τ) (s + τ) ps gs
  | _, _, _, _ => False

end FinVerif.Spec.C04
