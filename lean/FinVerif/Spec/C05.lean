/-
  C05 — specification vocabulary (independent of the source; imports nothing from `Gen/`).

  What the property demands, in its own words:
  * the closed forms are written with a normal cdf Φ and density φ.  Analytic facts about them are HYPOTHESES
    (`IsGaussPair`, `IsStdNormal`), never axioms: Φ' = φ, φ(x) = c·exp(−x²/2) (c = 1/√(2π) for the standard normal),
    Φ(x) + Φ(−x) = 1;
  * put–call parity  C − P = S·e^{−qT} − K·e^{−rT}  (`PutCallParity`), resp. df·(F − K) for the forward models;
  * digital relations  cash call + cash put = df,  asset − K·cash = vanilla;
  * a reported Greek `g` IS the derivative of the reported value `V` in the parameter (`GreekIs`), with theta the decay
    per year of calendar time (−∂/∂T) and vega per unit of volatility;
  * d₁ = ln(a/b)/w + w/2 for discounted spot a, discounted strike b, total volatility w (`D1`), d₂ = d₁ − w.
-/
import Mathlib.Analysis.SpecialFunctions.ExpDeriv
import Mathlib.Analysis.SpecialFunctions.Sqrt
import Mathlib.Analysis.SpecialFunctions.Log.Basic
import Mathlib.Analysis.SpecialFunctions.Trigonometric.Basic
import FinVerif.Core.Prelude

namespace FinVerif.C05
open FinVerif

/-- value of an `ok` result (0 on the error branch; every theorem using it also shows the result is `ok`). -/
def okVal : Except PyErr ℝ → ℝ
  | .ok x => x
  | .error _ => 0

@[simp] theorem okVal_ok (x : ℝ) : okVal (.ok x) = x := rfl

/-- What the Greeks need from the pair (cdf, pdf): `Φ' = φ` and `φ(x) = c·exp(−x²/2)`.  The constant `c`
is irrelevant for "Greek = derivative of value", so the code's own literal 0.3989422804014327 qualifies
as well as 1/√(2π). -/
structure IsGaussPair (Φ φ : ℝ → ℝ) (c : ℝ) : Prop where
  deriv : ∀ x, HasDerivAt Φ (φ x) x
  pdf : ∀ x, φ x = c * Real.exp (-(x * x) / 2)

/-- The standard normal pair: hypotheses, never axioms. -/
structure IsStdNormal (Φ φ : ℝ → ℝ) : Prop where
  deriv : ∀ x, HasDerivAt Φ (φ x) x
  pdf : ∀ x, φ x = Real.exp (-(x * x) / 2) / Real.sqrt (2 * Real.pi)
  symm : ∀ x, Φ x + Φ (-x) = 1

/-- `x ↦ ε·Φ(ε·x)` for `ε = ±1` (the code's `phi * N(phi * d)`): again a cdf for the same density. -/
def flipN (ε : ℝ) (Φ : ℝ → ℝ) : ℝ → ℝ := fun x => ε * Φ (ε * x)

/-- d₁ in terms of the discounted spot `a`, discounted strike `b`, total volatility `w`. -/
noncomputable def D1 (a b w : ℝ) : ℝ := Real.log (a / b) / w + w / 2

/-- put–call parity in the spec's vocabulary -/
def PutCallParity (call put spot strike dq df : ℝ) : Prop := call - put = spot * dq - strike * df

/-- "the reported Greek `g` is the derivative of the reported value `V` at `x`" -/
def GreekIs (V : ℝ → ℝ) (g x : ℝ) : Prop := HasDerivAt V g x

end FinVerif.C05
