/-
  C06 — specification: a linear rate product is worth the discounted sum of its projected flows.

  Readable on its own; imports nothing from `Gen/` or `Model/`.  Dates are serial day numbers
  (`Int`); amounts live in any type `α` with the four operations (instantiated at `Float` by the
  spec driver and at a field — ℚ, ℝ — by the theorems).  A curve is just a function
  `df : date → α`; nothing is assumed about it here.
-/
namespace FinVerif.Spec.C06

variable {α : Type} [Add α] [Sub α] [Mul α] [Div α] [Neg α] [OfNat α 0] [OfNat α 1]

/-- One projected cash flow: `accrual × rate × notional` paid on `pay`. -/
structure Flow (α : Type) where
  pay : Int
  accrual : α
  rate : α
  notional : α
  deriving Repr

/-- One contractual accrual period of a leg: interest accrues over `[start, stop]` with year
fraction `yf` (in the leg's own day-count basis) and is paid on `pay` (= `stop` moved by the
payment lag). -/
structure Period (α : Type) where
  start : Int
  stop : Int
  pay : Int
  yf : α
  deriving Repr

/-- Right-nested sum `x₁ + (x₂ + (… + 0))`. -/
def sumL : List α → α
  | [] => 0
  | x :: xs => x + sumL xs

/-- The amount of one flow. -/
def Flow.amount (f : Flow α) : α := f.accrual * f.rate * f.notional

/-- **The property.**  Value on `vd` = Σ over flows paid strictly after `vd` of
`accrual × rate × notional × df(pay) / df(vd)`. -/
def pv (df : Int → α) (vd : Int) (flows : List (Flow α)) : α :=
  sumL ((flows.filter (fun f => decide (vd < f.pay))).map (fun f => f.amount * (df f.pay / df vd)))

/-- Receiver sees the flows as they are, payer sees them negated. -/
def signed (isPay : Bool) (x : α) : α := if isPay then -x else x

/-- Simple forward rate projected from an index curve over `[start, stop]` with index-basis year
fraction `ia`: `(df(start)/df(stop) − 1)/ia`. -/
def fwdRate (dfI : Int → α) (start stop : Int) (ia : α) : α := (dfI start / dfI stop - 1) / ia

/-! ### Flows of the products -/

/-- Coupon flows of a fixed leg. -/
def fixedCoupons (cpn notional : α) (ps : List (Period α)) : List (Flow α) :=
  ps.map (fun p => ⟨p.pay, p.yf, cpn, notional⟩)

/-- The exchange of `principal × notional` on the last payment date (no flow for an empty leg). -/
def principalFlow (principal : α) : Option (Int × α) → List (Flow α)
  | none => []
  | some (pay, notional) => [⟨pay, 1, principal, notional⟩]

/-- Flows of a fixed leg: coupons, then the principal on the last payment date. -/
def fixedFlows (cpn notional principal : α) (ps : List (Period α)) : List (Flow α) :=
  fixedCoupons cpn notional ps ++ principalFlow principal (ps.getLast?.map (fun p => (p.pay, notional)))

/-- A floating coupon whose rate is projected from the index curve. -/
def fwdFlow (dfI : Int → α) (idxYf : Int → Int → α) (spread : α) (x : Period α × α) : Flow α :=
  ⟨x.1.pay, x.1.yf, fwdRate dfI x.1.start x.1.stop (idxYf x.1.start x.1.stop) + spread, x.2⟩

/-- Coupon flows of a floating leg (periods paired with their notionals).  Every coupon pays
`projected forward + spread`, except that a supplied first fixing replaces the projected rate of the
first coupon paid after the valuation date.  (The rate written on a coupon that is not paid after
`vd` is immaterial: `pv` drops it.) -/
def floatCoupons (dfI : Int → α) (idxYf : Int → Int → α) (firstFixing : Option α) (spread : α)
    (vd : Int) : List (Period α × α) → List (Flow α)
  | [] => []
  | x :: rest =>
    if vd < x.1.pay then
      match firstFixing with
      | some r => ⟨x.1.pay, x.1.yf, r + spread, x.2⟩ :: rest.map (fwdFlow dfI idxYf spread)
      | none => fwdFlow dfI idxYf spread x :: rest.map (fwdFlow dfI idxYf spread)
    else fwdFlow dfI idxYf spread x :: floatCoupons dfI idxYf firstFixing spread vd rest

/-- Flows of a floating leg: coupons, then the principal on the last payment date. -/
def floatFlows (dfI : Int → α) (idxYf : Int → Int → α) (firstFixing : Option α) (spread principal : α)
    (vd : Int) (xs : List (Period α × α)) : List (Flow α) :=
  floatCoupons dfI idxYf firstFixing spread vd xs
    ++ principalFlow principal (xs.getLast?.map (fun x => (x.1.pay, x.2)))

/-- Annuity of a schedule: Σ over coupons paid after `vd` of `yf × df(pay)/df(vd)`. -/
def annuity (df : Int → α) (vd : Int) (ps : List (Period α)) : α :=
  pv df vd (fixedCoupons 1 1 ps)

/-- A deposit repays `(1 + yf × rate) × notional` at maturity. -/
def depositFlows (maturity : Int) (yf rate notional : α) : List (Flow α) :=
  [⟨maturity, 1, 1 + yf * rate, notional⟩]

/-- A FRA settles `yf × (forward − K) × notional` (seen by the payer of the fixed rate `K`,
as in the class docstring: "the amount received by a payer of fixed rate is acc × (Ibor − FRA rate)"),
valued at the end of the rate period. -/
def fraFlows (dfI : Int → α) (start maturity : Int) (yf fraRate notional : α) : List (Flow α) :=
  [⟨maturity, yf, fwdRate dfI start maturity yf - fraRate, notional⟩]

/-- Consecutive periods share their boundary date. -/
def Contiguous : List (Period α) → Prop
  | [] => True
  | [_] => True
  | p :: q :: rest => p.stop = q.start ∧ Contiguous (q :: rest)

end FinVerif.Spec.C06
