/-
  C06 — specification, second part: the flows of the equity leg of an equity swap and the notional the
  floating leg of that swap accrues on.  Readable on its own; imports only `Spec/C06`.

  An equity leg pays, at the end of every reset period, the change of the position's value
  `quantity × price`, where the price is projected forward at the equity forward rate built from the
  index curve and the dividend curve.  The floating leg of the swap accrues, in every one of its own
  periods, on the position's value at the last equity reset on or before the start of that period
  (`rateNotional`).
-/
import FinVerif.Spec.C06

namespace FinVerif.Spec.C06

variable {α : Type} [Add α] [Sub α] [Mul α] [Div α] [Neg α] [OfNat α 0] [OfNat α 1]

/-- Growth of the projected equity price over one reset period:
`1 + ((df_I(start)/df_I(stop)) × (div(start)/div(stop)) − 1)/α_index × year_frac`. -/
def eqGrowth (dfI : Int → α) (iyf : Int → Int → α) (dvd : Int → α) (p : Period α) : α :=
  1 + ((dfI p.start / dfI p.stop) * (dvd p.start / dvd p.stop) - 1) / iyf p.start p.stop * p.yf

/-- Flows of an equity leg.  `G` = growth compounded over the reset periods paid after `vd` so far, `L` = value of
the position at the last reset.  A period paid after `vd` pays `price × G' × quantity − L` and resets; a period
not paid after `vd` pays nothing (its flow is written with rate 0) and changes nothing. -/
def eqFlows (dfI : Int → α) (iyf : Int → Int → α) (dvd : Int → α) (price qty : α) (vd : Int) :
    α → α → List (Period α) → List (Flow α)
  | _, _, [] => []
  | G, L, p :: ps =>
    if vd < p.pay then
      ⟨p.pay, 1, price * (eqGrowth dfI iyf dvd p * G) * qty - L, 1⟩
        :: eqFlows dfI iyf dvd price qty vd (eqGrowth dfI iyf dvd p * G) (price * (eqGrowth dfI iyf dvd p * G) * qty) ps
    else ⟨p.pay, 1, 0, 1⟩ :: eqFlows dfI iyf dvd price qty vd G L ps

/-- Value of the position at the start of every reset period, when every period is still to be paid:
`price × G × quantity` with `G` compounded up to that period. -/
def eqResetNotionals (dfI : Int → α) (iyf : Int → Int → α) (dvd : Int → α) (price qty : α) : α → List (Period α) → List α
  | _, [] => []
  | G, p :: ps => price * G * qty :: eqResetNotionals dfI iyf dvd price qty (eqGrowth dfI iyf dvd p * G) ps

/-- **The notional a floating period accrues on**: the reset notional of the equity period in which the floating
period's accrual starts (`start ≤ s < stop`); `eqs` = equity periods with their reset notionals. -/
def rateNotional (eqs : List (Period α × α)) (s : Int) : Option α :=
  (eqs.find? (fun e => decide (e.1.start ≤ s) && decide (s < e.1.stop))).map (·.2)

end FinVerif.Spec.C06
