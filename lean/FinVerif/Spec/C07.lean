/-
  C07 — specification, in the property's own vocabulary: a bond is a list of cash flows; its price is the
  explicit sum of the remaining flows, each multiplied by the discount factor that the quoting convention
  assigns to its payment time.  No closed forms, no reference to the source.  Mathlib-free and executable
  (`Driver/C07Spec.lean` runs it at `Float`); the theorems read it at `ℝ`.

  Time is measured in coupon periods from settlement: the next coupon (k = 0) is `α` periods away
  (`α` = fraction of the current period still to run), coupon k is `k + α` periods away, the principal is paid
  with the last coupon (k = n).  The buyer does not receive coupon 0 when the bond is ex-dividend.
-/
import FinVerif.Core.Prelude

namespace FinVerif.Spec.C07
open FinVerif

/-- powers used by the conventions (same two operations as the code has, given here independently) -/
class SpecPow (α : Type) where
  ipow : α → Nat → α      -- whole number of periods
  fpow : α → α → α        -- fractional period

instance : SpecPow Float := ⟨fun v n => Float.pow v n.toFloat, Float.pow⟩

section
variable {α : Type} [Add α] [Sub α] [Mul α] [Div α]
  [OfNat α 0] [OfNat α 1] [OfNat α 100] [SpecPow α]

/-- `Σ_{k=0}^{n} t k` -/
def sumTo (t : Nat → α) : Nat → α
  | 0 => t 0
  | n + 1 => sumTo t n + t (n + 1)

/-- Quoting conventions. -/
inductive Conv where
  | ukDmo | usStreet | usTreasury | cfets
  deriving DecidableEq, Repr

/-- Discount factor of a payment `k` whole periods plus the fraction `a` after settlement, at periodic
yield `y/f` (`v = 1/(1+y/f)`), when `n` coupons follow the next one.
* UK DMO: compound throughout, `v^k · v^a`.
* US Street: compound, except money-market (simple) discounting in the last coupon period.
* US Treasury: simple interest over the fractional first period, compound after: `v^k / (1 + a·y/f)`.
* CFETS: compound; in the last period simple interest on the ACT/365 fraction of a YEAR `aY`. -/
def discount (conv : Conv) (n : Nat) (y f a aY : α) (k : Nat) : α :=
  let v : α := 1 / (1 + y / f)
  match conv with
  | .ukDmo => SpecPow.ipow v k * SpecPow.fpow v a
  | .usStreet => if n = 0 then 1 / (1 + a * y / f) else SpecPow.ipow v k * SpecPow.fpow v a
  | .usTreasury => SpecPow.ipow v k / (1 + a * y / f)
  | .cfets => if n = 0 then 1 / (1 + aY * y) else SpecPow.ipow v k * SpecPow.fpow v a

/-- Dirty price per unit face: coupons `c/f` at k = 0..n (coupon 0 only if `pay = 1`), 1 at k = n. -/
def dirtyPerUnit (conv : Conv) (n : Nat) (c f y a aY pay : α) : α :=
  let D := discount conv n y f a aY
  sumTo (fun k => (c / f) * (if k = 0 then pay else 1) * D k) n + D n

/-- quoted per 100 face -/
def dirtyPrice (conv : Conv) (n : Nat) (c f y a aY pay : α) : α :=
  dirtyPerUnit conv n c f y a aY pay * 100

/-- Accrued interest: day-count fraction since the previous coupon date times the annual coupon;
inside the ex-dividend window the buyer owes the seller the rest of the period instead
(`fraction − 1/f`, negative). -/
def accrued (yearFrac f c face : α) (exDiv : Bool) : α :=
  (if exDiv then yearFrac - 1 / f else yearFrac) * c * face

/-- PV on a curve: flows after settlement (`c/f` on each coupon date except that the NEXT coupon is not
received when ex-dividend; 1 on the last date) times their discount factors, forward-valued to settlement.
`sched = [(date_i, df_i)]` for the coupon dates AFTER the issue date, increasing. -/
def curveFlows (settle : Int) (exDiv : Bool) (cf : α) : List (Int × α) → Bool → α
  | [], _ => 0
  | (d, df) :: rest, seenNext =>
    if d > settle then
      (if exDiv && !seenNext then (0 : α) else cf * df) + curveFlows settle exDiv cf rest true
    else curveFlows settle exDiv cf rest seenNext

def lastDf : List (Int × α) → α
  | [] => 1
  | [(_, df)] => df
  | _ :: rest => lastDf rest

def priceOnCurve (sched : List (Int × α)) (settle : Int) (exDiv : Bool) (dfSettle c f : α) : α :=
  (curveFlows settle exDiv (c / f) sched false + lastDf sched) / dfSettle * 100

end
end FinVerif.Spec.C07
