/-
  C08 — what the property demands, in its own vocabulary (independent of the source).
  * a cap minus the floor with the same strike is the strip of forward-rate payments struck at the cap rate:
    each period pays  accrual × (forward − strike) × notional, discounted from its payment date;
  * a payer swaption minus the receiver swaption is the forward-starting swap: annuity × (forward swap rate − strike)
    × notional, which is also (floating leg PV − fixed leg PV);
  * a call minus a put on a bond is the discounted (forward clean price − strike); on a lattice, "discounted" means
    the lattice's own linear pricing operator;
  * option values are non-negative, and more exercise rights never lower a value.
-/
namespace FinVerif.Spec.C08

/-- one forward-rate payment of the strip: accrual, discount factor to the payment date, forward, as seen today -/
structure FwdPayment (α : Type) where
  accrual : α
  df : α
  fwd : α

section
variable {α : Type} [Add α] [Sub α] [Mul α] [OfNat α 0]

/-- present value of one forward-rate payment struck at `k` -/
def FwdPayment.pv (k notional : α) (p : FwdPayment α) : α := notional * p.accrual * p.df * (p.fwd - k)

/-- the strip: sum of the forward-rate payments -/
def stripValue (k notional : α) : List (FwdPayment α) → α
  | [] => 0
  | p :: ps => p.pv k notional + stripValue k notional ps

/-- forward-starting payer swap per unit of settlement discounting: annuity × (forward rate − strike) × notional -/
def forwardSwapValue (annuity fwdRate k notional : α) : α := annuity * (fwdRate - k) * notional

/-- a pricing operator on payoffs indexed by `ι` is linear -/
def IsLinear {ι : Type} (L : (ι → α) → (ι → α)) : Prop :=
  (∀ V W : ι → α, L (fun i => V i + W i) = fun i => L V i + L W i) ∧
  (∀ (c : α) (V : ι → α), L (fun i => c * V i) = fun i => c * L V i)

end
end FinVerif.Spec.C08
