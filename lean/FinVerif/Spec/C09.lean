/-
  C09 — what the property demands of the flat-hazard case, in its own vocabulary (independent of the source):
  with a constant hazard rate `h` and a constant continuously-compounded interest rate `r`, survival is
  `e^{-h t}`, discounting is `e^{-r t}`, and the protection leg of a CDS with recovery `R` that protects over
  `[t0, T]` is the integral  (1 - R) ∫_{t0}^{T} h e^{-(h+r)s} ds = (1 - R) · h/(h+r) · (e^{-(h+r) t0} - e^{-(h+r) T}).
-/
import Mathlib.Analysis.SpecialFunctions.Exp

namespace FinVerif.Spec.C09

/-- flat-hazard survival probability -/
noncomputable def flatSurvival (h t : ℝ) : ℝ := Real.exp (-h * t)

/-- flat-rate discount factor -/
noncomputable def flatDiscount (r t : ℝ) : ℝ := Real.exp (-r * t)

/-- closed-form flat-hazard protection leg per unit notional -/
noncomputable def flatProtLeg (h r R t0 T : ℝ) : ℝ :=
  (1 - R) * (h / (h + r)) * (Real.exp (-(h + r) * t0) - Real.exp (-(h + r) * T))

end FinVerif.Spec.C09
