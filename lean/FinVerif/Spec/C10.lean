/-
  C10 — specification vocabulary (independent of the source; imports nothing from `Gen/`).

  What the property demands, in its own words (FOR/DOM pair, all rates = units of DOM per unit of FOR):
  * covered interest parity: the forward rate is  spot × foreign df / domestic df  (`CIPForward`), and a forward
    contract struck at K on one unit of FOR is worth  df_dom × (F − K) = S·df_for − K·df_dom  today (`ForwardValue`);
    struck at the forward it is worth zero;
  * call − put (same strike, expiry, notional) = value of the forward struck at the strike (`CallPutParity`);
  * a FOR/DOM call is worth  S·K × the DOM/FOR put with reciprocal spot and strike, curves exchanged (`ForDomSymmetric`);
  * the reported premium views are ONE number converted at spot / strike (`PremiumViews`);
  * a quoted delta is the derivative of the matching value in the matching variable (`FinVerif.C05.GreekIs`):
      pips spot  Δ_S  = ∂V/∂S;    pips forward  Δ_F = ∂V/∂(S·df_for)  (hedge with the forward contract);
      premium-adjusted (percentage) deltas: Δ_S − V/S = S·∂(V/S)/∂S  and the same per unit of forward value;
  * a strike solved from a delta returns that delta.
-/
import FinVerif.Spec.C05

namespace FinVerif.C10
open FinVerif

/-- value of an `ok` result (default on the error branch; every theorem using it also shows the result is `ok`) -/
def okv {α} [Inhabited α] : Except PyErr α → α
  | .ok x => x
  | .error _ => default

@[simp] theorem okv_ok {α} [Inhabited α] (x : α) : okv (.ok x : Except PyErr α) = x := rfl

/-- covered interest parity forward -/
noncomputable def CIPForward (spot dfFor dfDom : ℝ) : ℝ := spot * dfFor / dfDom

/-- value today (DOM per unit of FOR notional) of the forward contract struck at `strike` -/
noncomputable def ForwardValue (spot strike dfFor dfDom : ℝ) : ℝ := dfDom * (CIPForward spot dfFor dfDom - strike)

def CallPutParity (call put spot strike dfFor dfDom : ℝ) : Prop := call - put = ForwardValue spot strike dfFor dfDom

/-- `call` on FOR/DOM at (S, K) against `putRecip` = the put on DOM/FOR at (1/S, 1/K) with the curves exchanged -/
def ForDomSymmetric (call putRecip spot strike : ℝ) : Prop := call = spot * strike * putRecip

/-- The premium views are one number: `v` = DOM pips (DOM per unit FOR).  Cash amounts are for the trade's notional
(`notFor` units of FOR = `notDom` units of DOM at the strike); DOM ↔ FOR cash converts at SPOT; percentages are cash over
the notional of the same currency; FOR pips are FOR cash per unit of DOM notional. -/
structure PremiumViews (v cashDom cashFor pipsDom pipsFor pctDom pctFor notDom notFor spot strike : ℝ) : Prop where
  pips_dom : pipsDom = v
  notional : notDom = notFor * strike
  cash_dom : cashDom = pipsDom * notFor
  cash_for : cashFor * spot = cashDom
  pct_dom : pctDom * notDom = cashDom
  pct_for : pctFor * notFor = cashFor
  pips_for : pipsFor * notDom = cashFor

end FinVerif.C10
