/-
  C17 — what the property demands of a default-time sampler, in its own vocabulary.

  "The mean equals the sum of default probability x loss regardless of correlation" is, for a simulated portfolio, the
  statement that every name's simulated default time has the marginal law of its own survival curve:
  `P(τ ≤ T) = 1 − Q(T)` for every horizon `T` — whatever the dependence between the names (marginals of a copula do not
  depend on the copula).  Nothing here refers to the source.
-/
import Mathlib.MeasureTheory.Measure.Real

namespace FinVerif.Spec.C17
open MeasureTheory

variable {Ω : Type*} [MeasurableSpace Ω]

/-- the simulated default time `τ` has the marginal default probability of the survival curve `Q` at horizon `T` -/
def MarginalCorrect (μ : Measure Ω) (τ : Ω → ℝ) (Q : ℝ → ℝ) (T : ℝ) : Prop :=
  μ.real {ω | τ ω ≤ T} = 1 - Q T

/-- `F` is the distribution function of the latent variable `g` under `μ`, and that law has no atoms
(`P(g < x) = P(g ≤ x) = F x`).  ASSUMPTION of the theorems: it is a fact about the Student-t / normal law, recorded in
the evidence file, not proved. -/
structure IsCdfOf (μ : Measure Ω) (g : Ω → ℝ) (F : ℝ → ℝ) : Prop where
  lt : ∀ x, μ.real {ω | g ω < x} = F x
  le : ∀ x, μ.real {ω | g ω ≤ x} = F x

/-- `Qinv` inverts the survival curve at horizon `T`: the default time read off the curve at the uniform `u` falls before
`T` exactly when `u` is at least the survival probability `Q T` (the curve is non-increasing). -/
def InvertsAt (Q Qinv : ℝ → ℝ) (T : ℝ) : Prop := ∀ u, Qinv u ≤ T ↔ Q T ≤ u

end FinVerif.Spec.C17
