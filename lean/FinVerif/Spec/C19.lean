/-
  C19 — specification vocabulary (independent of the source): the exact laws that the simulated paths
  are documented to have, in closed form.
-/
import Mathlib.Analysis.SpecialFunctions.Log.Basic

namespace FinVerif.Spec.C19

/-- exact GBM transition: `S·exp((μ−σ²/2)·dt + σ·√dt·z)` for a standard normal `z` -/
noncomputable def gbmExact (mu sigma dt s z : ℝ) : ℝ :=
  s * Real.exp ((mu - sigma ^ 2 / 2) * dt + sigma * Real.sqrt dt * z)

/-- conditional mean of one Euler step of `dx = κ(θ−x)dt + (…)dW` -/
def eulerMean (kappa theta dt x : ℝ) : ℝ := x + kappa * (theta - x) * dt

/-- survival probability between two knots `(t₁,q₁)`, `(t₂,q₂)` of a curve with piecewise-flat hazard
rate: `q₁·exp(−h·(t−t₁))`, `h = log(q₁/q₂)/(t₂−t₁)`. -/
noncomputable def flatHazardQ (t1 q1 t2 q2 t : ℝ) : ℝ :=
  q1 * Real.exp (-(Real.log (q1 / q2) / (t2 - t1)) * (t - t1))

/-- mean of the integrated Ornstein–Uhlenbeck rate `∫₀ᵗ r_s ds` (`dr = a(b−r)dt + σ dW`): `b·t + (r₀−b)·(1−e^{−at})/a` -/
noncomputable def vasIntegratedMean (r0 a b t : ℝ) : ℝ := b * t + (r0 - b) * ((1 - Real.exp (-a * t)) / a)

/-- its variance: `σ²/a²·(t − 2(1−e^{−at})/a + (1−e^{−2at})/(2a))` -/
noncomputable def vasIntegratedVar (a sigma t : ℝ) : ℝ :=
  sigma ^ 2 / a ^ 2 * (t - 2 * ((1 - Real.exp (-a * t)) / a) + (1 - Real.exp (-2 * a * t)) / (2 * a))

end FinVerif.Spec.C19
