/-
  Readable specification of the calendars (C14): a small rule language and one rule list per
  calendar, plus the Gregorian computus for Easter.  Mathlib-free and executable.

  The rule lists are my reading of the *named rules* in `financepy/utils/calendar.py` (the
  comments beside each test: "MLK", "Good Friday", …).  Agreement with real-world public holidays
  is not claimed; the property is "holiday exactly when one of the calendar's named rules applies".
-/
import FinVerif.Core.Prelude
import FinVerif.Core.AdjustAlgo
import FinVerif.Spec.Date

namespace FinVerif.Spec

abbrev MON : Int := 0
abbrev TUE : Int := 1
abbrev WED : Int := 2
abbrev THU : Int := 3
abbrev FRI : Int := 4
abbrev SAT : Int := 5
abbrev SUN : Int := 6

/-- A holiday rule.  `m d y wd` are month, day, year and weekday (0 = Monday) of the date, `diy`
its day-in-year (1 Jan = 1) and `em` the day-in-year of Easter Monday of year `y`. -/
inductive Rule where
  /-- every year on the fixed date `m/d` -/
  | fixed (m d : Int)
  /-- `m/d` but only when it falls on weekday `wd` (a weekend-substitution day) -/
  | fixedOn (m d wd : Int)
  /-- the weekday `wd` whose day-of-month lies in `[lo, hi]` ("third Monday" = `15 21 MON`) -/
  | nthWeekday (m lo hi wd : Int)
  /-- Easter Monday plus `off` days -/
  | easter (off : Int)
  /-- the rule `r`, only in year `yr` -/
  | inYear (yr : Int) (r : Rule)
  /-- the rule `r`, except in year `yr` -/
  | notInYear (yr : Int) (r : Rule)
  /-- the rule `r`, only in years strictly after `yr` -/
  | afterYear (yr : Int) (r : Rule)
  deriving Repr

def Rule.holds (m d y wd diy em : Int) : Rule → Bool
  | .fixed rm rd => decide (m = rm) && decide (d = rd)
  | .fixedOn rm rd rw => decide (m = rm) && decide (d = rd) && decide (wd = rw)
  | .nthWeekday rm lo hi rw => decide (m = rm) && decide (lo ≤ d) && decide (d ≤ hi) && decide (wd = rw)
  | .easter off => decide (diy = em + off)
  | .inYear yr r => decide (y = yr) && r.holds m d y wd diy em
  | .notInYear yr r => decide (y ≠ yr) && r.holds m d y wd diy em
  | .afterYear yr r => decide (y > yr) && r.holds m d y wd diy em

def anyRule (rules : List Rule) (m d y wd diy em : Int) : Bool :=
  rules.any (Rule.holds m d y wd diy em)

open Rule in
def rulesAustralia : List Rule :=
  [fixed 1 1, fixed 1 26, fixedOn 1 27 MON, fixedOn 1 28 MON, easter (-3), easter 0, fixed 4 25,
   fixedOn 4 26 MON, nthWeekday 6 8 14 MON, nthWeekday 8 1 7 MON, nthWeekday 10 1 7 MON,
   fixed 12 25, fixed 12 26, fixedOn 12 27 MON, fixedOn 12 28 MON]

open Rule in
def rulesUnitedKingdom : List Rule :=
  [fixed 1 1, fixedOn 1 2 MON, fixedOn 1 3 MON, easter 0, easter (-3), nthWeekday 5 1 7 MON,
   nthWeekday 5 25 31 MON, inYear 2022 (fixed 6 2), inYear 2022 (fixed 6 3), nthWeekday 8 25 31 MON,
   fixed 12 25, fixed 12 26, fixedOn 12 27 MON, fixedOn 12 27 TUE, fixedOn 12 28 MON, fixedOn 12 28 TUE]

open Rule in
def rulesFrance : List Rule :=
  [fixed 1 1, easter 0, easter (-3), fixed 5 1, fixed 5 8, easter 38, easter 49, fixed 7 14, fixed 8 15,
   fixed 11 1, fixed 11 11, fixed 12 25, fixed 12 26]

open Rule in
def rulesSweden : List Rule :=
  [fixed 1 1, fixed 1 6, easter (-3), easter 0, easter 38, fixed 5 1, fixed 6 6, nthWeekday 6 19 25 FRI,
   fixed 12 24, fixed 12 25, fixed 12 26, fixed 12 31]

open Rule in
def rulesGermany : List Rule :=
  [fixed 1 1, easter 0, easter (-3), fixed 5 1, easter 38, easter 49, fixed 10 3, fixed 12 24, fixed 12 25,
   fixed 12 26]

open Rule in
def rulesSwitzerland : List Rule :=
  [fixed 1 1, fixed 1 2, easter 0, easter (-3), easter 38, easter 49, fixed 5 1, fixed 8 1, fixed 12 25,
   fixed 12 26]

open Rule in
def rulesJapan : List Rule :=
  [fixed 1 1, fixedOn 1 2 MON, fixedOn 1 3 MON, nthWeekday 1 8 14 MON, fixed 2 11, fixedOn 2 12 MON,
   fixed 2 23, fixedOn 2 24 MON, fixed 3 20, fixedOn 3 21 MON, fixed 4 29, fixedOn 4 30 MON, fixed 5 3,
   fixed 5 4, fixed 5 5, fixedOn 5 6 MON, notInYear 2021 (nthWeekday 7 15 21 MON), inYear 2021 (fixed 7 22),
   inYear 2021 (fixed 7 23), notInYear 2021 (fixed 8 11), notInYear 2021 (fixedOn 8 12 MON),
   inYear 2021 (fixedOn 8 9 MON), nthWeekday 9 15 21 MON, fixed 9 23, fixedOn 9 24 MON,
   notInYear 2021 (nthWeekday 10 8 14 MON), fixed 11 3, fixedOn 11 4 MON, fixed 11 23]

open Rule in
def rulesNewZealand : List Rule :=
  [fixed 1 1, fixedOn 1 2 MON, fixedOn 1 3 MON, nthWeekday 1 19 25 MON, fixed 2 6, easter (-3), easter 0,
   fixed 4 25, nthWeekday 6 1 7 MON, nthWeekday 10 22 28 MON, fixed 12 25, fixed 12 26, fixedOn 12 27 MON,
   fixedOn 12 28 MON]

open Rule in
def rulesNorway : List Rule :=
  [fixed 1 1, easter (-4), easter (-3), easter 0, easter 38, easter 49, fixed 5 1, fixed 5 17, fixed 12 25,
   fixed 12 26]

open Rule in
def rulesUnitedStates : List Rule :=
  [fixed 1 1, fixedOn 1 2 MON, fixedOn 1 3 MON, nthWeekday 1 15 21 MON, nthWeekday 2 15 21 MON,
   nthWeekday 5 25 31 MON, fixed 7 4, fixedOn 7 5 MON, fixedOn 7 3 FRI, nthWeekday 9 1 7 MON,
   nthWeekday 10 8 14 MON, fixed 11 11, fixedOn 11 12 MON, fixedOn 11 10 FRI, nthWeekday 11 22 28 THU,
   fixedOn 12 24 FRI, fixed 12 25, fixedOn 12 26 MON, fixedOn 12 31 FRI]

open Rule in
def rulesCanada : List Rule :=
  [fixed 1 1, fixedOn 1 2 MON, fixedOn 1 3 MON, nthWeekday 2 15 21 MON, easter (-3), nthWeekday 5 18 24 MON,
   fixed 7 1, fixedOn 7 2 MON, fixedOn 7 3 MON, nthWeekday 8 1 7 MON, nthWeekday 9 1 7 MON,
   nthWeekday 10 8 14 MON, fixed 11 11, fixedOn 11 12 MON, fixedOn 11 13 MON, fixed 12 25, fixed 12 26,
   fixedOn 12 27 MON, fixedOn 12 28 TUE]

open Rule in
def rulesItaly : List Rule :=
  [fixed 1 1, fixed 1 6, easter 0, easter (-3), fixed 4 25, fixed 5 1, afterYear 1999 (fixed 6 2), fixed 8 15,
   fixed 11 1, fixed 12 8, fixed 12 25, fixed 12 26]

open Rule in
def rulesTarget : List Rule :=
  [fixed 1 1, fixed 5 1, easter (-3), easter 0, fixed 12 25, fixed 12 26]

/-- Rule list of a calendar by `CalendarTypes` value (NONE = 1 and WEEKEND = 2 have no date rules). -/
def rulesOf : Int → Option (List Rule)
  | 1 => some []
  | 3 => some rulesAustralia | 4 => some rulesCanada | 5 => some rulesFrance | 6 => some rulesGermany
  | 7 => some rulesItaly | 8 => some rulesJapan | 9 => some rulesNewZealand | 10 => some rulesNorway
  | 11 => some rulesSweden | 12 => some rulesSwitzerland | 13 => some rulesTarget
  | 14 => some rulesUnitedStates | 15 => some rulesUnitedKingdom
  | _ => none

/-! ### Gregorian computus (anonymous / Meeus–Jones–Butcher algorithm) -/

/-- (month, day) of Easter Sunday in Gregorian year `y`. -/
def easterSunday (y : Nat) : Nat × Nat :=
  let a := y % 19
  let b := y / 100
  let c := y % 100
  let d := b / 4
  let e := b % 4
  let f := (b + 8) / 25
  let g := (b - f + 1) / 3
  let h := (19 * a + b - d - g + 15) % 30
  let i := c / 4
  let k := c % 4
  let l := (32 + 2 * e + 2 * i - h - k) % 7
  let m := (a + 11 * h + 22 * l) / 451
  let month := (h + l - 7 * m + 114) / 31
  let day := (h + l - 7 * m + 114) % 31 + 1
  (month, day)

def gregorianLeap (y : Nat) : Bool := (y % 4 == 0 && y % 100 != 0) || y % 400 == 0

/-- Day-in-year (1 Jan = 1) of Easter Monday of year `y`: Easter Sunday is always in March or April. -/
def easterMondayDoy (y : Nat) : Nat :=
  let (mo, da) := easterSunday y
  let feb := if gregorianLeap y then 29 else 28
  (if mo = 3 then 31 + feb else 31 + feb + 31) + da + 1

end FinVerif.Spec

/-! ### Executable specification of holiday / business day / adjustment (independent of the source) -/
namespace FinVerif.Spec
open FinVerif

/-- C14 spec: a date is a holiday of calendar `cal` iff one of the calendar's rules applies
(WEEKEND = 2: iff it is a weekend).  `none` for a code that is not a calendar. -/
def specIsHoliday (cal : Int) (dt : PyDate) : Option Bool :=
  if cal = 2 then some (decide (dt.wd = SAT) || decide (dt.wd = SUN))
  else match rulesOf cal with
    | none => none
    | some rules =>
      some (anyRule rules dt.m dt.d dt.y dt.wd (dayInYearS dt.d dt.m dt.y) (easterMondayDoy dt.y.toNat))

/-- C14 spec: business day = neither weekend nor holiday. -/
def specIsBusinessDay (cal : Int) (dt : PyDate) : Option Bool :=
  if dt.wd = SAT ∨ dt.wd = SUN then some false
  else (specIsHoliday cal dt).map (!·)

def specAddDaysE (dt : PyDate) (n : Int) : Except PyErr PyDate := .ok (addDaysS dt n)

def specAdjust (cal conv : Int) (dt : PyDate) : Except PyErr PyDate :=
  Algo.adjust (specIsBusinessDay cal) specAddDaysE mkDateS 40 (decide (cal = 1)) conv dt

def specAddBusinessDays (cal : Int) (start : PyDate) (n : Int) : Except PyErr PyDate :=
  Algo.abdLoop (specIsBusinessDay cal) (fun c => .ok (addDaysS c (if n ≥ 0 then 1 else -1)))
    (n.natAbs * 40 + 40) n.natAbs start

end FinVerif.Spec
