/-
  Specification of the civil (proleptic Gregorian) calendar with Excel serial numbers (C13).
  Independent of the FinancePy source: nothing here is generated, so the spec driver keeps working
  whatever happens to `date.py`.  Mathlib-free, executable.

  Anchors (trusted, cross-checked against Python's `datetime` in the correspondence):
  serial(1 Mar 1900) = 61 and serial(succ x) = serial x + 1; 1 Mar 1900 was a Thursday.
  (Excel's phantom 29 Feb 1900 only matters before the property's domain, which starts 1 Mar 1900.)
-/
import FinVerif.Core.Prelude

namespace FinVerif.Spec

def gLeap (y : Int) : Bool := (y % 4 == 0 && y % 100 != 0) || y % 400 == 0

def monthLen (y m : Int) : Int :=
  if m = 2 then (if gLeap y then 29 else 28)
  else if m = 4 ∨ m = 6 ∨ m = 9 ∨ m = 11 then 30 else 31

/-- A valid calendar date. -/
def Valid (d m y : Int) : Prop := 1 ≤ m ∧ m ≤ 12 ∧ 1 ≤ d ∧ d ≤ monthLen y m

instance (d m y : Int) : Decidable (Valid d m y) := by unfold Valid; infer_instance

/-- Gregorian successor. -/
def succ (d m y : Int) : Int × Int × Int :=
  if d < monthLen y m then (d + 1, m, y) else if m < 12 then (1, m + 1, y) else (1, 1, y + 1)

/-- Gregorian predecessor. -/
def pred (d m y : Int) : Int × Int × Int :=
  if d > 1 then (d - 1, m, y) else if m > 1 then (monthLen y (m - 1), m - 1, y) else (31, 12, y - 1)

/-- Days from 1 March of year 0 (proleptic) to `d/m/y`, by the usual shifted-year formula. -/
def daysFromCivil (d m y : Int) : Int :=
  let y' := if m ≤ 2 then y - 1 else y
  let mp := if m ≤ 2 then m + 9 else m - 3          -- March = 0 … February = 11
  365 * y' + y' / 4 - y' / 100 + y' / 400 + (153 * mp + 2) / 5 + (d - 1)

/-- Excel serial: anchored at 1 Mar 1900 = 61. -/
def serial (d m y : Int) : Int := daysFromCivil d m y - daysFromCivil 1 3 1900 + 61

/-- Weekday, 0 = Monday: 1 Mar 1900 (serial 61) was a Thursday (3). -/
def weekdayOf (s : Int) : Int := (s - 61 + 3) % 7

def mkDateS (d m y : Int) : PyDate :=
  let s := serial d m y
  { d := d, m := m, y := y, serial := s, wd := weekdayOf s }

/-- Day-in-year, 1 Jan = 1. -/
def dayInYearS (d m y : Int) : Int := serial d m y - serial 1 1 y + 1

def stepDaysS : Nat → Bool → Int × Int × Int → Int × Int × Int
  | 0, _, t => t
  | k + 1, fwd, (d, m, y) => stepDaysS k fwd (if fwd then succ d m y else pred d m y)

/-- Calendar-correct day addition. -/
def addDaysS (dt : PyDate) (n : Int) : PyDate :=
  let (d, m, y) := stepDaysS n.natAbs (decide (n ≥ 0)) (dt.d, dt.m, dt.y)
  mkDateS d m y

/-- Calendar-correct month addition: clip to the last valid day of the target month. -/
def addMonthsS (dt : PyDate) (k : Int) : PyDate :=
  let t := (dt.y * 12 + (dt.m - 1)) + k
  let y := t / 12
  let m := t % 12 + 1
  let d := if dt.d > monthLen y m then monthLen y m else dt.d
  mkDateS d m y

end FinVerif.Spec

namespace FinVerif.Spec
open FinVerif

/-- The first date strictly after `dt` satisfying `p` (search day by day; `none` if not within `fuel`). -/
def firstAfter (p : PyDate → Bool) : Nat → PyDate → Option PyDate
  | 0, _ => none
  | fuel + 1, dt =>
    let n := addDaysS dt 1
    if p n then some n else firstAfter p fuel n

def isQuarterMonth (m : Int) : Bool := m == 3 || m == 6 || m == 9 || m == 12

/-- CDS roll date: the 20th of March, June, September or December. -/
def isCDSDate (dt : PyDate) : Bool := isQuarterMonth dt.m && dt.d == 20

/-- IMM date: the third Wednesday (the Wednesday with day-of-month 15..21) of a quarter month. -/
def isIMMDate (dt : PyDate) : Bool := isQuarterMonth dt.m && dt.wd == 2 && decide (15 ≤ dt.d) && decide (dt.d ≤ 21)

def nextCDSS (dt : PyDate) : Option PyDate := firstAfter isCDSDate 100 dt
def nextIMMS (dt : PyDate) : Option PyDate := firstAfter isIMMDate 100 dt

/-- n weekdays (Mon–Fri) after/before `dt`. -/
def addWeekdaysS (dt : PyDate) (n : Int) : PyDate :=
  let step : Int := if n > 0 then 1 else -1
  let rec go : Nat → Nat → PyDate → PyDate
    | _, 0, cur => cur
    | 0, _, cur => cur
    | fuel + 1, left + 1, cur =>
      let nd := addDaysS cur step
      if nd.wd = 5 ∨ nd.wd = 6 then go fuel (left + 1) nd else go fuel left nd
  go (n.natAbs * 3 + 7) n.natAbs dt

/-- Tenor addition (unit 1 = D, 2 = W, 3 = M, 4 = Y): calendar-correct; month and year tenors keep
the original day-of-month wherever the target month has it, so nY = 12nM. -/
def addTenorS (dt : PyDate) (n unit : Int) : PyDate :=
  if unit = 1 then addDaysS dt n
  else if unit = 2 then addDaysS dt (7 * n)
  else if unit = 3 then addMonthsS dt n
  else if unit = 4 then addMonthsS dt (12 * n)
  else dt

def eomS (dt : PyDate) : PyDate := mkDateS (monthLen dt.y dt.m) dt.m dt.y

end FinVerif.Spec
