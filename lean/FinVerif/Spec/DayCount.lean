/-
  Specification of the day-count conventions (C15), from ISDA 2006 Definitions §4.16 (f), (g), (h),
  ICMA Rule 251, and the usual statements of 30E+/360 and ACT/365L.  Independent of the source.
  Dates are `(d, m, y)` with their serial numbers from `FinVerif.Spec.Date`.
-/
import FinVerif.Spec.Date

namespace FinVerif.Spec
open FinVerif

/-- `360·ΔY + 30·ΔM + ΔD` -/
def thirty360 (d1 m1 y1 d2 m2 y2 : Int) : Int := 360 * (y2 - y1) + 30 * (m2 - m1) + (d2 - d1)

def isLastDayOfFeb (d m y : Int) : Bool := decide (m = 2) && decide (d = monthLen y 2)

/-- ISDA 2006 §4.16(f) 30/360 "Bond Basis": D1 = 31 → 30; D2 = 31 and D1 > 29 → 30. -/
def num30_360Bond (d1 m1 y1 d2 m2 y2 : Int) : Int :=
  let D1 := if d1 = 31 then 30 else d1
  let D2 := if d2 = 31 ∧ D1 > 29 then 30 else d2
  thirty360 D1 m1 y1 D2 m2 y2

/-- ISDA 2006 §4.16(g) 30E/360 "Eurobond Basis": D1 = 31 → 30; D2 = 31 → 30. -/
def num30E360 (d1 m1 y1 d2 m2 y2 : Int) : Int :=
  thirty360 (if d1 = 31 then 30 else d1) m1 y1 (if d2 = 31 then 30 else d2) m2 y2

/-- ISDA 2006 §4.16(h) 30E/360 (ISDA): D1 is the last day of February or 31 → 30; D2 is 31, or the
last day of February but not the Termination Date → 30. -/
def num30E360ISDA (d1 m1 y1 d2 m2 y2 : Int) (isTermination : Bool) : Int :=
  let D1 := if d1 = 31 ∨ isLastDayOfFeb d1 m1 y1 then 30 else d1
  let D2 := if d2 = 31 ∨ (isLastDayOfFeb d2 m2 y2 ∧ ¬ isTermination) then 30 else d2
  thirty360 D1 m1 y1 D2 m2 y2

/-- 30E+/360: D1 = 31 → 30; D2 = 31 → the 1st of the next month. -/
def num30EPlus360 (d1 m1 y1 d2 m2 y2 : Int) : Int :=
  let D1 := if d1 = 31 then 30 else d1
  if d2 = 31 then thirty360 D1 m1 y1 1 (m2 + 1) y2 else thirty360 D1 m1 y1 d2 m2 y2

def yearLen (y : Int) : Int := if gLeap y then 366 else 365

/-- Days of the period `[s1, s2)` that fall in calendar year `y` (signed overlap for `s1 ≤ s2`). -/
def daysInYearOverlap (s1 s2 y : Int) : Int :=
  min s2 (serial 1 1 (y + 1)) - max s1 (serial 1 1 y)

/-- ISDA 2006 §4.16(b) ACT/ACT (ISDA), `start ≤ end`: for each calendar year touched by the period,
the days of the period in that year divided by that year's length. -/
def actActISDA (s1 y1 s2 y2 : Int) : Rat :=
  ((List.range ((y2 - y1).toNat + 1)).map
    (fun (i : Nat) => ((daysInYearOverlap s1 s2 (y1 + i) : Int) : Rat) / (yearLen (y1 + i) : Int))).sum

/-- ICMA Rule 251 ACT/ACT: days / (frequency × days in the coupon period). -/
def actActICMA (s1 s2 s3 : Int) (freq : Rat) : Rat := ((s2 - s1 : Int) : Rat) / (freq * ((s3 - s1 : Int) : Rat))

/-- ACT/365L denominator: annual coupons → 366 iff a 29 February lies in `(start, periodEnd]`;
otherwise 366 iff the period end falls in a leap year. -/
def den365L (s1 y1 s3 y3 : Int) (freq : Option Rat) : Int :=
  if freq = some 1 then
    let feb29 : Option Int :=
      if gLeap y1 then some (serial 29 2 y1) else if gLeap y3 then some (serial 29 2 y3) else none
    match feb29 with
    | some f => if f > s1 ∧ f ≤ s3 then 366 else 365
    | none => 365
  else if gLeap y3 then 366 else 365

/-- `annual_frequency` of the documentation: payments per year by `FrequencyTypes` value. -/
def annualFreq (f : Int) : Option Rat :=
  if f = 1 then some 1 else if f = 2 then some 2 else if f = 3 then some 3 else if f = 4 then some 4
  else if f = 12 then some 12 else if f = -1 then some 1 else if f = 99 then some (-1) else none

/-- The specification of `DayCount(dcc).year_frac(dt1, dt2, dt3, freq, isTermination)`:
`(fraction, numerator, denominator)`; `.error .finError` where the library documents an error. -/
def specYearFrac (dcc : Int) (dt1 dt2 : PyDate) (dt3 : Option PyDate) (freq : Int) (isTerm : Bool) :
    Except PyErr (Rat × Rat × Rat) :=
  let s1 := dt1.serial
  let s2 := dt2.serial
  let mk360 (n : Int) : Except PyErr (Rat × Rat × Rat) := .ok ((n : Rat) / 360, n, 360)
  if dcc = 1 then mk360 (num30_360Bond dt1.d dt1.m dt1.y dt2.d dt2.m dt2.y)
  else if dcc = 2 then mk360 (num30E360 dt1.d dt1.m dt1.y dt2.d dt2.m dt2.y)
  else if dcc = 3 then mk360 (num30E360ISDA dt1.d dt1.m dt1.y dt2.d dt2.m dt2.y isTerm)
  else if dcc = 4 then mk360 (num30EPlus360 dt1.d dt1.m dt1.y dt2.d dt2.m dt2.y)
  else if dcc = 5 ∨ dcc = 0 then
    -- reversed periods are the negative of the forward period
    let frac := if s1 ≤ s2 then actActISDA s1 dt1.y s2 dt2.y else - actActISDA s2 dt2.y s1 dt1.y
    -- the (num, den) pair reported alongside is informational: days in the two end years
    if dt1.y = dt2.y then .ok (frac, ((s2 - s1 : Int) : Rat), (yearLen dt1.y : Int))
    else .ok (frac, (((serial 1 1 (dt1.y + 1) - s1) + (s2 - serial 1 1 dt2.y) : Int) : Rat),
              ((yearLen dt1.y + yearLen dt2.y : Int) : Rat))
  else if dcc = 6 then
    match dt3, annualFreq freq with
    | some d3, some f =>
      if f * ((d3.serial - s1 : Int) : Rat) = 0 then .error .zeroDiv
      else .ok (actActICMA s1 s2 d3.serial f, ((s2 - s1 : Int) : Rat), f * ((d3.serial - s1 : Int) : Rat))
    | _, _ => .error .finError
  else if dcc = 7 then .ok (((s2 - s1 : Int) : Rat) / 365, ((s2 - s1 : Int) : Rat), 365)
  else if dcc = 8 then .ok (((s2 - s1 : Int) : Rat) / 360, ((s2 - s1 : Int) : Rat), 360)
  else if dcc = 9 then
    let d3 := dt3.getD dt2          -- without a period end the period is [dt1, dt2]
    let den := den365L s1 dt1.y d3.serial d3.y (annualFreq freq)
    .ok (((s2 - s1 : Int) : Rat) / den, ((s2 - s1 : Int) : Rat), den)
  else if dcc = 10 then .ok (((s2 - s1 : Int) : Rat) / 365, ((s2 - s1 : Int) : Rat), 365)
  else .error .finError

end FinVerif.Spec
