/-
  C11 — what the property demands of closed-form exotic prices, in its own vocabulary.
  Independent of the source (imports nothing from `Gen/`).  Values are `Except`-valued because the
  implementation may reject its arguments; a parity is a statement about two accepted valuations.
-/
import FinVerif.Core.Prelude

namespace FinVerif.Spec.Exotics
open FinVerif

/-- sum of two valuations; an error in either is an error of the sum -/
def addE {α} [Add α] (x y : Except PyErr α) : Except PyErr α :=
  match x, y with
  | .ok a, .ok b => .ok (a + b)
  | .error e, _ => .error e
  | _, .error e => .error e

/-- difference of two valuations -/
def subE {α} [Sub α] (x y : Except PyErr α) : Except PyErr α :=
  match x, y with
  | .ok a, .ok b => .ok (a - b)
  | .error e, _ => .error e
  | _, .error e => .error e

/-- "knock-in + knock-out = vanilla": a portfolio of the two barrier options on the same barrier pays the
vanilla payoff on every path, so the two values add up to the vanilla value. -/
def InPlusOutIsVanilla {α} [Add α] (knockIn knockOut : Except PyErr α) (vanilla : α) : Prop :=
  addE knockIn knockOut = .ok vanilla

/-- "one-touch (paid at expiry) + no-touch = the unconditional payment": cash → `payment · df`,
asset → `spot · dq` (the forward-discounted asset). -/
def TouchPlusNoTouch {α} [Add α] (touch noTouch : Except PyErr α) (unconditional : α) : Prop :=
  addE touch noTouch = .ok unconditional

end FinVerif.Spec.Exotics
