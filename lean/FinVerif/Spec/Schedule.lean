/-
  Specification of an ISDA roll schedule (C16), independent of the source.

  Roll dates are whole periods from the anchor end (termination for BACKWARD, effective for FORWARD),
  computed from the ANCHOR each time (no drift), month-end rolls when the flag is set.  The schedule is
  `[effective] ++ adjusted interior roll dates ++ [termination (adjusted iff requested)]`.
  It is well formed when strictly increasing.  When business-day adjustment makes two dates coincide
  the acceptable outcomes are the library's error, or the list with the coinciding dates merged.
-/
import FinVerif.Spec.Calendar

namespace FinVerif.Spec
open FinVerif

structure SchedSpec where
  effective : PyDate
  termination : PyDate
  numMonths : Int
  backward : Bool
  adjustTermination : Bool
  endOfMonth : Bool
  cal : Int
  conv : Int

def rollDate (s : SchedSpec) (k : Nat) : PyDate :=
  let r := if s.backward then addMonthsS s.termination (-(s.numMonths * (k : Int)))
           else addMonthsS s.effective (s.numMonths * (k : Int))
  if s.endOfMonth ∧ s.backward then eomS r else r

/-- interior unadjusted roll dates, in increasing order -/
def interiorRolls (s : SchedSpec) (fuel : Nat) : List PyDate :=
  let ks := (List.range fuel).map (· + 1)
  let rolls := ks.map (rollDate s)
  if s.backward then
    (rolls.takeWhile (fun r => r.serial > s.effective.serial)).reverse
  else
    rolls.takeWhile (fun r => r.serial < s.termination.serial)

def adjustS (s : SchedSpec) (dt : PyDate) : PyDate :=
  match specAdjust s.cal s.conv dt with | .ok r => r | .error _ => dt

/-- The ideal schedule before any merging. -/
def idealSchedule (s : SchedSpec) (fuel : Nat) : List PyDate :=
  [s.effective] ++ (interiorRolls s fuel).map (adjustS s) ++
    [if s.adjustTermination then adjustS s s.termination else s.termination]

/-- C16 for the CDS premium leg: the unadjusted roll dates are whole periods from the anchor (maturity for
BACKWARD — down to and including the first one on or before the step-in date, the previous coupon date;
step-in for FORWARD — while before maturity, then the maturity date); every one is business-day adjusted;
the first is not a payment date. -/
def cdsIdealPayments (s : SchedSpec) (fuel : Nat) : List PyDate :=
  let ks := List.range fuel
  let un : List PyDate :=
    if s.backward then
      let rolls := ks.map (fun (k : Nat) => addMonthsS s.termination (-(s.numMonths * (k : Int))))
      let after := rolls.takeWhile (fun r => r.serial > s.effective.serial)
      -- the previous coupon date: the first roll on or before the step-in date
      let pcd := (rolls.drop after.length).take 1
      (after ++ pcd).reverse
    else
      let rolls := ks.map (fun (k : Nat) => addMonthsS s.effective (s.numMonths * (k : Int)))
      rolls.takeWhile (fun r => r.serial < s.termination.serial) ++ [s.termination]
  (un.map (adjustS s)).drop 1

def strictlyIncreasing : List PyDate → Bool
  | a :: b :: rest => decide (a.serial < b.serial) && strictlyIncreasing (b :: rest)
  | _ => true

def mergeEqual : List PyDate → List PyDate
  | a :: b :: rest => if a.serial = b.serial then mergeEqual (b :: rest) else a :: mergeEqual (b :: rest)
  | l => l

/-- C16 acceptance: `none` = the library's error. -/
def acceptable (s : SchedSpec) (fuel : Nat) (result : Option (List PyDate)) : Bool :=
  let ideal := idealSchedule s fuel
  let same (a b : List PyDate) : Bool := a.map (·.serial) == b.map (·.serial)
  if s.effective.serial ≥ s.termination.serial then result.isNone
  else if strictlyIncreasing ideal then
    match result with
    | some r => same r ideal
    | none => false
  else
    match result with
    | none => true
    | some r => strictlyIncreasing r && decide (r.length ≥ 2) && same r (mergeEqual ideal)

end FinVerif.Spec
