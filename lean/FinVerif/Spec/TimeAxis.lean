/-
  Time axes of a discount curve (C02 / C01): the executable predicate "some day of the half-open span
  `[s1, s2)` lies in a leap year", counted per calendar year with the same `daysInYearOverlap` the ISDA
  specification of ACT/ACT uses.  Mathlib-free: the Lean driver `Driver/C02Axis.lean` runs exactly this text
  and the harness classifier of the `leap-time-axis` findings is compared with it on every run.
-/
import FinVerif.Spec.DayCount

namespace FinVerif.Spec
open FinVerif

/-- Number of days of the half-open span `[s1, s2)` that lie in a leap year; `y1`, `y2` are the calendar
years of the two end dates (one term per calendar year `y1 … y2`). -/
def leapDays (s1 y1 s2 y2 : Int) : Int :=
  ((List.range ((y2 - y1).toNat + 1)).map
    (fun (i : Nat) => if gLeap (y1 + i) then daysInYearOverlap s1 s2 (y1 + i) else 0)).sum

/-- "The span touches a leap year": the classifier predicate of `C02/leap-time-axis`, `C01/leap-time-axis`. -/
def touchesLeap (s1 y1 s2 y2 : Int) : Bool := decide (0 < leapDays s1 y1 s2 y2)

/-- The knot time of a pillar as `DiscountCurve.__init__` / `times_from_dates(…, None)` place it: days / 365. -/
def t365 (s1 s2 : Int) : Rat := ((s2 - s1 : Int) : Rat) / 365

/-- The constant by which one leap-year day moves the two axes apart: 1/365 − 1/366 = 1/133590. -/
def axisStep : Rat := 1 / 365 - 1 / 366

end FinVerif.Spec
