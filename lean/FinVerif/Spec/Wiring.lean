/-
C16w — call-site wiring of conventions (source-independent spec).

A product takes its schedule / day-count / calendar conventions as constructor parameters and must hand each of them,
unchanged and un-swapped, to the objects it builds (`Schedule(...)`, `DayCount(...)`, `Calendar(...)`, swap legs, …).
This file fixes the vocabulary (what a call site is, which parameter NAMES denote which ROLE) and the rules R1–R3 plus
leg consistency, as decidable predicates on a table of call sites.  It knows nothing about FinancePy's text: the table
(`FinVerif/Gen/Wiring.lean`) is regenerated from /repo on every run by `tools/py2lean/registry/wiring.py`, and
`FinVerif/Props/C16w.lean` decides the rules on it.  The only source-dependent content here is the list of named,
justified exceptions at the end.

Mathlib-free.
-/

namespace FinVerif.Spec.Wiring

/-- an identifier of the source with its mechanical split into lower-case tokens (on `_` and camel humps) -/
structure Name where
  s : String
  toks : List String
deriving DecidableEq, Repr

/-- how an argument expression is obtained (see the extractor's docstring for the exact meaning) -/
inductive Kind where
  | param   -- the enclosing class's constructor parameter `src`, unchanged
  | marg    -- the enclosing method's own parameter `src`, unchanged
  | const   -- a literal or enum member
  | dflt    -- not passed: the callee's default applies
  | other   -- any other expression
deriving DecidableEq, Repr

structure Arg where
  /-- the callee's parameter -/
  formal : Name
  kind : Kind
  /-- the source parameter (`param`, `marg`) or the text of the expression -/
  src : Name
deriving DecidableEq, Repr

structure CallSite where
  file : String
  /-- enclosing class ("" for a module-level function) -/
  cls : String
  method : Name
  callee : String
  /-- k-th call of this callee inside the method -/
  ordinal : Nat
  line : Nat
  /-- parameters of the enclosing class's constructor -/
  ctor : List Name
  /-- parameters of the enclosing method -/
  margs : List Name
  /-- one entry per parameter of the callee's constructor, in declaration order -/
  args : List Arg
deriving DecidableEq, Repr

inductive Role where
  | freq | cal | busDayAdj | dateGen | endOfMonth | adjustTermination | dcType | effective | termination
deriving DecidableEq, Repr

/-- the names under which each role appears (as token lists); a name has role `r` when it ENDS with one of `r`'s
synonyms — what precedes is its leg tag (`fixed_freq_type` = tag [fixed] + freq).  Longer synonyms first. -/
def synonyms : List (List String × Role) := [
  (["adjust", "termination", "dt"], .adjustTermination),
  (["bus", "day", "adjust", "rule", "type"], .busDayAdj),
  (["bus", "day", "adjust", "type"], .busDayAdj),
  (["bd", "adjust", "type"], .busDayAdj),
  (["bd", "type"], .busDayAdj),
  (["date", "gen", "rule", "type"], .dateGen),
  (["dg", "rule", "type"], .dateGen),
  (["dg", "type"], .dateGen),
  (["day", "count", "convention", "type"], .dcType),
  (["day", "count", "type"], .dcType),
  (["dcc", "type"], .dcType),
  (["dc", "type"], .dcType),
  (["frequency", "type"], .freq),
  (["freq", "type"], .freq),
  (["calendar", "type"], .cal),
  (["cal", "type"], .cal),
  (["end", "of", "month"], .endOfMonth),
  (["eom"], .endOfMonth),
  (["termination", "dt", "or", "tenor"], .termination),
  (["maturity", "dt", "or", "tenor"], .termination),
  (["term", "dt", "or", "tenor"], .termination),
  (["final", "expiry", "dt"], .termination),
  (["termination", "dt"], .termination),
  (["maturity", "dt"], .termination),
  (["end", "dt"], .termination),
  (["effective", "dt"], .effective),
  (["start", "dt"], .effective),
  (["issue", "dt"], .effective)]

/-- role and leg tag of a token list -/
def classify (toks : List String) : Option (Role × List String) :=
  synonyms.findSome? fun p =>
    if p.1.isSuffixOf toks then some (p.2, toks.take (toks.length - p.1.length)) else none

def roleOf (n : Name) : Option Role := (classify n.toks).map (·.1)
def tagOf (n : Name) : List String := match classify n.toks with | some (_, t) => t | none => []

/-- the convention roles (R1/R2 demand forwarding for these; effective/termination are only protected from swaps, R3:
products legitimately compute their termination date from a tenor) -/
def Role.isConvention : Role → Bool
  | .effective | .termination => false
  | _ => true

/-- the constructor parameter a `param` argument comes from -/
def ctorParam (s : CallSite) (a : Arg) : Option Name := s.ctor.find? (fun p => p.s == a.src.s)

/-- role of the SOURCE of an argument, when it is a parameter (of the constructor or of the method) -/
def srcRole (s : CallSite) (a : Arg) : Option Role :=
  match a.kind with
  | .param => (ctorParam s a).bind roleOf
  | .marg => roleOf a.src
  | _ => none

def srcTag (s : CallSite) (a : Arg) : List String :=
  match a.kind with
  | .param => match ctorParam s a with | some p => tagOf p | none => []
  | .marg => tagOf a.src
  | _ => []

/-- **forwarding** (R1 for `Schedule`, R2 for `DayCount`, and the same demand for every other callee): if the callee
parameter has convention role `r` and the enclosing class's constructor HAS a parameter of role `r`, then the argument
is exactly such a parameter, unchanged — or the method's own parameter of role `r` (a method that asks its caller for
the convention explicitly).  Not a default, not a constant, not another expression. -/
def forwards (s : CallSite) (a : Arg) : Bool :=
  match roleOf a.formal with
  | none => true
  | some r =>
    if !r.isConvention then true
    else if !(s.ctor.any fun p => roleOf p == some r) then true
    else (a.kind == .param || a.kind == .marg) && srcRole s a == some r

/-- **R3, no swap**: an argument for a callee parameter of role `r` never comes from a parameter of another role -/
def notSwapped (s : CallSite) (a : Arg) : Bool :=
  match roleOf a.formal, srcRole s a with
  | some r, some r' => r == r'
  | _, _ => true

/-- words that name a leg -/
def legWords : List String := ["fixed", "float", "pay", "rec", "receive"]

/-- **leg consistency** (the two-leg part of R2):
 (a) a callee parameter with a leg tag is fed from a parameter with the same tag or with none
     (`IborSwap(fixed_freq_type = self.fixed_freq_type)`, never `float_…`);
 (b) inside one call, all role-typed arguments whose callee parameter has no tag come from ONE leg
     (`SwapFixedLeg(freq_type = fixed_freq_type, dc_type = fixed_dc_type)`, never a mix);
 (c) in a method whose name carries a leg word, a source with a leg word carries that word
     (`_generate_fixed_leg_payment_dts` uses `fixed_freq_type`). -/
def legTagOK (s : CallSite) (a : Arg) : Bool :=
  let ft := tagOf a.formal
  let st := srcTag s a
  (roleOf a.formal).isNone || ft.isEmpty || st.isEmpty || ft == st

def siteLegs (s : CallSite) : List (List String) :=
  ((s.args.filter fun a => (roleOf a.formal).isSome && (tagOf a.formal).isEmpty).map (srcTag s)).filter (!·.isEmpty)

def oneLeg (s : CallSite) : Bool :=
  match siteLegs s with
  | [] => true
  | t :: rest => rest.all (· == t)

def methodLegOK (s : CallSite) (a : Arg) : Bool :=
  let mw := legWords.filter (s.method.toks.contains ·)
  let sw := legWords.filter ((srcTag s a).contains ·)
  (roleOf a.formal).isNone || mw.isEmpty || sw.isEmpty || sw.all (mw.contains ·)

/-! ## exceptions: what the CURRENT code does on purpose (or by a recorded defect) -/

structure Exc where
  cls : String
  method : String
  callee : String
  /-- callee parameter -/
  formal : String
  reason : String
deriving DecidableEq, Repr

def Exc.covers (e : Exc) (s : CallSite) (a : Arg) : Bool :=
  e.cls == s.cls && e.method == s.method.s && e.callee == s.callee && (e.formal == "*" || e.formal == a.formal.s)

/-- `Bond` generates UNADJUSTED coupon dates (accrual is calendar-free, ICMA) and applies its calendar only to the
payment dates, in `_calculate_payment_dts` (`Calendar(self.cal_type)`, a site of this table that does forward) -/
def excBondCouponCalendar : Exc :=
  ⟨"Bond", "_calculate_cpn_dts", "Schedule", "cal_type", "coupon dates are generated unadjusted by design (CalendarTypes.NONE); the calendar is applied to payment dates only"⟩

/-- CFETS yield convention prescribes ACT/365L for the last period, whatever the bond's accrual convention -/
def excBondCfets : Exc :=
  ⟨"Bond", "dirty_price_from_ytm", "DayCount", "dcc_type", "YTMCalcType.CFETS prescribes ACT/365L in the final coupon period"⟩

/-- the forward index rate is measured with the INDEX CURVE's day count, not with the leg's accrual convention -/
def excFloatLegIndexBasis : Exc :=
  ⟨"SwapFloatLeg", "value", "DayCount", "dcc_type", "forward index rates use index_curve.dc_type by design"⟩
def excEquityLegIndexBasis : Exc :=
  ⟨"EquitySwapLeg", "value", "DayCount", "dcc_type", "forward index rates use index_curve.dc_type by design"⟩

/-- by-design exceptions to forwarding -/
def designExceptions : List Exc := [excBondCouponCalendar, excBondCfets, excFloatLegIndexBasis, excEquityLegIndexBasis]

/-- REPAIRED DEFECT (finding C16/annuity-ignores-bd-dg, fixed in /repo by ed33e4a): `BondAnnuity.__init__` accepts
`bd_type` and `dg_type`, stores them, and `calculate_payments` used to build its schedule with the constants FOLLOWING /
BACKWARD instead.  The two entries are kept as names only; they are no longer excused (`knownDefects = []`), so the
forwarding rule now judges that call site like every other one and the defect is reported again if it returns. -/
def defectAnnuityBd : Exc :=
  ⟨"BondAnnuity", "calculate_payments", "Schedule", "bd_type", "DEFECT: constructor parameter ignored (constant FOLLOWING used)"⟩
def defectAnnuityDg : Exc :=
  ⟨"BondAnnuity", "calculate_payments", "Schedule", "dg_type", "DEFECT: constructor parameter ignored (constant BACKWARD used)"⟩

def knownDefects : List Exc := []

/-- sites that build an AUXILIARY instrument (not a component of the product itself) with the callee's default
conventions; formal "*" = every parameter of that call.  Not judged by the forwarding rule; R3 and leg consistency still
apply to them.  (The credit-index ones ignore conventions the class accepts: recorded as an observation in notes/C16.md.) -/
def auxiliaryInstrumentSites : List Exc := [
  ⟨"Bond", "key_rate_durations", "Bond", "*", "par bonds of the key-rate curve: hypothetical instruments issued at settlement, default conventions"⟩,
  ⟨"CDSIndexOption", "value_adjusted_black", "CDS", "*", "the index CDS is built with the standard contract conventions (CDS defaults)"⟩,
  ⟨"CDSIndexOption", "value_anderson", "CDS", "*", "the index CDS is built with the standard contract conventions (CDS defaults)"⟩,
  ⟨"CDSIndexPortfolio", "intrinsic_rpv01", "CDS", "*", "standard contract CDS (defaults) per constituent"⟩,
  ⟨"CDSIndexPortfolio", "intrinsic_prot_leg_pv", "CDS", "*", "standard contract CDS (defaults) per constituent"⟩,
  ⟨"CDSIndexPortfolio", "average_spread", "CDS", "*", "standard contract CDS (defaults) per constituent"⟩,
  ⟨"CDSIndexPortfolio", "total_spread", "CDS", "*", "standard contract CDS (defaults) per constituent"⟩,
  ⟨"CDSIndexPortfolio", "min_spread", "CDS", "*", "standard contract CDS (defaults) per constituent"⟩,
  ⟨"CDSIndexPortfolio", "max_spread", "CDS", "*", "standard contract CDS (defaults) per constituent"⟩,
  ⟨"CDSIndexPortfolio", "spread_adjust_intrinsic", "CDS", "*", "standard contract CDS (defaults) per constituent"⟩,
  ⟨"CDSIndexPortfolio", "hazard_rate_adjust_intrinsic", "CDS", "*", "standard contract CDS (defaults) per constituent"⟩]

/-- every exception, in the order the driver prints them -/
def allExceptions : List Exc := designExceptions ++ knownDefects ++ auxiliaryInstrumentSites

/-- the product constructors that carry conventions (legs, swaps, bonds, CDS …) -/
def productCallees : List String :=
  ["SwapFixedLeg", "SwapFloatLeg", "IborSwap", "OIS", "Bond", "BondFRN", "IborDeposit", "IborFRA", "IborCapFloor",
   "IborSwaption", "CDS", "EquitySwapLeg"]

/-- the callees for which forwarding is demanded of EVERY site (R1, R2 and calendars) -/
def coreCallees : List String := ["Schedule", "DayCount", "Calendar"]

/-! ## the verdict on a table -/

structure Failure where
  rule : String
  site : CallSite
  formal : String
deriving DecidableEq, Repr

def excused (l : List Exc) (s : CallSite) (a : Arg) : Bool := l.any (·.covers s a)

/-- every way a table violates the rules (the driver prints exactly this list; the theorems say it is empty) -/
def failures (exc : List Exc) (callees : List String) (tbl : List CallSite) : List Failure :=
  tbl.flatMap fun s =>
    (s.args.flatMap fun a =>
      (if callees.contains s.callee && !forwards s a && !excused exc s a then [⟨"forward", s, a.formal.s⟩] else [])
      ++ (if !notSwapped s a then [⟨"swap", s, a.formal.s⟩] else [])
      ++ (if !legTagOK s a then [⟨"leg-tag", s, a.formal.s⟩] else [])
      ++ (if !methodLegOK s a then [⟨"method-leg", s, a.formal.s⟩] else []))
    ++ (if !oneLeg s then [⟨"one-leg", s, ""⟩] else [])

end FinVerif.Spec.Wiring
