#!/bin/bash
# MANIFEST.setup_cmd — build the framework from files on disk only (offline).
set -u
DIR="$(cd "$(dirname "$0")" && pwd)"
cd "$DIR"
export PATH="/opt/veriftools/lean/bin:$PATH"
mkdir -p .cache evidence replays
echo "[setup] regenerating Lean models from /repo"
/venv/bin/python tools/py2lean/gen.py || echo "[setup] generation reported failures (checks will report them)"
echo "[setup] lake build (all modules)"
( cd lean && lake build 2>&1 | grep -v '^✔' | tail -20
  # compiled line-protocol drivers (Mathlib-free models): every lean_exe target of the lakefile
  for t in $(grep -A1 '^\[\[lean_exe\]\]' lakefile.toml | grep '^name' | sed 's/name = "\(.*\)"/\1/'); do
    lake build "$t" 2>&1 | tail -1
  done )
echo "[setup] warming the Numba cache keyed by the source hash"
/venv/bin/python harness/warm.py || true
echo "[setup] done"
