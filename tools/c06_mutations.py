"""usage: c06_mutations.py <name> ; applies mutation <name> to the scratch worktree $C06_WT (default /tmp/wt_a06;
git -C /repo worktree add --detach $C06_WT HEAD), runs ./check C06 in $C06_CLONE (default /tmp/wk/a06) with FINVERIF_REPO on it, reverts."""
import subprocess, sys, os, re
WT=os.environ.get('C06_WT','/tmp/wt_a06')
CLONE=os.environ.get('C06_CLONE','/tmp/wk/a06')
R='financepy/products/rates/'
M={
 'revert_2a49ff7': (R+'ois.py', "        if self.float_leg.leg_type == SwapTypes.PAY:\n            float_leg_value = -float_leg_value\n", "        if False:\n            float_leg_value = -float_leg_value\n"),
 'revert_f4e65d4': (R+'swap_float_leg.py', "        self.principal = principal\n", "        self.principal = 0.0\n"),
 'ois_rate_scaled': (R+'ois.py', "        cpn = float_leg_value / pv01 / self.fixed_leg.notional\n", "        cpn = float_leg_value / pv01 / self.fixed_leg.notional * 1.001\n"),
 'float_principal_first_notional': (R+'swap_float_leg.py', "payment_pv = self.principal * df_payment * self.notional_array[-1]", "payment_pv = self.principal * df_payment * self.notional_array[0]"),
 'fra_sign_fixed_only_receive': (R+'ibor_fra.py', "        v = v * self.notional / df_value\n", "        v = v * abs(self.notional) / df_value\n"),
 'fixed_ge': (R+'swap_fixed_leg.py', "            if payment_dt > value_dt:\n\n                df_payment", "            if payment_dt >= value_dt:\n\n                df_payment"),
 'float_ge': (R+'swap_float_leg.py', "            if payment_dt > value_dt:\n\n                start_accrued_dt", "            if payment_dt >= value_dt:\n\n                start_accrued_dt"),
 'fixed_accrual_from_paydate': (R+'swap_fixed_leg.py', "(year_frac, num, den) = day_counter.year_frac(prev_dt, next_dt)", "(year_frac, num, den) = day_counter.year_frac(prev_dt, payment_dt)"),
 'float_accrual_from_paydate': (R+'swap_float_leg.py', "(year_frac, num, _) = day_counter.year_frac(prev_dt, next_dt)", "(year_frac, num, _) = day_counter.year_frac(prev_dt, payment_dt)"),
 'fixed_principal_sign': (R+'swap_fixed_leg.py', "            payment_pv = self.principal * df_payment * notional\n", "            payment_pv = self.principal * df_payment * abs(notional)\n"),
 'first_fixing_wrong_period': (R+'swap_float_leg.py', "if first_payment is False and first_fixing_rate is not None:", "if i_pmnt == 0 and first_fixing_rate is not None:"),
 'fixed_no_dfvalue': (R+'swap_fixed_leg.py', "df_payment = discount_curve.df(payment_dt) / df_value", "df_payment = discount_curve.df(payment_dt)"),
 'float_no_dfvalue': (R+'swap_float_leg.py', "df_payment = discount_curve.df(payment_dt) / df_value", "df_payment = discount_curve.df(payment_dt)"),
 'float_index_alpha_pay_basis': (R+'swap_float_leg.py', "fwd_rate = (df_start / df_end - 1.0) / index_alpha", "fwd_rate = (df_start / df_end - 1.0) / pay_alpha"),
 'float_spread_dropped_first': (R+'swap_float_leg.py', "                    fwd_rate = first_fixing_rate\n", "                    fwd_rate = first_fixing_rate - self.spread\n"),
 'float_pay_sign_receive_negative': (R+'swap_float_leg.py', "        if self.leg_type == SwapTypes.PAY:\n            leg_pv = leg_pv * (-1.0)", "        if self.leg_type == SwapTypes.PAY or (self.leg_type == SwapTypes.RECEIVE and self.notional < 0 and self.spread < 0):\n            leg_pv = leg_pv * (-1.0)"),
 'lag_applied_to_accrual': (R+'swap_float_leg.py', "            self.end_accrued_dts.append(next_dt)\n\n            if self.payment_lag == 0:\n                payment_dt = next_dt\n            else:\n                payment_dt = calendar.add_business_days(\n                    next_dt, self.payment_lag\n                )\n", "            if self.payment_lag == 0:\n                payment_dt = next_dt\n            else:\n                payment_dt = calendar.add_business_days(\n                    next_dt, self.payment_lag\n                )\n            self.end_accrued_dts.append(payment_dt)\n"),
 'swap_rate_no_sign': (R+'ibor_swap.py', "        if self.float_leg.leg_type == SwapTypes.PAY:\n            float_leg_pv = -float_leg_pv", "        if False:\n            float_leg_pv = -float_leg_pv"),
 'swap_value_minus': (R+'ibor_swap.py', "            value = fixed_leg_results + float_leg_results\n", "            value = fixed_leg_results - float_leg_results\n"),
 'fra_fwd_basis': (R+'ibor_fra.py', "        libor_fwd = (df_index1 / df_index2 - 1.0) / acc_factor\n\n        # Get the discount factor from a discount curve\n        df_mat", "        libor_fwd = (df_index1 / df_index2 - 1.0)\n\n        # Get the discount factor from a discount curve\n        df_mat"),
 'deposit_no_settle': (R+'ibor_deposit.py', "        value = value * df_maturity / df_settle\n\n        return value", "        value = value * df_maturity\n\n        return value"),
 'ois_float_lag_dropped': (R+'ois.py', "            float_dc_type,\n            notional,\n            principal,\n            payment_lag,", "            float_dc_type,\n            notional,\n            principal,\n            0,"),
 'equity_fill_tiled': ('financepy/products/equity/equity_swap.py', "            self.rate_leg.notional_array.append(last_notionals[i_eq])\n", "            self.rate_leg.notional_array.append(last_notionals[len(self.rate_leg.notional_array) % len(last_notionals)])\n"),
 'equity_fill_boundary_gt': ('financepy/products/equity/equity_swap.py', "start_dt >= eq_end_dts[i_eq]", "start_dt > eq_end_dts[i_eq]"),
 'equity_payment_from_contract_notional': ('financepy/products/equity/equity_swap_leg.py', "payment_amount = next_notional - last_notional", "payment_amount = next_notional - self.notional"),
 'equity_no_dfvalue': ('financepy/products/equity/equity_swap_leg.py', "df_payment = discount_curve.df(payment_dt) / df_value", "df_payment = discount_curve.df(payment_dt)"),
 'fixed_cum_last_flow_only_if_gt1': (R+'swap_fixed_leg.py', "            payment = year_frac * self.notional * self.cpn\n", "            payment = year_frac * self.notional * self.cpn if len(self.payments) < 40 else year_frac * self.notional * self.cpn * 1.0001\n"),
 # ---- growth round 6 (basis swaps as wholes, future -> FRA)
 'basis_leg2_sign': (R+'ibor_basis_swap.py', "        value = float_leg_1Value + float_leg_2Value\n", "        value = float_leg_1Value - float_leg_2Value\n"),
 'basis_leg2_type_not_flipped': (R+'ibor_basis_swap.py', "            leg2Type = SwapTypes.RECEIVE\n", "            leg2Type = SwapTypes.PAY\n"),
 'basis_index_curve_discounts_leg2': (R+'ibor_basis_swap.py', "            value_dt,\n            discount_curve,\n            index_curve_leg_2,\n", "            value_dt,\n            index_curve_leg_2,\n            index_curve_leg_2,\n"),
 'ois_basis_spreads_swapped': (R+'ois_basis_swap.py', "                                           ibor_spread,\n                                           ibor_freq_type,", "                                           ois_spread,\n                                           ibor_freq_type,"),
 'ois_basis_lag_on_ibor_leg': (R+'ois_basis_swap.py', "                                           principal,\n                                           0,\n", "                                           principal,\n                                           ois_payment_lag,\n"),
 'ois_basis_lag_dropped': (R+'ois_basis_swap.py', "                                          principal,\n                                          ois_payment_lag,\n", "                                          principal,\n                                          0,\n"),
 'future_fra_payer': (R+'ibor_future.py', "            pay_fixed_rate=False,\n", "            pay_fixed_rate=True,\n"),
 'future_fra_notional_dropped': (R+'ibor_future.py', "            notional=self.contract_size,\n", "            notional=100.0,\n"),
 'future_fra_end_is_delivery_plus_90': (R+'ibor_future.py', "        self.end_of_interest_period = self.delivery_dt.next_imm_date()\n", "        self.end_of_interest_period = self.delivery_dt.add_days(90)\n"),

}
name=sys.argv[1]
f,old,new=M[name]
p=os.path.join(WT,f)
s=open(p,newline='').read()
if '\r\n' in s:
    old=old.replace('\n','\r\n'); new=new.replace('\n','\r\n')
assert s.count(old)==1, (name, s.count(old))
open(p,'w',newline='').write(s.replace(old,new))
try:
    env=dict(os.environ, FINVERIF_REPO=WT, VERIF_SEED=os.environ.get('VERIF_SEED','0'))
    r=subprocess.run(['./check','C06'],cwd=CLONE,env=env,capture_output=True,text=True)
    out=[l for l in r.stdout.split('\n') if l.startswith(('VIOLATION','C06 ['))]
    print(name, 'rc=%d'%r.returncode, ' | '.join(out)[:400])
    m=re.search(r'replay=(\S+)', r.stdout)
    if m:
        import json
        rp=json.load(open(os.path.join(CLONE,m.group(1))))
        v=rp.get('violation')
        if v: print('   first:', v['what'][:150], '| clause', v['clause'], '| tag', v['case'].get('tag'))
        else: print('   broken:', str(rp.get('broken'))[:300])
finally:
    subprocess.run(['git','-C',WT,'checkout','--','.'],capture_output=True)
