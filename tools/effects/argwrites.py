"""In-place ARGUMENT mutation extractor (C18 clause "valuation leaves its inputs unchanged"; growth round 6).

Syntactic and conservative.  For EVERY `def` under financepy/ (functions, methods, nested functions, @njit kernels) it
computes which PARAMETERS (other than a method's `self` / `cls`) may be mutated in place by the body:

  setitem      `p[...] = e`, `p[...] op= e`, `del p[...]`          (also through attributes: `p.a[...] = e`)
  augassign    `p op= e` on the bare name (in place for an ndarray / list; a rebind for a scalar - cannot be told apart
               syntactically, so it is reported and the scalar cases are excused BY NAME in Props/C18g with the reason)
  setattr      `p.attr = e`, `p.attr op= e`, `del p.attr`
  call:<m>     `p.m(...)` with m in MUTATORS (append, extend, insert, pop, sort, reverse, clear, fill, resize, put, itemset, ...)

where p is a parameter or a local ALIAS of one.  Aliases (flow-sensitive, branches merged by union, loop bodies run twice):
  strong  `x = p`, `x = np.asarray(p)` / asanyarray / atleast_1d/2d/3d / ascontiguousarray / asfortranarray / ravel / reshape /
          squeeze / transpose / swapaxes / np.array(p, copy=False), `x = p.view()` / .reshape() / .ravel() / .squeeze() /
          .transpose() / .T / .swapaxes(), `x = p[a:b]` (a slice anywhere in the index), `x = a if c else b`, `x = a or b`
  elem    `x = p[i]` (row of a 2-d array / element of a list of objects), `x = p.attr`, `for x in p`, `for i, x in enumerate(p)` /
          zip(...): writes THROUGH x (setitem, setattr, mutator call) count, `x op= e` does not (x may be a scalar copy)
  none    everything else: `np.array(p)`, `p.copy()`, `copy(p)`, `deepcopy(p)`, `list(p)`, arithmetic, other calls.
A name re-bound to a non-alias (`p = np.array(p)`) stops being the parameter from there on.

Not interprocedural: passing p on to another function is that function's entry in the table (every def has one).
Nothing is imported from financepy; only the text of the working tree is read."""
from __future__ import annotations

import ast
import os
import re

MUTATORS = {'append', 'extend', 'insert', 'pop', 'sort', 'reverse', 'clear', 'fill', 'resize', 'put', 'itemset', 'remove',
            'update', 'setdefault', 'popitem', 'setflags', 'partition', 'byteswap', 'setfield', 'add', 'discard'}
VIEW_FUNCS = {'asarray', 'asanyarray', 'atleast_1d', 'atleast_2d', 'atleast_3d', 'ascontiguousarray', 'asfortranarray',
              'ravel', 'reshape', 'squeeze', 'transpose', 'swapaxes', 'expand_dims', 'broadcast_to', 'flipud', 'fliplr', 'flip',
              'diagonal', 'moveaxis', 'rollaxis'}
VIEW_METHODS = {'view', 'reshape', 'ravel', 'squeeze', 'transpose', 'swapaxes', 'diagonal'}
DEF_RE = re.compile(r'^[ \t]*(?:async[ \t]+)?def[ \t]+[A-Za-z_][A-Za-z0-9_]*[ \t]*\(', re.M)


def files(repo):
    root = os.path.join(repo, 'financepy')
    res = []
    for dp, dns, fns in os.walk(root):
        dns.sort()
        for fn in sorted(fns):
            if fn.endswith('.py'):
                res.append(os.path.relpath(os.path.join(dp, fn), repo))
    return sorted(res)


def textual_defs(text):
    """number of lines that open a `def` - plain text, no parser (the harness repeats this count on its own)"""
    return len(DEF_RE.findall(text))


def _has_slice(idx):
    if isinstance(idx, ast.Slice):
        return True
    if isinstance(idx, ast.Constant) and idx.value is Ellipsis:
        return True
    if isinstance(idx, ast.Tuple):
        return any(_has_slice(e) for e in idx.elts)
    return False


def _weaken(rs):
    return {(p, 'elem') for p, _ in rs}


class FnScan:
    def __init__(self, fid, fn, is_method, outer_env=None):
        self.fid = fid
        self.fn = fn
        self.writes = []            # (line, param, kind, via_alias)
        self.nested = []            # (FunctionDef, env at definition)
        a = fn.args
        names = [x.arg for x in a.posonlyargs + a.args]
        if is_method and names and not any(isinstance(d, ast.Name) and d.id == 'staticmethod' for d in fn.decorator_list):
            names = names[1:]
        names += [x.arg for x in a.kwonlyargs]
        if a.vararg:
            names.append(a.vararg.arg)
        if a.kwarg:
            names.append(a.kwarg.arg)
        self.params = names
        env = {}
        for k, v in (outer_env or {}).items():
            env[k] = set(v)
        allargs = [x.arg for x in a.posonlyargs + a.args + a.kwonlyargs]
        for n in allargs:
            env.pop(n, None)
        for n in names:
            env[n] = {(n, 'strong')}
        self.env = env

    def add_nested(self, fn, env):
        """a nested def: recorded once (loop bodies are walked twice), with the union of the environments seen"""
        for i, (g, e) in enumerate(self.nested):
            if g is fn:
                self.nested[i] = (g, self.merge(e, env))
                return
        self.nested.append((fn, {k: set(v) for k, v in env.items()}))

    # ---- alias roots of an expression
    def roots(self, e, env):
        if isinstance(e, ast.Name):
            return set(env.get(e.id, ()))
        if isinstance(e, ast.Starred):
            return self.roots(e.value, env)
        if isinstance(e, ast.NamedExpr):
            return self.roots(e.value, env)
        if isinstance(e, ast.IfExp):
            return self.roots(e.body, env) | self.roots(e.orelse, env)
        if isinstance(e, ast.BoolOp):
            out = set()
            for v in e.values:
                out |= self.roots(v, env)
            return out
        if isinstance(e, ast.Subscript):
            r = self.roots(e.value, env)
            return r if _has_slice(e.slice) else _weaken(r)
        if isinstance(e, ast.Attribute):
            r = self.roots(e.value, env)
            if e.attr in ('T', 'flat', 'real', 'imag'):
                return r
            return _weaken(r)
        if isinstance(e, ast.Call):
            f = e.func
            if isinstance(f, ast.Attribute):
                if f.attr in VIEW_METHODS:
                    r = self.roots(f.value, env)
                    if r:
                        return r
                if f.attr in VIEW_FUNCS and e.args:
                    return self.roots(e.args[0], env)
                if f.attr == 'array' and e.args and any(
                        k.arg == 'copy' and isinstance(k.value, ast.Constant) and k.value.value in (False, None) for k in e.keywords):
                    return self.roots(e.args[0], env)
            if isinstance(f, ast.Name) and f.id in VIEW_FUNCS and e.args:
                return self.roots(e.args[0], env)
            return set()
        return set()

    # ---- the base of a store target: strip subscripts / attributes down to the name; returns (roots, through)
    def base(self, t, env):
        through = False
        while isinstance(t, (ast.Subscript, ast.Attribute)):
            t = t.value
            through = True
        if isinstance(t, ast.Call):      # p.view()[...] = …, np.asarray(p)[...] = …
            return self.roots(t, env), t
        if isinstance(t, ast.Name):
            return set(env.get(t.id, ())), t
        return set(), t

    def record(self, line, rs, kind, name_node):
        for p, strength in sorted(rs):
            direct = isinstance(name_node, ast.Name) and name_node.id == p and strength == 'strong'
            w = (line, p, kind, not direct)
            if w not in self.writes:
                self.writes.append(w)

    def store(self, t, env, aug, line):
        """a store into target t (Assign / AugAssign / For / With / Delete target)"""
        if isinstance(t, (ast.Tuple, ast.List)):
            for e in t.elts:
                self.store(e, env, aug, line)
        elif isinstance(t, ast.Starred):
            self.store(t.value, env, aug, line)
        elif isinstance(t, ast.Subscript):
            rs, nm = self.base(t, env)
            self.record(line, rs, 'setitem', nm)
        elif isinstance(t, ast.Attribute):
            rs, nm = self.base(t, env)
            self.record(line, rs, 'setattr', nm)
        elif isinstance(t, ast.Name) and aug:
            rs = {r for r in env.get(t.id, ()) if r[1] == 'strong'}
            self.record(line, rs, 'augassign', t)

    def calls(self, node, env):
        """mutator calls anywhere inside an expression / statement header"""
        for c in ast.walk(node):
            if isinstance(c, ast.Call) and isinstance(c.func, ast.Attribute) and c.func.attr in MUTATORS:
                rs, nm = self.base(c.func.value, env)
                self.record(c.lineno, rs, 'call:' + c.func.attr, nm)
            if isinstance(c, ast.NamedExpr) and isinstance(c.target, ast.Name):
                env[c.target.id] = self.roots(c.value, env)

    def bind(self, t, rs, env):
        if isinstance(t, ast.Name):
            env[t.id] = set(rs)
        elif isinstance(t, (ast.Tuple, ast.List)):
            for e in t.elts:
                self.bind(e, _weaken(rs), env)
        elif isinstance(t, ast.Starred):
            self.bind(t.value, rs, env)

    @staticmethod
    def merge(a, b):
        out = {}
        for k in set(a) | set(b):
            out[k] = set(a.get(k, ())) | set(b.get(k, ()))
        return out

    def block(self, stmts, env):
        for s in stmts:
            env = self.stmt(s, env)
        return env

    def stmt(self, s, env):
        if isinstance(s, (ast.FunctionDef, ast.AsyncFunctionDef)):
            self.add_nested(s, env)
            env[s.name] = set()
            return env
        if isinstance(s, ast.ClassDef):
            for b in s.body:
                if isinstance(b, (ast.FunctionDef, ast.AsyncFunctionDef)):
                    self.add_nested(b, env)
            return env
        if isinstance(s, ast.Assign):
            self.calls(s.value, env)
            for t in s.targets:
                self.store(t, env, False, s.lineno)
            for t in s.targets:
                if isinstance(t, (ast.Tuple, ast.List)) and isinstance(s.value, (ast.Tuple, ast.List)) and len(t.elts) == len(s.value.elts):
                    rss = [self.roots(v, env) for v in s.value.elts]
                    for tt, rs in zip(t.elts, rss):
                        self.bind(tt, rs, env)
                else:
                    self.bind(t, self.roots(s.value, env), env)
            return env
        if isinstance(s, ast.AnnAssign):
            if s.value is not None:
                self.calls(s.value, env)
                self.store(s.target, env, False, s.lineno)
                self.bind(s.target, self.roots(s.value, env), env)
            return env
        if isinstance(s, ast.AugAssign):
            self.calls(s.value, env)
            self.store(s.target, env, True, s.lineno)
            return env
        if isinstance(s, ast.Delete):
            for t in s.targets:
                if isinstance(t, (ast.Subscript, ast.Attribute)):
                    self.store(t, env, False, s.lineno)
                elif isinstance(t, ast.Name):
                    env[t.id] = set()
            return env
        if isinstance(s, (ast.For, ast.AsyncFor)):
            self.calls(s.iter, env)
            it = s.iter
            if isinstance(it, ast.Call) and isinstance(it.func, ast.Name) and it.func.id in ('enumerate', 'zip', 'reversed', 'sorted', 'iter'):
                rs = set()
                for a in it.args:
                    rs |= self.roots(a, env)
            else:
                rs = self.roots(it, env)
            for _ in range(2):
                e0 = {k: set(v) for k, v in env.items()}
                self.store(s.target, e0, False, s.lineno)
                self.bind(s.target, _weaken(rs), e0)
                e1 = self.block(s.body, e0)
                env = self.merge(env, e1)
            env = self.merge(env, self.block(s.orelse, {k: set(v) for k, v in env.items()}))
            return env
        if isinstance(s, ast.While):
            self.calls(s.test, env)
            for _ in range(2):
                e1 = self.block(s.body, {k: set(v) for k, v in env.items()})
                env = self.merge(env, e1)
            env = self.merge(env, self.block(s.orelse, {k: set(v) for k, v in env.items()}))
            return env
        if isinstance(s, ast.If):
            self.calls(s.test, env)
            a = self.block(s.body, {k: set(v) for k, v in env.items()})
            b = self.block(s.orelse, {k: set(v) for k, v in env.items()})
            return self.merge(a, b)
        if isinstance(s, (ast.With, ast.AsyncWith)):
            for it in s.items:
                self.calls(it.context_expr, env)
                if it.optional_vars is not None:
                    self.store(it.optional_vars, env, False, s.lineno)
                    self.bind(it.optional_vars, set(), env)
            return self.block(s.body, env)
        if isinstance(s, ast.Try) or s.__class__.__name__ == 'TryStar':
            e0 = {k: set(v) for k, v in env.items()}
            e1 = self.block(s.body, env)
            acc = self.merge(e0, e1)
            for h in s.handlers:
                acc = self.merge(acc, self.block(h.body, {k: set(v) for k, v in acc.items()}))
            acc = self.merge(acc, self.block(s.orelse, {k: set(v) for k, v in acc.items()}))
            return self.block(s.finalbody, acc)
        if isinstance(s, ast.Match):
            self.calls(s.subject, env)
            acc = {k: set(v) for k, v in env.items()}
            for c in s.cases:
                acc = self.merge(acc, self.block(c.body, {k: set(v) for k, v in env.items()}))
            return acc
        # Expr, Return, Raise, Assert, Global, Import, Pass, ...
        self.calls(s, env)
        return env

    def run(self):
        self.block(self.fn.body, self.env)
        return self


def scan_file(rel, text):
    """[(fid, line, params, writes)] for every def of one file, in source order"""
    tree = ast.parse(text)
    out = []

    def visit_fn(fn, qual, is_method, outer_env):
        sc = FnScan(qual, fn, is_method, outer_env).run()
        out.append((qual, fn.lineno, sc.params, sc.writes))
        for sub, env in sc.nested:
            visit_fn(sub, qual + '.' + sub.name, False, env)

    def visit_body(body, prefix, in_class):
        for s in body:
            if isinstance(s, (ast.FunctionDef, ast.AsyncFunctionDef)):
                visit_fn(s, prefix + s.name, in_class, None)
            elif isinstance(s, ast.ClassDef):
                visit_body(s.body, prefix + s.name + '.', True)
            elif isinstance(s, (ast.If, ast.Try, ast.With, ast.For, ast.While)):
                for fld in ('body', 'orelse', 'finalbody'):
                    visit_body(getattr(s, fld, []) or [], prefix, in_class)
                for h in getattr(s, 'handlers', []) or []:
                    visit_body(h.body, prefix, in_class)

    visit_body(tree.body, '', False)
    out.sort(key=lambda r: r[1])
    return out, sum(isinstance(n, (ast.FunctionDef, ast.AsyncFunctionDef)) for n in ast.walk(tree))


def analyse(repo):
    """{'files': [(rel, scanned, ast_defs, textual_defs)], 'writes': [(file, fid, line, param, kind, via_alias)]}"""
    fcounts, writes = [], []
    for rel in files(repo):
        with open(os.path.join(repo, rel), encoding='utf-8') as f:
            text = f.read()
        fns, ndefs = scan_file(rel, text)
        fcounts.append((rel, len(fns), ndefs, textual_defs(text)))
        for fid, _, _, ws in fns:
            for line, p, kind, via in ws:
                writes.append((rel, fid, line, p, kind, via))
    return {'files': fcounts, 'writes': writes}


if __name__ == '__main__':
    import sys
    res = analyse(sys.argv[1] if len(sys.argv) > 1 else os.environ.get('FINVERIF_REPO', '/repo'))
    bad = [r for r in res['files'] if not (r[1] == r[2] == r[3])]
    print('files', len(res['files']), 'defs', sum(r[1] for r in res['files']), 'count mismatches', bad)
    for w in res['writes']:
        print(w)
