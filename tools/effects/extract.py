#!/usr/bin/env python3
"""Effect extractor for C18 (no hidden state / history independence).

For every method of the anchored classes this computes, from the *text* of /repo's working tree
(Python `ast`; nothing is imported):

  rbw     attributes of `self` that MAY be read before they are written in the same call
          (flow-sensitive: an attribute assigned on every path before a read is not reported;
          interprocedural through `self.m(...)`, `super().m(...)` and inherited methods)
  writes  attributes of `self` that MAY be written (assignment, augmented assignment, `del`,
          item assignment `self.a[i] = …`, in-place container calls `self.a.append(…)`, writes through a
          local alias `x = self.a; x.append(…)`, attribute writes below `self.a.b = …`)
  must    attributes of `self` written on EVERY normally-returning path
  pwrites writes through parameters: `p.attr = …`, `p.attr += …`, `p[i] = …`, `p.append/insert/pop/…(…)`,
          `p.attr.append(…)`, also through local aliases and through `self.m(p)` / module functions
  gwrites module globals assigned (declared `global`), transitively through module-level functions,
          constructors and methods called by name — names are module-qualified (`date.g_end_year`)
  greads  module globals READ that some function assigns (mutable globals), transitively

It is intra-class interprocedural: a call `other.method()` on a parameter or on an object held in an
attribute is NOT followed (its effects on that other object are found only by the history exploration
of harness/props/c18.py) — except for constructors / module functions / static calls resolved by name
through the file's imports, whose GLOBAL effects are included (this is how every `Date(...)`
construction shows up as a possible write of the date table).

Inter-class (growth round 7b, `call_graph`): the recorded `pcalls` are resolved to the class of the parameter / attribute —
annotation, default value, `isinstance` tests, naming convention table — and emitted as edges `cls.meth -> targetCls.targetMeth`
(`res['call_graph']`); the per-method summaries above are unchanged by it.

CLI:  extract.py [--json]     prints the summaries for the anchored classes.
"""
from __future__ import annotations

import ast
import json
import os
import re
import sys

REPO = os.environ.get('FINVERIF_REPO', '/repo')

ANCHORS = [
    ('financepy/models/black_scholes.py', 'BlackScholes'),
    ('financepy/models/black.py', 'Black'),
    ('financepy/utils/date.py', 'Date'),
    ('financepy/utils/calendar.py', 'Calendar'),
    ('financepy/utils/schedule.py', 'Schedule'),
    ('financepy/products/bonds/bond.py', 'Bond'),
    ('financepy/products/bonds/bond_callable.py', 'BondEmbeddedOption'),
    ('financepy/products/rates/swap_fixed_leg.py', 'SwapFixedLeg'),
    ('financepy/products/rates/swap_float_leg.py', 'SwapFloatLeg'),
    ('financepy/products/rates/ibor_swaption.py', 'IborSwaption'),
    ('financepy/products/rates/ibor_cap_floor.py', 'IborCapFloor'),
    ('financepy/products/rates/ibor_single_curve.py', 'IborSingleCurve'),
    ('financepy/products/equity/equity_vanilla_option.py', 'EquityVanillaOption'),
    ('financepy/products/fx/fx_vanilla_option.py', 'FXVanillaOption'),
    ('financepy/models/hw_tree.py', 'HWTree'),
    ('financepy/models/bk_tree.py', 'BKTree'),
    ('financepy/models/bdt_tree.py', 'BDTTree'),
]
# not anchored by the property, but they are the products through which the anchored state is shared
# (the American option that shares a BlackScholes model; the swap that owns the two legs)
AUXILIARY = [
    ('financepy/products/equity/equity_american_option.py', 'EquityAmericanOption'),
    ('financepy/products/rates/ibor_swap.py', 'IborSwap'),
]
# not anchored either: the classes OUTSIDE the anchors in which the seeded caches of the earlier rounds landed
# (bond option, FX / equity exotics, credit, the cap/floor and swaption models, deposits and FRAs, the plain curves).
# They are emitted as `extendedClasses` (never mixed into `classes`, so every statement about the anchored classes is
# unchanged) and judged by Props/C18c with their own exact exception list.
EXTENDED = [
    ('financepy/products/bonds/bond_option.py', 'BondOption'),
    ('financepy/products/fx/fx_forward.py', 'FXForward'),
    ('financepy/products/fx/fx_barrier_option.py', 'FXBarrierOption'),
    ('financepy/products/fx/fx_digital_option.py', 'FXDigitalOption'),
    ('financepy/products/fx/fx_one_touch_option.py', 'FXOneTouchOption'),
    ('financepy/products/equity/equity_compound_option.py', 'EquityCompoundOption'),
    ('financepy/products/equity/equity_chooser_option.py', 'EquityChooserOption'),
    ('financepy/products/equity/equity_barrier_option.py', 'EquityBarrierOption'),
    ('financepy/products/equity/equity_digital_option.py', 'EquityDigitalOption'),
    ('financepy/products/equity/equity_one_touch_option.py', 'EquityOneTouchOption'),
    ('financepy/products/credit/cds.py', 'CDS'),
    ('financepy/products/credit/cds_curve.py', 'CDSCurve'),
    ('financepy/products/credit/cds_basket.py', 'CDSBasket'),
    ('financepy/models/sabr.py', 'SABR'),
    ('financepy/models/sabr_shifted.py', 'SABRShifted'),
    ('financepy/models/black_shifted.py', 'BlackShifted'),
    ('financepy/models/bachelier.py', 'Bachelier'),
    ('financepy/models/heston.py', 'Heston'),
    ('financepy/products/rates/ibor_deposit.py', 'IborDeposit'),
    ('financepy/products/rates/ibor_fra.py', 'IborFRA'),
    ('financepy/market/curves/discount_curve.py', 'DiscountCurve'),
    ('financepy/market/curves/discount_curve_flat.py', 'DiscountCurveFlat'),
]
# module-level functions reported as the pseudo-class `<module>` of these files
ANCHOR_MODULES = ['financepy/utils/date.py']

MUTATORS = {'append', 'insert', 'extend', 'pop', 'remove', 'sort', 'reverse', 'clear', 'update', 'setdefault',
            'popitem', 'add', 'discard', 'fill', 'resize', 'put', 'itemset', 'setflags', 'partition'}


def is_public(name):
    return not name.startswith('_') or (name.startswith('__') and name.endswith('__'))


# ------------------------------------------------------------------------------------ modules
class Module:
    def __init__(self, rel):
        self.rel = rel
        self.short = os.path.basename(rel)[:-3]
        with open(os.path.join(REPO, rel), encoding='utf-8') as f:
            self.tree = ast.parse(f.read(), filename=rel)
        self.funcs = {}
        self.classes = {}
        self.globals_assigned = set()     # names assigned at module level
        self.imports = {}                 # local name -> (relpath, name)
        for st in self.tree.body:
            if isinstance(st, ast.FunctionDef):
                self.funcs[st.name] = st
            elif isinstance(st, ast.ClassDef):
                self.classes[st.name] = st
            elif isinstance(st, (ast.Assign, ast.AnnAssign, ast.AugAssign)):
                tg = st.targets if isinstance(st, ast.Assign) else [st.target]
                for t in tg:
                    if isinstance(t, ast.Name):
                        self.globals_assigned.add(t.id)
            elif isinstance(st, ast.ImportFrom):
                base = os.path.dirname(rel)
                for _ in range(max(st.level - 1, 0)):
                    base = os.path.dirname(base)
                if st.level == 0:
                    if not (st.module or '').startswith('financepy'):
                        continue
                    base = ''
                path = os.path.join(base, *(st.module or '').split('.')) + '.py'
                for a in st.names:
                    self.imports[a.asname or a.name] = (path, a.name)
        # globals that some function of this module assigns (declared `global`)
        self.mutable_globals = set()
        for node in ast.walk(self.tree):
            if isinstance(node, ast.Global):
                self.mutable_globals.update(node.names)


_MODS = {}


def module(rel):
    rel = os.path.normpath(rel)
    if rel not in _MODS:
        if not os.path.exists(os.path.join(REPO, rel)):
            _MODS[rel] = None
        else:
            _MODS[rel] = Module(rel)
    return _MODS[rel]


# ------------------------------------------------------------------------------------ summaries
class Summary:
    __slots__ = ('rbw', 'writes', 'must', 'pwrites', 'pcalls', 'gwrites', 'greads', 'params', 'text')

    def __init__(self, params=()):
        self.rbw = set()
        self.writes = set()
        self.must = set()
        self.pwrites = set()     # strings 'param:how'
        self.pcalls = set()      # 'param:method' / 'self.attr:method' — methods called ON a parameter / on an attribute-held object
        self.gwrites = set()
        self.greads = set()
        self.params = list(params)
        self.text = False        # builds text from values (str / repr / format / print): may depend on the print format

    def key(self):
        return (frozenset(self.rbw), frozenset(self.writes), frozenset(self.must), frozenset(self.pwrites), frozenset(self.pcalls),
                frozenset(self.gwrites), frozenset(self.greads), self.text)

    def as_dict(self):
        return {'rbw': sorted(self.rbw), 'writes': sorted(self.writes), 'must': sorted(self.must),
                'pwrites': sorted(self.pwrites), 'pcalls': sorted(self.pcalls), 'gwrites': sorted(self.gwrites), 'greads': sorted(self.greads), 'text': self.text}


class ClassInfo:
    """Method table of a class including inherited methods (nearest definition wins)."""

    def __init__(self, mod: Module, name: str):
        self.mod = mod
        self.name = name
        self.node = mod.classes[name]
        self.methods = {}       # name -> (Module, FunctionDef, owner class name)
        self.class_attrs = set()
        self.bases = []
        self._collect(mod, self.node, set())

    def _collect(self, mod, node, seen):
        if (mod.rel, node.name) in seen:
            return
        seen.add((mod.rel, node.name))
        for st in node.body:
            if isinstance(st, ast.FunctionDef) and st.name not in self.methods:
                self.methods[st.name] = (mod, st, node.name)
            elif isinstance(st, (ast.Assign, ast.AnnAssign)):
                tg = st.targets if isinstance(st, ast.Assign) else [st.target]
                for t in tg:
                    if isinstance(t, ast.Name):
                        self.class_attrs.add(t.id)
        for b in node.bases:
            if isinstance(b, ast.Name):
                if b.id in mod.classes:
                    self.bases.append(b.id)
                    self._collect(mod, mod.classes[b.id], seen)
                elif b.id in mod.imports:
                    rel, nm = mod.imports[b.id]
                    bm = module(rel)
                    if bm is not None and nm in bm.classes:
                        self.bases.append(nm)
                        self._collect(bm, bm.classes[nm], seen)


_CLASSES = {}


def class_info(rel, name):
    k = (os.path.normpath(rel), name)
    if k not in _CLASSES:
        m = module(rel)
        _CLASSES[k] = ClassInfo(m, name) if m is not None and name in m.classes else None
    return _CLASSES[k]


# ------------------------------------------------------------------------------------ the analysis
class Analyzer:
    """Fixed point over the summaries of all functions / methods reachable from the anchors."""

    def __init__(self):
        self.summ = {}          # key -> Summary     key = ('f', rel, name) | ('m', rel, cls, name)
        self.todo = []
        self.changed = False

    # ---- lookup (creates an empty summary on first use and schedules the body)
    def get(self, key):
        if key not in self.summ:
            node = self.node_of(key)
            params = [a.arg for a in node.args.posonlyargs + node.args.args + node.args.kwonlyargs]
            if node.args.vararg:
                params.append(node.args.vararg.arg)
            if node.args.kwarg:
                params.append(node.args.kwarg.arg)
            self.summ[key] = Summary(params)
            self.todo.append(key)
            self.changed = True
        return self.summ[key]

    def node_of(self, key):
        if key[0] == 'f':
            return module(key[1]).funcs[key[2]]
        ci = class_info(key[1], key[2])
        return ci.methods[key[3]][1]

    def run(self, roots):
        for k in roots:
            self.get(k)
        for _ in range(30):
            self.changed = False
            for k in list(self.summ):
                new = FuncWalk(self, k).result()
                if new.key() != self.summ[k].key():
                    new.params = self.summ[k].params
                    self.summ[k] = new
                    self.changed = True
            if not self.changed:
                return
        raise RuntimeError('effect analysis did not reach a fixed point')


class FuncWalk:
    def __init__(self, an: Analyzer, key):
        self.an = an
        self.key = key
        self.node = an.node_of(key)
        if key[0] == 'm':
            self.ci = class_info(key[1], key[2])
            self.mod = self.ci.methods[key[3]][0]     # module where the body is written
            self.owner = self.ci.methods[key[3]][2]
        else:
            self.ci = None
            self.mod = module(key[1])
            self.owner = None
        a = self.node.args
        names = [x.arg for x in a.posonlyargs + a.args + a.kwonlyargs]
        if a.vararg:
            names.append(a.vararg.arg)
        if a.kwarg:
            names.append(a.kwarg.arg)
        is_static = any(isinstance(d, ast.Name) and d.id == 'staticmethod' for d in self.node.decorator_list)
        self.selfname = names[0] if (self.ci is not None and names and not is_static) else None
        self.params = [n for n in names if n != self.selfname]
        self.out = Summary(names)
        self.globals_decl = set()
        self.locals = set()
        for n in ast.walk(self.node):
            if isinstance(n, ast.Global):
                self.globals_decl.update(n.names)
        for n in ast.walk(self.node):
            if isinstance(n, ast.Name) and isinstance(n.ctx, (ast.Store, ast.Del)) and n.id not in self.globals_decl:
                self.locals.add(n.id)
        # flow-sensitive may-alias environment of local names: name -> set of roots ('self', attr) | ('param', p)
        self.alias = {}
        self.quiet = False
        self.break_defs = []
        self.exit_defs = []     # `defined` sets at normal exits
        d = self.block(self.node.body, frozenset())
        if d is not None:
            self.exit_defs.append(d)
        if self.exit_defs:
            m = set(self.exit_defs[0])
            for e in self.exit_defs[1:]:
                m &= e
            self.out.must = m
        else:
            self.out.must = set()      # never returns normally

    def result(self):
        return self.out

    # ---- roots of an expression: which caller-visible object may it denote (or be part of)?
    def roots(self, e):
        if isinstance(e, ast.Name):
            if e.id == self.selfname:
                return {('selfobj',)}
            return set(self.cur(e.id))
        if isinstance(e, ast.Attribute):
            r = set()
            for x in self.roots(e.value):
                if x == ('selfobj',):
                    r.add(('self', e.attr))
                else:
                    r.add(x)         # part of an object rooted at self.attr / a parameter
            return r
        if isinstance(e, ast.Subscript):
            return {x for x in self.roots(e.value) if x != ('selfobj',)}
        if isinstance(e, ast.IfExp):
            return self.roots(e.body) | self.roots(e.orelse)
        return set()

    @staticmethod
    def none_test(t):
        """(name that is None in the body, name that is None in the else branch)"""
        if isinstance(t, ast.Compare) and len(t.ops) == 1 and isinstance(t.left, ast.Name) and \
                isinstance(t.comparators[0], ast.Constant) and t.comparators[0].value is None:
            if isinstance(t.ops[0], ast.Is):
                return t.left.id, None
            if isinstance(t.ops[0], ast.IsNot):
                return None, t.left.id
        return None, None

    def cur(self, name):
        if name in self.alias:
            return self.alias[name]
        if name in self.params:
            return {('param', name)}
        return set()

    def merge_env(self, envs):
        keys = set()
        for en in envs:
            keys |= set(en)
        out = {}
        for k in keys:
            r = set()
            for en in envs:
                if k in en:
                    r |= en[k]
                elif k in self.params:
                    r.add(('param', k))
            out[k] = r
        return out

    def bind(self, t, value_roots):
        if isinstance(t, ast.Name):
            self.alias[t.id] = set(value_roots)
        elif isinstance(t, (ast.Tuple, ast.List)):
            for x in t.elts:
                self.bind(x, value_roots)
        elif isinstance(t, ast.Starred):
            self.bind(t.value, value_roots)

    def mutate(self, e, how, defined):
        """the object denoted by expression `e` is modified in place"""
        for x in self.roots(e):
            if x[0] == 'self':
                self.out.writes.add(x[1])
            elif x[0] == 'param':
                self.out.pwrites.add(f'{x[1]}:{how}')

    # ---- statements; returns the `defined` set after the block, or None if it never falls through
    def block(self, stmts, defined):
        for st in stmts:
            defined = self.stmt(st, defined)
            if defined is None:
                return None
        return defined

    def stmt(self, st, defined):
        if isinstance(st, (ast.Expr,)):
            return self.expr(st.value, defined)
        if isinstance(st, ast.Assign):
            defined = self.expr(st.value, defined)
            vr = self.roots(st.value)
            if isinstance(st.value, (ast.Tuple, ast.List)):
                for x in st.value.elts:
                    vr |= self.roots(x)
            for t in st.targets:
                defined = self.target(t, defined)
                self.bind(t, vr)
            return defined
        if isinstance(st, ast.AnnAssign):
            if st.value is not None:
                defined = self.expr(st.value, defined)
                vr = self.roots(st.value)
                defined = self.target(st.target, defined)
                self.bind(st.target, vr)
            return defined
        if isinstance(st, ast.AugAssign):
            defined = self.expr(st.value, defined)
            # read of the target, then write
            load = ast.copy_location(_as_load(st.target), st.target)
            defined = self.expr(load, defined)
            return self.target(st.target, defined, aug=True)
        if isinstance(st, ast.Delete):
            for t in st.targets:
                defined = self.target(t, defined)
            return defined
        if isinstance(st, ast.Return):
            if st.value is not None:
                defined = self.expr(st.value, defined)
            self.exit_defs.append(defined)
            return None
        if isinstance(st, ast.Raise):
            if st.exc is not None:
                saved, self.quiet = self.quiet, True      # text of an error message is not a result
                self.expr(st.exc, defined)
                self.quiet = saved
            return None
        if isinstance(st, ast.If):
            defined = self.expr(st.test, defined)
            env0 = dict(self.alias)
            # `if x is None:` / `if x is not None:` — in the branch where x is None it denotes no caller object
            none_body, none_else = self.none_test(st.test)
            if none_body:
                self.alias[none_body] = set()
            a = self.block(st.body, defined)
            enva = self.alias
            self.alias = dict(env0)
            if none_else:
                self.alias[none_else] = set()
            b = self.block(st.orelse, defined)
            envb = self.alias
            if a is None:
                self.alias = envb
                return b
            if b is None:
                self.alias = enva
                return a
            self.alias = self.merge_env([enva, envb])
            return a & b
        if isinstance(st, (ast.For, ast.AsyncFor)):
            defined = self.expr(st.iter, defined)
            d1 = self.target(st.target, defined)
            itr = self.roots(st.iter)
            env0 = dict(self.alias)
            # the body may run zero times; it is walked twice so that aliases carried around the loop are seen.
            # `break` leaves the loop with what is defined at that point and skips the `else` block.
            self.break_defs.append([])
            for _ in range(2):
                self.bind(st.target, itr)
                self.block(st.body, d1)
                self.alias = self.merge_env([env0, self.alias])
            breaks = self.break_defs.pop()
            e = self.block(st.orelse, defined) if st.orelse else defined     # exhaustion (possibly zero iterations)
            outs = list(breaks) + ([e] if e is not None else [])
            if not outs:
                return None
            r = set(outs[0])
            for o in outs[1:]:
                r &= o
            return frozenset(r)
        if isinstance(st, ast.While):
            defined = self.expr(st.test, defined)
            env0 = dict(self.alias)
            self.break_defs.append([])
            for _ in range(2):
                self.block(st.body, defined)
                self.expr(st.test, defined)
                self.alias = self.merge_env([env0, self.alias])
            breaks = self.break_defs.pop()
            e = self.block(st.orelse, defined) if st.orelse else defined
            always = isinstance(st.test, ast.Constant) and bool(st.test.value)    # `while True:` leaves only by break
            outs = list(breaks) + ([e] if (e is not None and not always) else [])
            if not outs:
                return None
            r = set(outs[0])
            for o in outs[1:]:
                r &= o
            return frozenset(r)
        if isinstance(st, (ast.With, ast.AsyncWith)):
            for it in st.items:
                defined = self.expr(it.context_expr, defined)
                if it.optional_vars is not None:
                    defined = self.target(it.optional_vars, defined)
                    self.bind(it.optional_vars, self.roots(it.context_expr))
            return self.block(st.body, defined)
        if isinstance(st, ast.Try):
            env0 = dict(self.alias)
            a = self.block(st.body, defined)
            envs = [env0, self.alias]
            outs = []
            if a is not None:
                e = self.block(st.orelse, a)
                envs.append(self.alias)
                if e is not None:
                    outs.append(e)
            for h in st.handlers:
                self.alias = self.merge_env(envs)
                hb = self.block(h.body, defined)      # the exception may come before any write of the body
                envs.append(self.alias)
                if hb is not None:
                    outs.append(hb)
            self.alias = self.merge_env(envs)
            if not outs:
                res = None
            else:
                res = set(outs[0])
                for o in outs[1:]:
                    res &= o
                res = frozenset(res)
            if st.finalbody:
                f = self.block(st.finalbody, res if res is not None else defined)
                if res is None:
                    return None
                return f
            return res
        if isinstance(st, (ast.FunctionDef, ast.AsyncFunctionDef, ast.ClassDef)):
            # nested definitions: treat the body's self-reads as possible reads (closures called later)
            for n in ast.walk(st):
                if isinstance(n, ast.expr):
                    pass
            for sub in st.body if hasattr(st, 'body') else []:
                self.stmt(sub, defined) if isinstance(sub, ast.stmt) else None
            return defined
        if isinstance(st, ast.Break):
            if self.break_defs:
                self.break_defs[-1].append(defined)
            return None
        if isinstance(st, ast.Continue):
            return None
        if isinstance(st, (ast.Pass, ast.Global, ast.Nonlocal, ast.Import, ast.ImportFrom)):
            return defined
        if isinstance(st, ast.Assert):
            return self.expr(st.test, defined)
        if isinstance(st, ast.Match):
            defined = self.expr(st.subject, defined)
            outs = [self.block(c.body, defined) for c in st.cases]
            outs = [o for o in outs if o is not None]
            if not outs:
                return defined
            r = set(outs[0])
            for o in outs[1:]:
                r &= o
            return frozenset(r) & defined | defined
        return defined

    # ---- assignment targets
    def target(self, t, defined, aug=False):
        if isinstance(t, ast.Name):
            if t.id in self.globals_decl:
                self.out.gwrites.add(f'{self.mod.short}.{t.id}')
            return defined
        if isinstance(t, (ast.Tuple, ast.List)):
            for x in t.elts:
                defined = self.target(x, defined)
            return defined
        if isinstance(t, ast.Starred):
            return self.target(t.value, defined)
        if isinstance(t, ast.Attribute):
            if isinstance(t.value, ast.Name) and t.value.id == self.selfname:
                self.out.writes.add(t.attr)
                return defined | {t.attr}
            defined = self.expr(t.value, defined)
            self.mutate(t.value, ('.' + t.attr + ('+=' if aug else '=')), defined)
            return defined
        if isinstance(t, ast.Subscript):
            defined = self.expr(t.value, defined)
            defined = self.expr(t.slice, defined)
            self.mutate(t.value, '[]=', defined)
            if isinstance(t.value, ast.Name) and t.value.id in self.globals_decl | (self.mod.globals_assigned - self.locals):
                self.out.gwrites.add(f'{self.mod.short}.{t.value.id}')
            return defined
        return defined

    # ---- expressions (evaluation order: left to right, arguments before the call)
    def expr(self, e, defined):
        if e is None:
            return defined
        if isinstance(e, ast.Attribute):
            if isinstance(e.value, ast.Name) and e.value.id == self.selfname:
                if isinstance(e.ctx, ast.Load):
                    if e.attr not in defined and not (self.ci and e.attr in self.ci.methods):
                        self.out.rbw.add(e.attr)
                return defined
            return self.expr(e.value, defined)
        if isinstance(e, ast.Name):
            if isinstance(e.ctx, ast.Load) and e.id not in self.locals and e.id not in self.params \
                    and e.id != self.selfname and e.id in self.mod.mutable_globals:
                self.out.greads.add(f'{self.mod.short}.{e.id}')
            return defined
        if isinstance(e, ast.Call):
            return self.call(e, defined)
        if isinstance(e, ast.JoinedStr) and not self.quiet:
            self.out.text = True
        if isinstance(e, (ast.Lambda,)):
            return self.expr(e.body, defined)
        if isinstance(e, ast.BoolOp):
            d = self.expr(e.values[0], defined)
            for v in e.values[1:]:
                self.expr(v, d)       # may be skipped: writes inside do not count as definite
            return d
        if isinstance(e, ast.IfExp):
            d = self.expr(e.test, defined)
            a = self.expr(e.body, d)
            b = self.expr(e.orelse, d)
            return a & b
        if isinstance(e, (ast.ListComp, ast.SetComp, ast.GeneratorExp, ast.DictComp)):
            d = defined
            for g in e.generators:
                d = self.expr(g.iter, d)
                for c in g.ifs:
                    self.expr(c, d)
            if isinstance(e, ast.DictComp):
                self.expr(e.key, d)
                self.expr(e.value, d)
            else:
                self.expr(e.elt, d)
            return d
        for ch in ast.iter_child_nodes(e):
            if isinstance(ch, ast.expr):
                defined = self.expr(ch, defined)
            elif isinstance(ch, (ast.keyword,)):
                defined = self.expr(ch.value, defined)
            elif isinstance(ch, ast.comprehension):
                defined = self.expr(ch.iter, defined)
        return defined

    def call(self, e, defined):
        f = e.func
        if isinstance(f, ast.Name) and f.id == 'print':
            # console output is not a result: text built only to be printed does not count
            saved, self.quiet = self.quiet, True
            for a in list(e.args) + [k.value for k in e.keywords]:
                defined = self.expr(a.value if isinstance(a, ast.Starred) else a, defined)
            self.quiet = saved
            return defined
        if not self.quiet and (
                (isinstance(f, ast.Name) and f.id in ('str', 'repr', 'format', 'label_to_string', 'format_table')) or
                (isinstance(f, ast.Attribute) and f.attr in ('__str__', '__repr__', 'format', 'str'))):
            self.out.text = True
        argexprs = list(e.args) + [k.value for k in e.keywords]
        # --- self.m(...) / super().m(...) / Owner.m(self, ...)
        callee = None
        explicit_self = False
        if isinstance(f, ast.Attribute) and self.ci is not None:
            if isinstance(f.value, ast.Name) and f.value.id == self.selfname and f.attr in self.ci.methods:
                callee = ('m', self.key[1], self.key[2], f.attr)
            elif isinstance(f.value, ast.Call) and isinstance(f.value.func, ast.Name) and f.value.func.id == 'super':
                callee = self.super_method(f.attr)
            elif isinstance(f.value, ast.Name) and f.value.id in ([self.owner] + self.ci.bases) and e.args and \
                    isinstance(e.args[0], ast.Name) and e.args[0].id == self.selfname:
                callee = self.named_class_method(f.value.id, f.attr)
                explicit_self = True
        for a in argexprs:
            defined = self.expr(a.value if isinstance(a, ast.Starred) else a, defined)
        if callee is not None:
            s = self.an.get(callee)
            for a in s.rbw:
                if a not in defined:
                    self.out.rbw.add(a)
            self.out.writes |= s.writes
            self.out.gwrites |= s.gwrites
            self.out.greads |= s.greads
            self.out.text = self.out.text or s.text
            cal_params = [p for p in s.params][1:]     # drop self
            args = e.args[1:] if explicit_self else e.args
            self.map_pwrites(s, cal_params, args, e.keywords, defined)
            self.map_pcalls(s, cal_params, args, e.keywords)
            return defined | s.must
        # --- in-place container / array methods:  X.append(...)
        if isinstance(f, ast.Attribute):
            defined = self.expr(f.value, defined)
            for x in self.roots(f.value):
                if x[0] == 'param':
                    self.out.pcalls.add(f'{x[1]}:{f.attr}')
                elif x[0] == 'self':
                    self.out.pcalls.add(f'self.{x[1]}:{f.attr}')
            if f.attr in MUTATORS:
                self.mutate(f.value, '.' + f.attr + '()', defined)
                if isinstance(f.value, ast.Name) and f.value.id not in self.locals and f.value.id not in self.params \
                        and f.value.id in self.mod.globals_assigned:
                    self.out.gwrites.add(f'{self.mod.short}.{f.value.id}')
            # static / class-qualified call  Class.func(...)  resolved by name → global effects only
            if isinstance(f.value, ast.Name):
                tgt = self.resolve_name(f.value.id)
                if tgt and tgt[0] == 'class':
                    ci = class_info(tgt[1], tgt[2])
                    if ci and f.attr in ci.methods:
                        s = self.an.get(('m', tgt[1], tgt[2], f.attr))
                        self.out.gwrites |= s.gwrites
                        self.out.greads |= s.greads
            return defined
        # --- plain names: module functions, constructors (global effects + parameter writes)
        if isinstance(f, ast.Name):
            if f.id == 'setattr' and e.args:
                self.mutate(e.args[0], '.setattr()', defined)
                if isinstance(e.args[0], ast.Name) and e.args[0].id == self.selfname:
                    self.out.writes.add('*')
            tgt = self.resolve_name(f.id)
            if tgt and tgt[0] == 'func':
                s = self.an.get(('f', tgt[1], tgt[2]))
                self.out.gwrites |= s.gwrites
                self.out.greads |= s.greads
                self.map_pwrites(s, s.params, e.args, e.keywords, defined)
            elif tgt and tgt[0] == 'class':
                ci = class_info(tgt[1], tgt[2])
                if ci and '__init__' in ci.methods:
                    s = self.an.get(('m', tgt[1], tgt[2], '__init__'))
                    self.out.gwrites |= s.gwrites
                    self.out.greads |= s.greads
                    self.map_pwrites(s, s.params[1:], e.args, e.keywords, defined)
            return defined
        return self.expr(f, defined)

    def map_pwrites(self, s, cal_params, args, keywords, defined):
        if not s.pwrites:
            return
        bind = {}
        for i, a in enumerate(args):
            if i < len(cal_params):
                bind[cal_params[i]] = a
        for k in keywords:
            if k.arg:
                bind[k.arg] = k.value
        for pw in s.pwrites:
            p, how = pw.split(':', 1)
            if p in bind:
                self.mutate(bind[p], how, defined)

    def map_pcalls(self, s, cal_params, args, keywords):
        if not s.pcalls:
            return
        bind = {}
        for i, a in enumerate(args):
            if i < len(cal_params):
                bind[cal_params[i]] = a
        for k in keywords:
            if k.arg:
                bind[k.arg] = k.value
        for pc in s.pcalls:
            p, m = pc.split(':', 1)
            if p.startswith('self.'):
                self.out.pcalls.add(pc)
            elif p in bind:
                for x in self.roots(bind[p]):
                    if x[0] == 'param':
                        self.out.pcalls.add(f'{x[1]}:{m}')
                    elif x[0] == 'self':
                        self.out.pcalls.add(f'self.{x[1]}:{m}')

    def super_method(self, name):
        # first definition of `name` in a base class (not the owner of the current body)
        own = self.mod.classes.get(self.owner)
        if own is None:
            return None
        for b in own.bases:
            if isinstance(b, ast.Name):
                t = self.resolve_name(b.id)
                if t and t[0] == 'class':
                    ci = class_info(t[1], t[2])
                    if ci and name in ci.methods:
                        return ('m', t[1], t[2], name)
        return None

    def named_class_method(self, cname, name):
        t = self.resolve_name(cname)
        if t and t[0] == 'class':
            ci = class_info(t[1], t[2])
            if ci and name in ci.methods:
                return ('m', t[1], t[2], name)
        return None

    def resolve_name(self, name):
        if name in self.locals or name in self.params:
            return None
        if name in self.mod.funcs:
            return ('func', self.mod.rel, name)
        if name in self.mod.classes:
            return ('class', self.mod.rel, name)
        if name in self.mod.imports:
            rel, nm = self.mod.imports[name]
            m = module(rel)
            if m is None:
                return None
            if nm in m.funcs:
                return ('func', m.rel, nm)
            if nm in m.classes:
                return ('class', m.rel, nm)
        return None


def _as_load(t):
    n = ast.parse(ast.unparse(t), mode='eval').body
    return n


# ------------------------------------------------------------------------------------ module-level state
def _base_name(e):
    while isinstance(e, (ast.Subscript, ast.Attribute)):
        e = e.value
    return e.id if isinstance(e, ast.Name) else None


def _mutable_display(v):
    return isinstance(v, (ast.Dict, ast.List, ast.Set, ast.ListComp, ast.DictComp, ast.SetComp)) or (
        isinstance(v, ast.Call) and isinstance(v.func, ast.Name) and
        v.func.id in ('dict', 'list', 'set', 'defaultdict', 'OrderedDict', 'deque', 'Counter'))


def module_state(root='financepy'):
    """Every place in EVERY module under financepy/ where a function or method body can change state that outlives
    the call and belongs to no object the caller holds.  Sorted list of [file, function, kind, name]:

      global=      assignment / deletion of a name declared `global`
      []= .a= .m() item / attribute store, in-place container call on a module-level name (variable, class, function),
                   also through a local alias `c = NAME`
      class[]= class.m()   the same on `self.attr` / `cls.attr` where `attr` is a container created in the CLASS body
                   (shared by all instances) and never re-bound on `self`
      default[]= default.m()   the same on a parameter whose DEFAULT value is a mutable display (`def f(x, memo={})`)
      @decorator   a memoising decorator (`lru_cache`, `cache`, `cached_property`, anything named *memo*)
      metaclass=   a class created through a metaclass (instance registries such as utils/singleton.py)
    """
    res = set()
    top = os.path.join(REPO, root)
    for dp, dn, fn in os.walk(top):
        dn.sort()
        for f in sorted(fn):
            if not f.endswith('.py'):
                continue
            path = os.path.join(dp, f)
            rel = os.path.relpath(path, REPO)
            with open(path, encoding='utf-8') as fh:
                tree = ast.parse(fh.read(), filename=rel)
            modnames = set()
            for st in tree.body:
                if isinstance(st, (ast.Assign, ast.AnnAssign, ast.AugAssign)):
                    tg = st.targets if isinstance(st, ast.Assign) else [st.target]
                    for t in tg:
                        for n in ast.walk(t):
                            if isinstance(n, ast.Name):
                                modnames.add(n.id)
                elif isinstance(st, (ast.FunctionDef, ast.AsyncFunctionDef, ast.ClassDef)):
                    modnames.add(st.name)

            def funcs(node, cls=None):
                for st in getattr(node, 'body', []):
                    if isinstance(st, (ast.FunctionDef, ast.AsyncFunctionDef)):
                        yield cls, st
                    elif isinstance(st, ast.ClassDef):
                        yield from funcs(st, st)

            for n in ast.walk(tree):
                if isinstance(n, ast.ClassDef):
                    for kw in n.keywords:
                        if kw.arg == 'metaclass':
                            res.add((rel, n.name, 'metaclass=', ast.unparse(kw.value)))
            for cls, fd in funcs(tree):
                q = (cls.name + '.' if cls else '') + fd.name
                a = fd.args
                params = [x.arg for x in a.posonlyargs + a.args + a.kwonlyargs]
                pos = a.posonlyargs + a.args
                mutable_defaults = {x.arg for x, dv in zip(pos[len(pos) - len(a.defaults):], a.defaults) if _mutable_display(dv)}
                mutable_defaults |= {x.arg for x, dv in zip(a.kwonlyargs, a.kw_defaults) if dv is not None and _mutable_display(dv)}
                loc = set(params)
                if a.vararg:
                    loc.add(a.vararg.arg)
                if a.kwarg:
                    loc.add(a.kwarg.arg)
                gl = set()
                for n in ast.walk(fd):
                    if isinstance(n, ast.Global):
                        gl.update(n.names)
                alias = {}
                for n in ast.walk(fd):
                    if isinstance(n, ast.Name) and isinstance(n.ctx, (ast.Store, ast.Del)) and n.id not in gl:
                        loc.add(n.id)
                    elif isinstance(n, (ast.Import, ast.ImportFrom)):
                        for al in n.names:
                            loc.add((al.asname or al.name).split('.')[0])
                for n in ast.walk(fd):      # local aliases of module-level names:  c = NAME
                    if isinstance(n, ast.Assign) and isinstance(n.value, ast.Name) and n.value.id in modnames \
                            and n.value.id not in params:
                        for t in n.targets:
                            if isinstance(t, ast.Name):
                                alias[t.id] = n.value.id
                class_containers = set()
                selfname = params[0] if (cls is not None and params) else None
                if cls is not None:
                    for st in cls.body:
                        if isinstance(st, (ast.Assign, ast.AnnAssign)) and st.value is not None and _mutable_display(st.value):
                            for t in (st.targets if isinstance(st, ast.Assign) else [st.target]):
                                if isinstance(t, ast.Name):
                                    class_containers.add(t.id)
                for d in fd.decorator_list:
                    txt = ast.unparse(d)
                    low = txt.lower()
                    if ('lru_cache' in low or 'memo' in low or 'cached_property' in low or
                            low in ('cache', 'functools.cache')):
                        res.add((rel, q, '@decorator', txt))

                def owner(e):
                    """(kind prefix, name) of the long-lived thing the store goes to, or None"""
                    b = _base_name(e)
                    if b is None:
                        return None
                    if b in gl or (b in modnames and b not in loc):
                        return '', b
                    if b in alias and alias[b] not in loc - {b}:
                        return '', alias[b]
                    if b in mutable_defaults:
                        return 'default', b
                    if b == selfname or b == 'cls':
                        x = e
                        while isinstance(x, (ast.Subscript, ast.Attribute)) and not (
                                isinstance(x, ast.Attribute) and isinstance(x.value, ast.Name)):
                            x = x.value
                        if isinstance(x, ast.Attribute) and x.attr in class_containers:
                            return 'class', cls.name + '.' + x.attr
                    return None

                for n in ast.walk(fd):
                    if isinstance(n, ast.Name) and isinstance(n.ctx, (ast.Store, ast.Del)) and n.id in gl:
                        res.add((rel, q, 'global=', n.id))
                    elif isinstance(n, (ast.Subscript, ast.Attribute)) and isinstance(n.ctx, (ast.Store, ast.Del)):
                        o = owner(n.value)
                        if o is not None:
                            if o[0] == 'class' and isinstance(n, ast.Attribute):
                                continue
                            res.add((rel, q, o[0] + ('[]=' if isinstance(n, ast.Subscript) else '.' + n.attr + '='), o[1]))
                    elif isinstance(n, ast.Call) and isinstance(n.func, ast.Attribute) and n.func.attr in MUTATORS:
                        o = owner(n.func.value)
                        if o is not None:
                            res.add((rel, q, o[0] + '.' + n.func.attr + '()', o[1]))
    return [list(x) for x in sorted(res)]


# ------------------------------------------------------------------------------------ inter-class call graph
#: container / array methods: a call `x.append(…)` on a parameter or attribute is not a call into a financepy class; its in-place effect is
#: already part of `writes` / `pwrites` (MUTATORS) and the others only read
BUILTIN_METHODS = MUTATORS | {'copy', 'index', 'count', 'keys', 'values', 'items', 'get', 'tolist', 'astype', 'reshape', 'flatten',
                              'sum', 'mean', 'std', 'min', 'max', 'dot', 'transpose', 'join', 'split', 'strip', 'lower', 'upper',
                              'startswith', 'endswith', 'format', 'any', 'all', 'cumsum', 'cumprod', 'argsort', 'ravel', 'item'}

_CURVE = [('financepy/market/curves/discount_curve.py', 'DiscountCurve')]
_CDSCURVE = [('financepy/products/credit/cds_curve.py', 'CDSCurve')]
_DATE = [('financepy/utils/date.py', 'Date')]
#: rule (d): names whose class follows from the package's naming convention when no annotation / default / isinstance test says it.
#: Every curve class of the package derives from DiscountCurve (the sub-classes present in the table are added to every
#: DiscountCurve edge); `issuer_curve` / `survival_curve` are CDSCurve wherever `survival_prob` is called on them; every `*_dt` is a Date
#: (`dts`: a list of them, the call is on the elements); the three instrument lists of IborSingleCurve are what their names say.
NAME_CONVENTION = {
    'discount_curve': _CURVE, 'dividend_curve': _CURVE, 'index_curve': _CURVE, 'domestic_curve': _CURVE, 'foreign_curve': _CURVE,
    'libor_curve': _CURVE, 'dom_curve': _CURVE, 'for_curve': _CURVE, 'ccy1DiscountCurve': _CURVE, 'ccy2DiscountCurve': _CURVE,
    'issuer_curve': _CDSCURVE + _CURVE, 'survival_curve': _CDSCURVE + _CURVE,
    'dt': _DATE, 'dts': _DATE,
    'used_swaps': [('financepy/products/rates/ibor_swap.py', 'IborSwap')],
    'used_deposits': [('financepy/products/rates/ibor_deposit.py', 'IborDeposit')],
    'used_fras': [('financepy/products/rates/ibor_fra.py', 'IborFRA')],
}


def _conv(name):
    if name in NAME_CONVENTION:
        return list(NAME_CONVENTION[name])
    if name.endswith('_dt') or name.endswith('_dts'):
        return list(_DATE)
    return []


def _resolve_cls(mod, name):
    if name in mod.classes:
        return (mod.rel, name)
    if name in mod.imports:
        rel, nm = mod.imports[name]
        m = module(rel)
        if m is not None and nm in m.classes:
            return (m.rel, nm)
    return None


def _names_in(e):
    out = []
    for n in ast.walk(e):
        if isinstance(n, ast.Name):
            out.append(n.id)
        elif isinstance(n, ast.Constant) and isinstance(n.value, str):
            out += [x for x in re.split(r'[^A-Za-z0-9_]+', n.value) if x]
    return out


def _param_types(mod, fd, pname, how):
    """classes of parameter `pname` of function `fd`: (a) annotation, (b) default value, (c) isinstance tests in the body"""
    res = []
    a = fd.args
    pos = a.posonlyargs + a.args
    defaults = dict(zip([x.arg for x in pos[len(pos) - len(a.defaults):]], a.defaults))
    defaults.update({x.arg: dv for x, dv in zip(a.kwonlyargs, a.kw_defaults) if dv is not None})
    for x in pos + a.kwonlyargs:
        if x.arg == pname:
            if x.annotation is not None:
                for nm in _names_in(x.annotation):
                    c = _resolve_cls(mod, nm)
                    if c:
                        res.append(c)
                        how.add('annotation')
            dv = defaults.get(pname)
            if isinstance(dv, ast.Call) and isinstance(dv.func, ast.Name):
                c = _resolve_cls(mod, dv.func.id)
                if c:
                    res.append(c)
                    how.add('default')
    res += _isinstance_types(mod, fd, pname, how)
    return res


def _isinstance_types(mod, fd, pname, how):
    res = []
    for n in ast.walk(fd):
        if isinstance(n, ast.Call) and isinstance(n.func, ast.Name) and n.func.id == 'isinstance' and len(n.args) == 2 \
                and isinstance(n.args[0], ast.Name) and n.args[0].id == pname:
            ks = n.args[1].elts if isinstance(n.args[1], (ast.Tuple, ast.List)) else [n.args[1]]
            for k in ks:
                if isinstance(k, ast.Name):
                    c = _resolve_cls(mod, k.id)
                    if c:
                        res.append(c)
                        how.add('isinstance')
    return res


def _arg_types(ci, mname, arg, how):
    """candidate classes [(rel, cls)] of `arg` ('param' or 'self.attr') seen from method `mname` of class `ci`"""
    mod, fd, _ = ci.methods[mname]
    if not arg.startswith('self.'):
        params = [x.arg for x in fd.args.posonlyargs + fd.args.args + fd.args.kwonlyargs]
        res = _param_types(mod, fd, arg, how) if arg in params else []
        if not res:      # the call site may sit in a method this one calls with the parameter: same name, same class
            for m2, (mod2, fd2, _) in ci.methods.items():
                res += _isinstance_types(mod2, fd2, arg, how)
        if not res:
            res = _conv(arg)
            if res:
                how.add('convention')
        return res
    attr = arg[5:]
    res = []
    for m2, (mod2, fd2, _) in ci.methods.items():
        a2 = fd2.args
        names = [x.arg for x in a2.posonlyargs + a2.args + a2.kwonlyargs]
        if not names:
            continue
        for n in ast.walk(fd2):
            if isinstance(n, ast.Assign) and any(isinstance(t, ast.Attribute) and isinstance(t.value, ast.Name) and
                                                 t.value.id == names[0] and t.attr == attr for t in n.targets):
                v = n.value
                if isinstance(v, ast.Name) and v.id in names[1:]:
                    r = _param_types(mod2, fd2, v.id, how)
                    if not r:
                        r = _conv(v.id)
                        if r:
                            how.add('convention')
                    res += r
                elif isinstance(v, ast.Name):      # a local of that method built by a constructor call:  x = K(...); self.attr = x
                    for n2 in ast.walk(fd2):
                        if isinstance(n2, ast.Assign) and isinstance(n2.value, ast.Call) and isinstance(n2.value.func, ast.Name) and \
                                any(isinstance(t, ast.Name) and t.id == v.id for t in n2.targets):
                            c = _resolve_cls(mod2, n2.value.func.id)
                            if c:
                                res.append(c)
                                how.add('constructed')
                elif isinstance(v, ast.Call) and isinstance(v.func, ast.Name):
                    c = _resolve_cls(mod2, v.func.id)
                    if c:
                        res.append(c)
                        how.add('constructed')
    if not res:
        res = _conv(attr)
        if res:
            how.add('convention')
    return res


def call_graph(an, table):
    """Inter-class edges for the recorded `pcalls` of every method of the classes in `table` ([(rel, cls)]).

    Returns (edges, unresolved, extra): edges = sorted [cls, meth, arg, target class, target method, how];
    unresolved = sorted [cls, meth, arg, method name] whose argument's class could not be told; extra = [(rel, cls)] target
    classes outside `table`, analysed like the others (all their methods) and followed transitively."""
    table = [(os.path.normpath(r), c) for r, c in table]
    known = list(table)
    edges, unresolved = set(), set()
    done = set()
    while True:
        new_classes = []
        for rel, cls in list(known):
            if (rel, cls) in done:
                continue
            done.add((rel, cls))
            ci = class_info(rel, cls)
            for m in sorted(ci.methods):
                s = an.summ.get(('m', rel, cls, m))
                if s is None:
                    continue
                for pc in sorted(s.pcalls):
                    arg, meth = pc.split(':', 1)
                    if meth in BUILTIN_METHODS:
                        continue
                    how = set()
                    cands = []
                    for c in _arg_types(ci, m, arg, how):
                        c = (os.path.normpath(c[0]), c[1])
                        tci = class_info(*c)
                        if tci is not None and meth in tci.methods and c not in cands:
                            cands.append(c)
                        elif tci is not None:      # an abstract base (`model: Model`): the classes of the table deriving from it
                            for k in table:
                                kci = class_info(*k)
                                if c[1] in kci.bases and meth in kci.methods and k not in cands:
                                    cands.append(k)
                                    how.add('subclass')
                    if not cands:
                        unresolved.add((cls, m, arg, meth))
                        continue
                    for c in cands:
                        edges.add((cls, m, arg, c[1], meth, '+'.join(sorted(how))))
                        if c not in known and c not in new_classes:
                            new_classes.append(c)
        if not new_classes:
            break
        for rel, cls in new_classes:
            known.append((rel, cls))
            for m in class_info(rel, cls).methods:
                an.get(('m', rel, cls, m))
        an.run([])
    # a received object may be of a sub-class: every class of the table deriving from the target gets the same edge
    sub = set()
    for (cls, m, arg, tc, tm, how) in edges:
        for rel, k in known:
            ci = class_info(rel, k)
            if k != tc and tc in ci.bases and tm in ci.methods:
                sub.add((cls, m, arg, k, tm, how + '+subclass'))
    edges |= sub
    extra = [k for k in known if k not in table]
    return [list(e) for e in sorted(edges)], [list(u) for u in sorted(unresolved)], extra



# ------------------------------------------------------------------------------------ driver
def analyse():
    """{'classes': {Class: {'file', 'ctor': [...], 'class_attrs': [...], 'methods': {name: summary}}},
        'mutable_globals': [...]}"""
    _MODS.clear()
    _CLASSES.clear()
    an = Analyzer()
    roots = []
    for rel, cls in ANCHORS + AUXILIARY:
        ci = class_info(rel, cls)
        if ci is None:
            raise RuntimeError(f'anchored class {cls} not found in {rel}')
        for m in ci.methods:
            roots.append(('m', os.path.normpath(rel), cls, m))
    for rel in ANCHOR_MODULES:
        m = module(rel)
        for f in m.funcs:
            roots.append(('f', m.rel, f))
    for rel, cls in EXTENDED:
        ci = class_info(rel, cls)
        if ci is None:
            raise RuntimeError(f'extended class {cls} not found in {rel}')
        for m in ci.methods:
            roots.append(('m', os.path.normpath(rel), cls, m))
    an.run(roots)
    out = {'classes': {}, 'extended': {}, 'mutable_globals': [], 'auxiliary': [c for _, c in AUXILIARY],
           'module_state': module_state()}
    for rel, cls in ANCHORS + AUXILIARY + EXTENDED:
        ci = class_info(rel, cls)
        methods = {}
        for m in sorted(ci.methods):
            s = an.summ[('m', os.path.normpath(rel), cls, m)]
            d = s.as_dict()
            d['public'] = is_public(m)
            d['owner'] = ci.methods[m][2]
            methods[m] = d
        ctor = methods.get('__init__', {'writes': []})['writes']
        out['extended' if (rel, cls) in EXTENDED else 'classes'][cls] = {
            'file': rel, 'ctor': sorted(ctor), 'class_attrs': sorted(ci.class_attrs), 'methods': methods}
    for rel in ANCHOR_MODULES:
        m = module(rel)
        methods = {}
        for f in sorted(m.funcs):
            d = an.summ[('f', m.rel, f)].as_dict()
            d['public'] = is_public(f)
            d['owner'] = m.short
            methods[f] = d
        out['classes'][f'<{m.short}>'] = {'file': rel, 'ctor': [], 'class_attrs': [], 'methods': methods}
        out['mutable_globals'] += sorted(f'{m.short}.{g}' for g in m.mutable_globals)
    # inter-class call graph (additive: nothing above depends on it)
    edges, unresolved, extra = call_graph(an, ANCHORS + AUXILIARY + EXTENDED)
    targets = {}
    for rel, cls in extra:
        ci = class_info(rel, cls)
        methods = {}
        for m in sorted(ci.methods):
            d = an.summ[('m', rel, cls, m)].as_dict()
            d['public'] = is_public(m)
            d['owner'] = ci.methods[m][2]
            methods[m] = d
        targets[cls] = {'file': rel, 'ctor': sorted(methods.get('__init__', {'writes': []})['writes']),
                        'class_attrs': sorted(ci.class_attrs), 'methods': methods}
    allc = dict(out['classes'])
    allc.update(out['extended'])
    allc.update(targets)
    nodes = {}
    for e in edges:
        for k, m in ((e[0], e[1]), (e[3], e[4])):
            if (k, m) in nodes:
                continue
            c = allc[k]
            s = c['methods'][m]
            readback = set()
            for m2, s2 in c['methods'].items():
                if s2['public'] and m2 != '__init__':
                    readback |= set(s2['rbw'])
            nodes[(k, m)] = [k, m, s['writes'], sorted(set(s['writes']) & readback), s['pwrites'], s['gwrites']]
    out['call_graph'] = {'edges': edges, 'unresolved': unresolved, 'targets': targets,
                         'nodes': [nodes[k] for k in sorted(nodes)]}
    return out


def main():
    res = analyse()
    if '--json' in sys.argv:
        json.dump(res, sys.stdout, indent=1)
        return
    for cls, c in res['classes'].items():
        mut = set()
        for m, s in c['methods'].items():
            if m != '__init__' and s['public']:
                mut |= set(s['writes'])
        print(f'== {cls}  ({c["file"]})  ctor writes {len(c["ctor"])} attrs; written by other public methods: {sorted(mut)}')
        for m, s in c['methods'].items():
            if m == '__init__':
                continue
            bad = [a for a in s['rbw'] if a in mut or (a not in c['ctor'] and a not in c['class_attrs'])]
            flag = ' '.join(f'{k}={s[k]}' for k in ('writes', 'pwrites', 'gwrites', 'greads') if s[k])
            if bad or flag:
                print(f'   {"" if s["public"] else "(private) "}{m}: RBW-mutable={bad} {flag}')


if __name__ == '__main__':
    main()
