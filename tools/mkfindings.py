#!/usr/bin/env python3
"""known_findings.json = concatenation of findings/Cxx.json (one list per property). Never run by a check."""
import glob, json, os
V = os.path.dirname(os.path.dirname(os.path.abspath(__file__)))
out = []
for f in sorted(glob.glob(os.path.join(V, 'findings', 'C*.json'))):
    l = json.load(open(f))
    if isinstance(l, dict):
        l = l.get('findings', [])
    pid = os.path.basename(f)[:-5]
    for k in l:
        k.setdefault('property', pid)
        k.setdefault('status', 'open')
        assert k['property'] == pid and 'id' in k and 'what' in k, (f, k)
        if k['status'] == 'fixed':
            # the line form asked for by the interface; a fixed entry suppresses nothing (common.py only honours status == 'open')
            k['record'] = f"fixed: property={pid} {k.get('commit', '?')} {k['what'][:200]}"
        out.append(k)
json.dump({'findings': out}, open(os.path.join(V, 'known_findings.json'), 'w'), indent=1)
print('known_findings.json:', len(out), 'entries,', sum(1 for k in out if k['status'] == 'open'), 'open')
