#!/usr/bin/env python3
"""Write MANIFEST.json from the table below (kept in one place so that it is always valid)."""
import json
import os

VERIF = os.path.dirname(os.path.dirname(os.path.abspath(__file__)))

BASE_NOTE = ('Trusted: Lean 4.33 kernel + Mathlib as compiled (axioms propext, Classical.choice, Quot.sound only; '
             'audited each run), the py2lean translator / correspondence harness, CPython/NumPy/Numba/SciPy, IEEE '
             'rounding within the stated tolerances. ')

CHECKS = {
    'C14': dict(
        level='proof',
        text=('Theorems (all integers d,y,wd,diy; every month): each holiday function GENERATED from calendar.py equals '
              'its readable rule list; the Easter table equals the Gregorian computus for 1901-2199; is_holiday '
              'dispatches by name; adjust/add_business_days laws (result is a business day, identity on business days, '
              'nearest in direction, idempotent, MODIFIED switches only on month change; add_business_days visits consecutive '
              'days of which exactly |n| are business days and lands on one) proved for the generic algorithm at any '
              'predicate; +n then -n returns to a business-day start, proved for the generic loop and instantiated for the '
              'model of the code (every calendar, valid start, n; datetime steps forward/backward are inverse). Tie: models regenerated from the source on every run + exhaustive '
              'correspondence implementation = model = spec over 15 calendars x every date 1901-2199.'),
        note=BASE_NOTE + 'Rule lists are a reading of the named rules in calendar.py; termination of the adjust walk is proved '
             'for the WEEKEND calendar (three evaluations suffice, Props/C14e) and validated exhaustively for the others.',
        technique='Lean 4 theorems on a model regenerated from the source (py2lean) + exhaustive model/implementation/spec correspondence',
        design='§5 C14'),
}

CHECKS['C15'] = dict(
    level='proof',
    text=('Theorems about DayCount.year_frac as GENERATED from day_count.py (exact rationals, all dates): each of '
          '30/360 Bond, 30E/360, 30E/360 ISDA (with its termination-date exception), 30E+/360, ACT/365F, ACT/360, '
          'SIMPLE, ACT/ACT ICMA and same-year ACT/ACT ISDA equals its ISDA 2006 / ICMA formula; zero on equal dates '
          '(with the two corners where the published rule itself is non-zero proved as such), sign and additivity for '
          'ACT/fixed, ICMA regular period = 1/frequency, and error_kind: no failure other than FinError is reachable '
          '(ZeroDivision only for a zero-length ICMA period). Multi-year ACT/ACT ISDA = closed form of the per-year sum (its '
          'shape across years, antisymmetry) are theorems in Props/C15b and ACT/365L = its rule (all dates from 1900, with or '
          'without the period end) in Props/C15c; sign and bounds in Props/C15d (ACT/ACT ISDA > 0 for start < end across years and same-year sign, ICMA fraction in [0, 1/f], < 1/f before the period end and monotone in settlement, ACT/365L sign and |frac| <= days/365); all of them are also compared by the correspondence (implementation = generated model = source-independent spec, numerator '
          'and denominator exact) on >=6e4 date pairs per quick run.'),
    note=BASE_NOTE + 'Spec formulas are a transcription of ISDA 2006 4.16 / ICMA 251; theorems about serials assume years >= 1900/1901 (the domain of the property starts 1 Mar 1900).',
    technique='Lean 4 theorems on a model regenerated from the source (py2lean) + model/implementation/spec correspondence with exact rationals',
    design='§5 C15')

CHECKS['C13'] = dict(
    level='proof',
    text=('Theorems: the closed-form serial the date table stores equals the spec serial (anchor 1 Mar 1900 = 61, +1 per '
          'Gregorian successor) for every valid date from 1 Mar 1900 with NO upper bound on the year; the spec closed form '
          'meets its successor recurrence; the GENERATED weekday kernel is the true weekday; serial is strictly monotone in '
          '(y,m,d) (so ordering/equality/hash/subtraction follow the calendar); table steps of add_days move the serial by '
          'exactly one and forward/backward steps are inverse; add_months lands in the arithmetic target month clipped to '
          'its last day; the GENERATED next_cds_date is the first 20 Mar/Jun/Sep/Dec strictly after; third_wednesday_of_month '
          'is total, a Wednesday in 15..21 and unique; next_imm_date is the first third-Wednesday of Mar/Jun/Sep/Dec strictly '
          'after; iterated month steps move the month index by exactly k*step and nY = 12nM whenever both succeed; '
          'add_weekdays never lands on a weekend; the GENERATED date_from_index inverts date_index on the whole padded table '
          'domain (exact arithmetic) and date_index is injective; results do not depend on the table-extension state. Tie: kernels regenerated from date.py each run + exhaustive correspondence '
          '(implementation = model = spec = Python datetime) on every date 1900-03-01..2200-12-31, sampled arithmetic, '
          'malformed constructor stream, call histories in fresh interpreters.'),
    note=BASE_NOTE + 'fastmath float division in the compiled date_from_index is validated exhaustively, not proved; add_years with '
         'fractional years not modelled; nY = 12nM is proved when both calls succeed (joint failure below 1900 is compared, not proved).',
    technique='Lean 4 theorems (omega/case analysis) on generated kernels + hand model; exhaustive model/implementation/spec correspondence',
    design='§5 C13')

CHECKS['C16'] = dict(
    level='proof',
    text=('Theorems about Schedule.generate modelled as a pure function generic in calendar adjustment and month '
          'arithmetic, for every input and any number of periods: a returned schedule is strictly increasing with >= 2 '
          'dates (else FinError); its first date is the unadjusted effective date; BACKWARD/FORWARD roll dates are whole '
          'multiples of the period computed from the anchor (no drift); regeneration is a fixed point when the '
          'termination date is not moved by adjustment, with a kernel-checked counterexample for the full statement '
          '(known finding C16/regenerate-reanchors); the last date is the termination date, adjusted iff requested; the '
          'result is exactly the distinct dates of effective :: adjusted whole-period rolls ++ [termination] (no date lost, '
          'none invented: generate_no_loss, body_backward_interior, body_forward_interior); termination for the model of '
          'the code: with period >= 1 month the BACKWARD and FORWARD loops need at most (month span + 3) iterations, so the '
          'model fuel of 5000 is never the reason for a failure for schedules up to 416 years (Props/C16c). The '
          'CDS premium-leg generator is modelled separately (Core/CDSAlgo): unadjusted dates are whole multiples of the '
          'period from the anchor, every payment date is the adjustment of such a roll (none lost), the last is the '
          'adjusted maturity, accrual periods chain. Tie: exact date-by-date correspondence implementation = model on '
          '>= 7e3 schedules and >= 4e2 CDS contracts per quick run over all calendars/conventions/rules/flags, acceptance '
          'against the source-independent ideal roll schedule / ideal CDS payments, and inheritance by swap legs, bonds, '
          'FRNs and cap/floors.'),
    note=BASE_NOTE + 'The ideal schedule is my reading of the ISDA roll rule; first_dt/next_to_last_dt (documented as unimplemented) are not exercised.',
    technique='Lean 4 induction over the generation loops of a hand model + exact model/implementation correspondence + spec acceptance',
    design='§5 C16')

NOT_YET = {}


def load_fragments():
    import glob
    for f in sorted(glob.glob(os.path.join(VERIF, 'manifest', 'C*.json'))):
        pid = os.path.basename(f)[:-5]
        d = json.load(open(f))
        if os.path.exists(os.path.join(VERIF, 'harness', 'props', pid.lower() + '.py')):
            CHECKS[pid] = dict(level=d['level'], text=d['text'], note=BASE_NOTE + d['note'], technique=d['technique'],
                               design=d.get('design', '§5 ' + pid))


def main():
    load_fragments()
    props = [json.loads(l) for l in open(os.path.join(VERIF, 'properties.jsonl'))]
    checks = []
    na = []
    for p in props:
        pid = p['id']
        if pid in CHECKS:
            c = CHECKS[pid]
            checks.append({
                'property_id': pid,
                'quick_cmd': f'./check {pid} --tier quick',
                'thorough_cmd': f'./check {pid} --tier thorough',
                'evidence_file': f'evidence/{pid}.json',
                'replay_cmd_template': f'./check {pid} --replay {{path}}',
                'engine': 'finverif',
                'level_claimed': {'category': c['level'], 'text': c['text'], 'design_ref': c['design']},
                'level_note': c['note'],
                'technique': c['technique'],
            })
        else:
            na.append({'property_id': pid, 'reason': NOT_YET.get(pid, 'check not built yet in this round (in progress; see DESIGN.md §10) — no claim is made')})
    man = {
        'version': 1,
        'setup_cmd': './setup.sh',
        'hooks': {'guard': 'FINANCEPY_VERIF', 'enable': 'no hooks are needed: every observation point is a public return value or attribute',
                  'baseline_off_cmd': 'cd /repo && /venv/bin/python -m pytest -ra -q -p no:cacheprovider --timeout=900 --continue-on-collection-errors',
                  'source_commits': [], 'add_only': True},
        'engines': [{'name': 'finverif', 'path': 'lean/ + tools/py2lean + harness/',
                     'serves_properties': [c['property_id'] for c in checks],
                     'kind_free_text': 'Lean 4 proofs about models regenerated from / corresponded with the Python source'}],
        'checks': checks,
        'not_applicable': na,
        'notes': 'See DESIGN.md. Every check regenerates its Lean model from /repo, rebuilds the theorems, audits axioms, then runs the correspondence.',
    }
    with open(os.path.join(VERIF, 'MANIFEST.json'), 'w') as f:
        json.dump(man, f, indent=1)
    print('wrote MANIFEST.json with', len(checks), 'checks;', len(na), 'not claimed')


if __name__ == '__main__':
    main()
