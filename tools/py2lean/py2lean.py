"""py2lean — a translator from a restricted, *checked* subset of Python to Lean 4.

It is a pretty-printer: every construct outside the subset raises `Untranslatable`
(the harness treats that as a broken proof obligation for every property that uses the
kernel; nothing is ever skipped silently).

Two dialects share this one engine:

  T2  integer / date decision logic.  Numbers are `Int`; true division gives `Rat`.
  T1  straight-line float kernels.  Numbers are a real-like type that is instantiated
      twice from the same AST walk: `Float` (executable, used by the correspondence
      driver) and `ℝ` (noncomputable, used by the theorems).

Semantics preserved (and where):
  * statement order, re-assignment (Lean `let` shadowing), `if/elif/else`, early
    `return`, `raise` (→ `Except PyErr`), fall-through after an `if` (continuation is
    duplicated into both branches, so no join points are invented);
  * Python `and/or/not`, comparison chains, `in (…)`, `is True/False/None`;
  * `//` and `%` (floor semantics; Lean's Euclidean `/`,`%` on `Int` when the divisor is a
    positive literal, `pyFloorDiv/pyMod` otherwise);
  * list indexing with negative wrap-around (`pyIdxD`), with the IndexError condition
    reported as an explicit error condition of the enclosing statement;
  * attribute reads on possibly-`None` parameters: an explicit AttributeError condition
    unless the read is dominated by an `is None` test or an assignment.
"""
from __future__ import annotations

import ast
import textwrap
from dataclasses import dataclass, field


class Untranslatable(Exception):
    pass


class UnboundName(Untranslatable):
    """A local that is assigned somewhere in the function is read on a path where it is not bound:
    Python raises UnboundLocalError there."""


# --------------------------------------------------------------------------- types
INT, NUM, BOOL, DATE, ODATE, NONE, TUP, ONUM = 'int', 'num', 'bool', 'date', 'odate', 'none', 'tuple', 'onum'


@dataclass
class Val:
    """A translated expression."""
    s: str                      # Lean text (always parenthesised when compound)
    t: str                      # one of the type tags above
    errs: list = field(default_factory=list)   # [(lean Bool cond, PyErr ctor)] raised when evaluated
    parts: list | None = None   # for tuples: component Vals
    nz: bool = False            # statically known to be non-zero (suppresses ZeroDivisionError guards)


@dataclass
class FuncSpec:
    py_name: str
    lean_name: str
    params: list                # [(py_name, type)]  type ∈ INT/NUM/BOOL/DATE/ODATE
    ret: str                    # type tag of the result ('tuple:int,int' style for tuples → Lean product)
    attr_map: dict = field(default_factory=dict)   # 'self.weekday' -> ('wd', INT) ; 'dt.m' -> ('m', INT)
    extra_params: list = field(default_factory=list)  # [(lean_name, type)] appended (from attr_map)
    doc: str = ''
    bool_chain: bool = False    # emit `c1 || (c2 || … false)` for `if c: return True … return False`
    fuel: int = 0               # >0: self-recursive function, unrolled with this much fuel
    skip_params: tuple = ()     # python params that are dropped (e.g. `self`)
    implicit_args: tuple = ()   # Lean expressions appended at every call site (object state passed explicitly)
    fallthrough: str | None = None   # Lean value returned when control falls off the end (Python returns None)


class Dialect:
    """Target number system."""

    def __init__(self, kind: str):
        assert kind in ('int', 'float', 'real')
        self.kind = kind

    # the Lean type of NUM
    @property
    def num(self):
        return {'int': 'Rat', 'float': 'Float', 'real': 'ℝ'}[self.kind]

    def lit_float(self, v: float) -> str:
        if self.kind == 'int':
            # exact rational from the decimal text of the literal
            from fractions import Fraction
            fr = Fraction(repr(v))
            if fr.denominator == 1:
                return f'({fr.numerator} : Rat)'
            return f'(({fr.numerator} : Rat) / {fr.denominator})'
        if self.kind == 'real' and float(v).is_integer() and abs(v) < 1e15:
            iv = int(v)
            return f'(-({-iv} : ℝ))' if iv < 0 else f'({iv} : ℝ)'
        r = repr(float(v))
        if 'e' in r or 'E' in r:
            mant, exp = r.lower().split('e')
            r = f'{mant}e{int(exp)}'
        if r.startswith('-'):
            return f'(-({r[1:]} : {self.num}))'
        return f'({r} : {self.num})'

    def of_int(self, s: str) -> str:
        if self.kind == 'int':
            return f'(({s} : Int) : Rat)'
        if self.kind == 'float':
            return f'(Float.ofInt {s})'
        return f'(({s} : Int) : ℝ)'

    def fn(self, name: str) -> str:
        table = {
            'float': {'exp': 'Float.exp', 'log': 'Float.log', 'sqrt': 'Float.sqrt', 'abs': 'Float.abs',
                      'max': 'fmax', 'min': 'fmin', 'pow': 'Float.pow', 'floor': 'Float.floor',
                      'sin': 'Float.sin', 'cos': 'Float.cos', 'tanh': 'Float.tanh', 'sinh': 'Float.sinh',
                      'cosh': 'Float.cosh', 'atan': 'Float.atan'},
            'real': {'exp': 'Real.exp', 'log': 'Real.log', 'sqrt': 'Real.sqrt', 'abs': 'abs',
                     'max': 'max', 'min': 'min', 'pow': 'Real.rpow', 'floor': 'rfloor',
                     'sin': 'Real.sin', 'cos': 'Real.cos', 'tanh': 'Real.tanh', 'sinh': 'Real.sinh',
                     'cosh': 'Real.cosh', 'atan': 'Real.arctan'},
            'int': {'abs': 'abs', 'max': 'max', 'min': 'min'},
        }[self.kind]
        if name not in table:
            raise Untranslatable(f'function {name} not available in dialect {self.kind}')
        return table[name]


NP_FUNCS = {'exp': 'exp', 'log': 'log', 'sqrt': 'sqrt', 'abs': 'abs', 'fabs': 'abs', 'maximum': 'max',
            'minimum': 'min', 'power': 'pow', 'sin': 'sin', 'cos': 'cos', 'tanh': 'tanh', 'sinh': 'sinh',
            'cosh': 'cosh', 'arctan': 'atan', 'floor': 'floor'}


class Translator:
    def __init__(self, dialect: Dialect, consts: dict, funcs: dict | None = None):
        """consts: python dotted name -> python value (int/float/bool/list of ints)
           funcs : python callee name -> FuncSpec of an already translated function."""
        self.d = dialect
        self.consts = consts
        self.funcs = funcs or {}
        self.table_decls = {}      # lean name -> list (module-level tables referenced)

    # ------------------------------------------------------------------ helpers
    def coerce(self, v: Val, t: str) -> Val:
        if v.t == t:
            return v
        if v.t == INT and t == NUM:
            return Val(self.d.of_int(v.s), NUM, v.errs, nz=v.nz)
        if v.t == BOOL and t == INT:
            return Val(f'(if {v.s} then (1:Int) else 0)', INT, v.errs)
        if v.t == BOOL and t == NUM:
            return self.coerce(self.coerce(v, INT), NUM)
        if v.t == ONUM and t == NUM:
            return Val(f'(pyGetNum {v.s})', NUM, v.errs + [(f'{v.s}.isNone', 'typeError')])
        raise Untranslatable(f'cannot coerce {v.t} to {t}: {v.s}')

    def num2(self, a: Val, b: Val):
        if a.t == NUM or b.t == NUM or a.t == ONUM or b.t == ONUM:
            return self.coerce(a, NUM), self.coerce(b, NUM), NUM
        if a.t == BOOL:
            a = self.coerce(a, INT)
        if b.t == BOOL:
            b = self.coerce(b, INT)
        if a.t == INT and b.t == INT:
            return a, b, INT
        raise Untranslatable(f'non-numeric operands {a.t},{b.t}: {a.s} , {b.s}')

    @staticmethod
    def dotted(node):
        parts = []
        while isinstance(node, ast.Attribute):
            parts.append(node.attr)
            node = node.value
        if isinstance(node, ast.Name):
            parts.append(node.id)
            return '.'.join(reversed(parts))
        return None

    def const_val(self, name, v) -> Val:
        if isinstance(v, bool):
            return Val('true' if v else 'false', BOOL)
        if isinstance(v, int):
            return Val(f'({v} : Int)', INT, nz=(v != 0))
        if isinstance(v, float):
            return Val(self.d.lit_float(v), NUM, nz=(v != 0))
        raise Untranslatable(f'constant {name} of unsupported type {type(v)}')

    # -------------------------------------------------------------- expressions
    def expr(self, n, env) -> Val:
        d = self.d
        if isinstance(n, ast.Constant):
            v = n.value
            if v is None:
                return Val('none', NONE)
            if isinstance(v, bool):
                return Val('true' if v else 'false', BOOL)
            if isinstance(v, int):
                return Val(f'({v} : Int)', INT, nz=(v != 0))
            if isinstance(v, float):
                return Val(d.lit_float(v), NUM, nz=(v != 0))
            raise Untranslatable(f'constant {v!r}')
        if isinstance(n, ast.Name):
            if n.id in env:
                return env[n.id]
            if n.id in self.consts:
                return self.const_val(n.id, self.consts[n.id])
            if n.id in env.get('__assigned__', ()):
                raise UnboundName(n.id)
            raise Untranslatable(f'unknown name {n.id}')
        if isinstance(n, ast.Attribute):
            dn = self.dotted(n)
            if dn is not None:
                am = env.get('__attr_map__', {})
                if dn in am:
                    return am[dn]
                if dn in self.consts:
                    return self.const_val(dn, self.consts[dn])
                # attribute of a date-typed variable
                base = dn.rsplit('.', 1)[0]
                attr = dn.rsplit('.', 1)[1]
                if base in env and env[base].t in (DATE, ODATE):
                    return self.date_attr(env[base], attr)
            raise Untranslatable(f'attribute {ast.unparse(n)}')
        if isinstance(n, ast.UnaryOp):
            v = self.expr(n.operand, env)
            if isinstance(n.op, ast.USub):
                if v.t not in (INT, NUM):
                    raise Untranslatable('unary minus on non-number')
                return Val(f'(-{v.s})', v.t, v.errs)
            if isinstance(n.op, ast.UAdd):
                return v
            if isinstance(n.op, ast.Not):
                return Val(f'(!{self.as_bool(v).s})', BOOL, v.errs)
            raise Untranslatable('unary op')
        if isinstance(n, ast.BinOp):
            return self.binop(n, env)
        if isinstance(n, ast.BoolOp):
            vals = [self.as_bool(self.expr(x, env)) for x in n.values]
            op = '&&' if isinstance(n.op, ast.And) else '||'
            # short-circuit: error conditions of later operands are guarded by the earlier ones
            errs = list(vals[0].errs)
            guard = vals[0].s
            for v in vals[1:]:
                g = guard if op == '&&' else f'(!{guard})'
                errs += [(f'({g} && {c})', e) for (c, e) in v.errs]
                guard = f'({guard} {op} {v.s})'
            s = vals[-1].s
            for v in reversed(vals[:-1]):
                s = f'({v.s} {op} {s})'
            return Val(s, BOOL, errs)
        if isinstance(n, ast.Compare):
            return self.compare(n, env)
        if isinstance(n, ast.IfExp):
            c = self.as_bool(self.expr(n.test, env))
            a = self.expr(n.body, env)
            b = self.expr(n.orelse, env)
            if a.t != b.t:
                a, b, _ = self.num2(a, b)
            errs = c.errs + [(f'({c.s} && {x})', e) for x, e in a.errs] + \
                [(f'((!{c.s}) && {x})', e) for x, e in b.errs]
            return Val(f'(if {c.s} then {a.s} else {b.s})', a.t, errs)
        if isinstance(n, ast.Call):
            return self.call(n, env)
        if isinstance(n, ast.Subscript):
            return self.subscript(n, env)
        if isinstance(n, ast.Tuple):
            parts = [self.expr(e, env) for e in n.elts]
            errs = [e for p in parts for e in p.errs]
            return Val('(' + ', '.join(p.s for p in parts) + ')', TUP, errs, parts)
        raise Untranslatable(f'expression {ast.dump(n)[:80]}')

    def date_attr(self, dv: Val, attr: str) -> Val:
        if attr not in ('d', 'm', 'y', 'excel_dt', 'weekday'):
            raise Untranslatable(f'date attribute {attr}')
        fld = {'d': 'd', 'm': 'm', 'y': 'y', 'excel_dt': 'serial', 'weekday': 'wd'}[attr]
        if dv.t == DATE:
            return Val(f'{dv.s}.{fld}', INT, dv.errs)
        # optional date: AttributeError when None
        return Val(f'(pyGetDate {dv.s}).{fld}', INT, dv.errs + [(f'{dv.s}.isNone', 'attrError')])

    def as_bool(self, v: Val) -> Val:
        if v.t == BOOL:
            return v
        if v.t == INT:
            return Val(f'(decide ({v.s} ≠ 0))', BOOL, v.errs)
        raise Untranslatable(f'truthiness of {v.t}')

    def binop(self, n, env) -> Val:
        a = self.expr(n.left, env)
        b = self.expr(n.right, env)
        errs = a.errs + b.errs
        op = n.op
        # date subtraction is serial subtraction (Date.__sub__)
        if isinstance(op, ast.Sub) and a.t in (DATE, ODATE) and b.t in (DATE, ODATE):
            sa = self.date_attr(a, 'excel_dt')
            sb = self.date_attr(b, 'excel_dt')
            return Val(f'({sa.s} - {sb.s})', INT, sa.errs + sb.errs)
        if isinstance(op, (ast.Add, ast.Sub, ast.Mult)):
            a, b, t = self.num2(a, b)
            sym = {ast.Add: '+', ast.Sub: '-', ast.Mult: '*'}[type(op)]
            return Val(f'({a.s} {sym} {b.s})', t, errs)
        if isinstance(op, ast.Div):
            a = self.coerce(a, NUM)
            b = self.coerce(b, NUM)
            if self.d.kind == 'int' and not b.nz:
                errs = errs + [(f'(decide ({b.s} = 0))', 'zeroDiv')]
            return Val(f'({a.s} / {b.s})', NUM, errs)
        if isinstance(op, (ast.FloorDiv, ast.Mod)):
            if a.t != INT or b.t != INT:
                raise Untranslatable('// or % on non-int')
            poslit = isinstance(n.right, ast.Constant) and isinstance(n.right.value, int) and n.right.value > 0
            if poslit:
                sym = '/' if isinstance(op, ast.FloorDiv) else '%'
                return Val(f'({a.s} {sym} {b.s})', INT, errs)
            f = 'pyFloorDiv' if isinstance(op, ast.FloorDiv) else 'pyMod'
            return Val(f'({f} {a.s} {b.s})', INT, errs + [(f'(decide ({b.s} = 0))', 'zeroDiv')])
        if isinstance(op, ast.Pow):
            if isinstance(n.right, ast.Constant) and isinstance(n.right.value, int) and n.right.value >= 0:
                k = n.right.value
                if a.t == INT:
                    return Val(f'({a.s} ^ ({k} : Nat))', INT, errs)
                if self.d.kind == 'float':
                    return Val(f'(Float.pow {a.s} ({float(k)} : Float))', NUM, errs)
                return Val(f'({a.s} ^ ({k} : Nat))', NUM, errs)
            a = self.coerce(a, NUM)
            b = self.coerce(b, NUM)
            return Val(f'({self.d.fn("pow")} {a.s} {b.s})', NUM, errs)
        raise Untranslatable(f'binary op {type(op).__name__}')

    def compare(self, n, env) -> Val:
        operands = [n.left] + list(n.comparators)
        pieces = []
        errs = []
        prev = self.expr(operands[0], env)
        errs += prev.errs
        for op, rn in zip(n.ops, operands[1:]):
            if isinstance(op, (ast.In, ast.NotIn)):
                if not isinstance(rn, (ast.Tuple, ast.List)):
                    raise Untranslatable('`in` needs a literal tuple/list')
                elts = [self.expr(e, env) for e in rn.elts]
                if prev.t != INT or any(e.t != INT for e in elts):
                    raise Untranslatable('`in` over non-int')
                s = f'(pyIn {prev.s} [' + ', '.join(e.s for e in elts) + '])'
                if isinstance(op, ast.NotIn):
                    s = f'(!{s})'
                pieces.append(s)
                continue
            right = self.expr(rn, env)
            errs += [(c, e) for c, e in right.errs]
            if isinstance(op, (ast.Is, ast.IsNot)):
                neg = isinstance(op, ast.IsNot)
                if right.t == NONE:
                    if prev.t == ODATE:
                        s = f'{prev.s}.isNone'
                    elif prev.t == ONUM:
                        s = f'{prev.s}.isNone'
                    elif prev.t in (DATE, INT, NUM, BOOL):
                        s = 'false'
                    else:
                        raise Untranslatable('is None on ' + prev.t)
                elif right.t == BOOL and prev.t == BOOL:
                    s = f'({prev.s} == {right.s})'
                else:
                    raise Untranslatable('`is` comparison')
                pieces.append(f'(!{s})' if neg else s)
                prev = right
                continue
            a, b = prev, right
            if a.t in (DATE, ODATE) and b.t in (DATE, ODATE):
                a = self.date_attr(a, 'excel_dt')
                b = self.date_attr(b, 'excel_dt')
                errs += a.errs + b.errs
            if (a.t == ONUM or b.t == ONUM) and isinstance(op, (ast.Eq, ast.NotEq)):
                def opt(v):
                    if v.t == ONUM:
                        return v.s
                    return f'(some {self.coerce(v, NUM).s})'
                s_ = f'(decide ({opt(a)} = {opt(b)}))'
                pieces.append(s_ if isinstance(op, ast.Eq) else f'(!{s_})')
                prev = right
                continue
            if a.t == BOOL and b.t == BOOL and isinstance(op, (ast.Eq, ast.NotEq)):
                s = f'({a.s} == {b.s})' if isinstance(op, ast.Eq) else f'({a.s} != {b.s})'
                pieces.append(s)
                prev = right
                continue
            a2, b2, _ = self.num2(Val(a.s, a.t), Val(b.s, b.t))
            sym = {ast.Eq: '=', ast.NotEq: '≠', ast.Lt: '<', ast.LtE: '≤', ast.Gt: '>', ast.GtE: '≥'}[type(op)]
            pieces.append(f'(decide ({a2.s} {sym} {b2.s}))')
            prev = right
        s = pieces[-1]
        for p in reversed(pieces[:-1]):
            s = f'({p} && {s})'
        return Val(s, BOOL, errs)

    def subscript(self, n, env) -> Val:
        dn = self.dotted(n.value)
        if dn is None or dn not in self.consts or not isinstance(self.consts[dn], (list, tuple)):
            raise Untranslatable(f'subscript of {ast.unparse(n.value)}')
        tbl = self.consts[dn]
        if not all(isinstance(x, int) and not isinstance(x, bool) for x in tbl):
            raise Untranslatable('table of non-ints')
        lean_tbl = 'tbl_' + dn.replace('.', '_')
        self.table_decls[lean_tbl] = list(tbl)
        idx = self.expr(n.slice, env)
        if idx.t != INT:
            raise Untranslatable('non-int index')
        L = len(tbl)
        cond = f'(decide ({idx.s} < -{L}) || decide ({idx.s} ≥ {L}))'
        return Val(f'(pyIdxD {lean_tbl} {idx.s} 0)', INT, idx.errs + [(cond, 'indexError')])

    def call(self, n, env) -> Val:
        fn = self.dotted(n.func)
        if fn is None:
            raise Untranslatable('call of non-name')
        if n.keywords:
            raise Untranslatable('keyword arguments')
        args = [self.expr(a, env) for a in n.args]
        errs = [e for a in args for e in a.errs]
        short = fn.split('.')[-1]
        if fn.startswith('np.') or fn.startswith('math.') or fn in ('abs', 'max', 'min', 'pow', 'sqrt', 'exp', 'log'):
            key = NP_FUNCS.get(short, short)
            if key in ('max', 'min') and len(args) == 2:
                a, b, t = self.num2(args[0], args[1])
                f = self.d.fn(key) if t == NUM else key
                return Val(f'({f} {a.s} {b.s})', t, errs)
            if key == 'abs' and len(args) == 1:
                if args[0].t == INT:
                    return Val(f'(Int.natAbs {args[0].s} : Int)', INT, errs)
                a = self.coerce(args[0], NUM)
                if self.d.kind == 'real':
                    return Val(f'|{a.s}|', NUM, errs)
                return Val(f'({self.d.fn("abs")} {a.s})', NUM, errs)
            if key == 'pow' and len(args) == 2:
                a = self.coerce(args[0], NUM)
                b = self.coerce(args[1], NUM)
                return Val(f'({self.d.fn("pow")} {a.s} {b.s})', NUM, errs)
            if len(args) == 1 and key in ('exp', 'log', 'sqrt', 'sin', 'cos', 'tanh', 'sinh', 'cosh', 'atan', 'floor'):
                a = self.coerce(args[0], NUM)
                return Val(f'({self.d.fn(key)} {a.s})', NUM, errs)
            raise Untranslatable(f'numpy/math function {fn}/{len(args)}')
        if fn == 'int' and len(args) == 1:
            if args[0].t == INT:
                return args[0]
            if self.d.kind == 'int':
                return Val(f'(pyIntRat {args[0].s})', INT, errs)
            raise Untranslatable('int() of a float')
        if fn == 'float' and len(args) == 1:
            return self.coerce(args[0], NUM)
        if fn == 'Date' and len(args) == 3:
            d_, m_, y_ = args
            return Val(f'(mkDate {d_.s} {m_.s} {y_.s})', DATE, errs)
        if fn in self.funcs:
            spec = self.funcs[fn]
            want = [t for _, t in spec.params]
            if len(want) != len(args):
                raise Untranslatable(f'arity mismatch calling {fn}')
            cs = []
            for a, t in zip(args, want):
                if t == DATE and a.t == DATE:
                    cs.append(a.s)
                elif t == ODATE and a.t in (ODATE, DATE):
                    cs.append(a.s if a.t == ODATE else f'(some {a.s})')
                elif t in (INT, NUM, BOOL):
                    cs.append(self.coerce(a, t).s)
                else:
                    raise Untranslatable(f'argument type {a.t} for {t} calling {fn}')
            rt = spec.ret
            cs += list(spec.implicit_args)
            return Val('(' + ' '.join([spec.lean_name] + cs) + ')', rt, errs)
        if fn == env.get('__self_name__'):
            # self-recursive call, unrolled with fuel
            spec = env['__self_spec__']
            cs = [self.coerce(a, t).s for a, (_, t) in zip(args, spec.params)]
            return Val('(' + ' '.join(['rec'] + cs) + ')', spec.ret, errs)
        raise Untranslatable(f'call of {fn}')

    # --------------------------------------------------------------- statements
    def wrap_errs(self, errs, body: str, fallible: bool) -> str:
        if not errs:
            return body
        if not fallible:
            raise Untranslatable('error condition in a function declared infallible: ' + str(errs[:1]))
        for c, e in reversed(errs):
            body = f'if {c} then .error .{e} else\n{body}'
        return body

    def block(self, stmts, env, spec: FuncSpec, fallible: bool) -> str:
        """Translate a statement list that must end in return/raise on every path."""
        if not stmts:
            if spec.fallthrough is not None:
                return f'.ok {spec.fallthrough}' if fallible else spec.fallthrough
            raise Untranslatable(f'{spec.py_name}: control reaches end of function without return')
        st, rest = stmts[0], stmts[1:]
        if isinstance(st, ast.Expr):
            if isinstance(st.value, ast.Constant):      # docstring
                return self.block(rest, env, spec, fallible)
            if isinstance(st.value, ast.Call) and self.dotted(st.value.func) == 'print':
                return self.block(rest, env, spec, fallible)
            raise Untranslatable('expression statement ' + ast.unparse(st)[:60])
        if isinstance(st, ast.Pass):
            return self.block(rest, env, spec, fallible)
        if isinstance(st, ast.Return):
            if st.value is None:
                raise Untranslatable('bare return')
            v = self.expr(st.value, env)
            v = self.ret_coerce(v, spec.ret)
            body = f'.ok {v.s}' if fallible else v.s
            return self.wrap_errs(v.errs, body, fallible)
        if isinstance(st, ast.Raise):
            if not fallible:
                raise Untranslatable('raise in a function declared infallible')
            exc = st.exc
            name = self.dotted(exc.func) if isinstance(exc, ast.Call) else self.dotted(exc)
            kind = {'FinError': 'finError', 'IndexError': 'indexError', 'ValueError': 'other',
                    'TypeError': 'typeError'}.get(name, 'other')
            return f'.error .{kind}'
        if isinstance(st, (ast.Assign, ast.AugAssign, ast.AnnAssign)):
            if isinstance(st, ast.AugAssign):
                tgt = st.target
                val = ast.BinOp(left=ast.Name(id=tgt.id, ctx=ast.Load()), op=st.op, right=st.value)
            elif isinstance(st, ast.AnnAssign):
                tgt, val = st.target, st.value
            else:
                if len(st.targets) != 1:
                    raise Untranslatable('multiple assignment targets')
                tgt, val = st.targets[0], st.value
            if not isinstance(tgt, ast.Name):
                raise Untranslatable('assignment to non-name ' + ast.unparse(tgt))
            v = self.expr(val, env)
            if v.t in (TUP, NONE):
                raise Untranslatable('assignment of tuple/None')
            name = self.fresh(tgt.id, env)
            env2 = dict(env)
            env2[tgt.id] = Val(name, v.t, nz=v.nz)
            body = f'let {name} := {v.s}\n' + self.block(rest, env2, spec, fallible)
            return self.wrap_errs(v.errs, body, fallible)
        if isinstance(st, ast.If):
            c = self.as_bool(self.expr(st.test, env))
            env_t, env_f = self.refine(st.test, env)
            t_term = self.terminates(st.body)
            f_term = self.terminates(st.orelse) if st.orelse else False
            # single-variable assignment-only `if` → `let x := if c then e else x`
            simple = self.simple_assign_if(st, env)
            if simple is not None and rest:
                var, ea, eb = simple
                if ea.t != eb.t:
                    ea, eb, _ = self.num2(ea, eb)
                if not (ea.errs or eb.errs):
                    name = self.fresh(var, env)
                    env2 = dict(env)
                    env2[var] = Val(name, ea.t, nz=(ea.nz and eb.nz))
                    body = f'let {name} := if {c.s} then {ea.s} else {eb.s}\n' + self.block(rest, env2, spec, fallible)
                    return self.wrap_errs(c.errs, body, fallible)
            def branch(stmts_, env_):
                try:
                    return self.block(stmts_, env_, spec, fallible)
                except UnboundName as e:
                    if not fallible:
                        raise Untranslatable(f'possibly unbound local {e} in a function declared infallible')
                    return '.error .other  -- UnboundLocalError: ' + str(e)
            a = branch(st.body + ([] if t_term else rest), env_t)
            b = branch((st.orelse or []) + ([] if f_term else rest), env_f)
            body = f'if {c.s} then\n{textwrap.indent(a, "  ")}\nelse\n{textwrap.indent(b, "  ")}'
            return self.wrap_errs(c.errs, body, fallible)
        raise Untranslatable(f'{spec.py_name}: statement {type(st).__name__}: {ast.unparse(st)[:60]}')

    def ret_coerce(self, v: Val, ret: str) -> Val:
        if ret.startswith('tuple:'):
            want = ret[len('tuple:'):].split(',')
            if v.t != TUP or len(v.parts) != len(want):
                raise Untranslatable('return arity')
            parts = [self.coerce(p, t) for p, t in zip(v.parts, want)]
            return Val('(' + ', '.join(p.s for p in parts) + ')', TUP, v.errs, parts)
        return self.coerce(v, ret)

    def simple_assign_if(self, st: ast.If, env):
        """`if c: x = e` (optionally `else: x = e2`) with x already bound (or bound in both)."""
        def one(body):
            if len(body) == 1 and isinstance(body[0], ast.Assign) and len(body[0].targets) == 1 \
                    and isinstance(body[0].targets[0], ast.Name):
                return body[0].targets[0].id, body[0].value
            return None
        a = one(st.body)
        if a is None:
            return None
        if st.orelse:
            b = one(st.orelse)
            if b is None or b[0] != a[0]:
                return None
            return a[0], self.expr(a[1], env), self.expr(b[1], env)
        if a[0] not in env:
            return None
        old = env[a[0]]
        if old.t in (DATE, ODATE):
            return None
        return a[0], self.expr(a[1], env), Val(old.s, old.t, nz=old.nz)

    def refine(self, test, env):
        """Flow facts from `x is None` / `x is not None` tests on optional parameters."""
        env_t, env_f = env, env
        if isinstance(test, ast.Compare) and len(test.ops) == 1 and isinstance(test.left, ast.Name) \
                and isinstance(test.comparators[0], ast.Constant) and test.comparators[0].value is None \
                and test.left.id in env and env[test.left.id].t in (ODATE, ONUM):
            v = env[test.left.id]
            known = Val(f'(pyGetDate {v.s})', DATE) if v.t == ODATE else Val(f'(pyGetNum {v.s})', NUM)
            if isinstance(test.ops[0], ast.Is):
                env_f = dict(env)
                env_f[test.left.id] = known
            elif isinstance(test.ops[0], ast.IsNot):
                env_t = dict(env)
                env_t[test.left.id] = known
        if isinstance(test, ast.BoolOp) and isinstance(test.op, ast.Or):
            # `a is None or b is None` : in the else-branch both are known
            e = env
            for sub in test.values:
                _, e = self.refine(sub, e)
            env_f = e
        return env_t, env_f

    def terminates(self, stmts) -> bool:
        if not stmts:
            return False
        last = stmts[-1]
        if isinstance(last, (ast.Return, ast.Raise)):
            return True
        if isinstance(last, ast.If):
            return self.terminates(last.body) and bool(last.orelse) and self.terminates(last.orelse)
        return False

    def fresh(self, base, env):
        used = {v.s for k, v in env.items() if isinstance(v, Val)}
        name = base
        i = 1
        while name in used or name in LEAN_RESERVED:
            name = f'{base}_{i}'
            i += 1
        return name

    # ------------------------------------------------------------- functions
    def has_raise(self, fnode) -> bool:
        return any(isinstance(x, ast.Raise) for x in ast.walk(fnode))

    def lean_type(self, t: str) -> str:
        if t.startswith('tuple:'):
            return ' × '.join(self.lean_type(x) for x in t[len('tuple:'):].split(','))
        return {INT: 'Int', NUM: self.d.num, BOOL: 'Bool', DATE: 'PyDate', ODATE: 'Option PyDate',
                ONUM: f'Option {self.d.num}'}[t]

    def function(self, fnode: ast.FunctionDef, spec: FuncSpec, force_fallible=None) -> str:
        env = {}
        params = []
        for p, t in spec.params:
            lp = p if p not in LEAN_RESERVED else p + '_'
            env[p] = Val(lp, t)
            params.append((lp, t))
        am = {}
        for k, (ln, t) in spec.attr_map.items():
            am[k] = Val(ln, t)
        env['__attr_map__'] = am
        for ln, t in spec.extra_params:
            params.append((ln, t))
        body_stmts = list(fnode.body)
        env['__assigned__'] = {t.id for x in ast.walk(fnode) if isinstance(x, (ast.Assign, ast.AugAssign, ast.AnnAssign))
                               for t in (x.targets if isinstance(x, ast.Assign) else [x.target]) if isinstance(t, ast.Name)}
        if spec.bool_chain:
            body = self.bool_chain(body_stmts, env, spec)
            fallible = False
        else:
            fallible = self.has_raise(fnode) if force_fallible is None else force_fallible
            if spec.fuel:
                env['__self_name__'] = spec.py_name
                env['__self_spec__'] = spec
            try:
                body = self.block(body_stmts, env, spec, fallible)
            except Untranslatable as e:
                if 'declared infallible' in str(e) and force_fallible is None and not fallible:
                    fallible = True
                    body = self.block(body_stmts, env, spec, True)
                else:
                    raise
        rt = self.lean_type(spec.ret)
        if fallible:
            rt = f'Except PyErr ({rt})'
        sig = ' '.join(f'({n} : {self.lean_type(t)})' for n, t in params)
        nc = 'noncomputable ' if self.d.kind == 'real' else ''
        doc = f'/-- generated from `{spec.py_name}`{(": " + spec.doc) if spec.doc else ""} -/\n'
        if spec.fuel:
            inner = textwrap.indent(body, '    ')
            zero = self.d.lit_float(0.0) if spec.ret == NUM else '0'
            return (f'{doc}{nc}def {spec.lean_name}_fuel : Nat → ' +
                    ' → '.join(self.lean_type(t) for _, t in params) + f' → {rt}\n'
                    f'  | 0 => fun ' + ' '.join('_' for _ in params) + f' => {zero}\n'
                    f'  | fuel + 1 => fun ' + ' '.join(n for n, _ in params) + ' =>\n'
                    f'    let rec_ := {spec.lean_name}_fuel fuel\n' +
                    inner.replace('(rec ', '(rec_ ') + '\n\n'
                    f'{nc}def {spec.lean_name} {sig} : {rt} :=\n  {spec.lean_name}_fuel {spec.fuel} ' +
                    ' '.join(n for n, _ in params) + '\n')
        return f'{doc}{nc}def {spec.lean_name} {sig} : {rt} :=\n' + textwrap.indent(body, '  ') + '\n'

    def bool_chain(self, stmts, env, spec) -> str:
        """`[x = e]* (if c: return True)* … return False` → right-nested `c1 || (c2 || … false)`.
        Interleaved assignments become `let`s scoped over the remainder of the chain."""
        if not stmts:
            raise Untranslatable('bool chain: missing final return')
        st, rest = stmts[0], stmts[1:]
        if isinstance(st, ast.Expr) and isinstance(st.value, ast.Constant):
            return self.bool_chain(rest, env, spec)
        if isinstance(st, ast.Return):
            v = self.expr(st.value, env)
            if v.t != BOOL or v.errs:
                raise Untranslatable('bool chain: final return must be a plain bool')
            return v.s
        if isinstance(st, ast.Assign) and len(st.targets) == 1 and isinstance(st.targets[0], ast.Name):
            v = self.expr(st.value, env)
            name = self.fresh(st.targets[0].id, env)
            env2 = dict(env)
            env2[st.targets[0].id] = Val(name, v.t)
            # error conditions (table index out of range) are exported as a side predicate
            spec.__dict__.setdefault('side_errs', []).extend(v.errs)
            return f'(let {name} := {v.s}\n' + self.bool_chain(rest, env2, spec) + ')'
        if isinstance(st, ast.If) and not st.orelse and len(st.body) == 1 and isinstance(st.body[0], ast.Return) \
                and isinstance(st.body[0].value, ast.Constant) and st.body[0].value.value is True:
            c = self.as_bool(self.expr(st.test, env))
            if c.errs:
                raise Untranslatable('bool chain: fallible condition')
            return f'({c.s} ||\n' + self.bool_chain(rest, env, spec) + ')'
        if isinstance(st, ast.If) and len(st.body) == 1 and isinstance(st.body[0], ast.Return) \
                and len(st.orelse) == 1 and isinstance(st.orelse[0], ast.Return) and not rest:
            c = self.as_bool(self.expr(st.test, env))
            a = self.expr(st.body[0].value, env)
            b = self.expr(st.orelse[0].value, env)
            return f'(if {c.s} then {a.s} else {b.s})'
        raise Untranslatable(f'bool chain: statement {ast.unparse(st)[:60]}')

    def tables(self) -> str:
        out = []
        for name, tbl in self.table_decls.items():
            rows = []
            for i in range(0, len(tbl), 16):
                rows.append(', '.join(str(x) for x in tbl[i:i + 16]))
            out.append(f'def {name} : List Int := [\n  ' + ',\n  '.join(rows) + ']\n')
        return '\n'.join(out)


LEAN_RESERVED = {'at', 'from', 'end', 'fun', 'open', 'in', 'then', 'else', 'if', 'let', 'do', 'have', 'show',
                 'by', 'with', 'match', 'def', 'theorem', 'local', 'section', 'namespace', 'variable', 'λ',
                 'instance', 'class', 'structure', 'Type', 'Prop', 'Sort', 'rec', 'rec_', 'max', 'min', 'abs'}


def find_function(tree: ast.Module, qualname: str) -> ast.FunctionDef:
    parts = qualname.split('.')
    body = tree.body
    node = None
    for p in parts:
        node = None
        for x in body:
            if isinstance(x, (ast.FunctionDef, ast.ClassDef)) and x.name == p:
                node = x
                break
        if node is None:
            raise Untranslatable(f'{qualname}: not found in source')
        body = node.body
    if not isinstance(node, ast.FunctionDef):
        raise Untranslatable(f'{qualname}: not a function')
    return node
