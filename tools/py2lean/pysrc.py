"""Reading constants out of FinancePy source *without importing it* (so that a broken or
slow-to-import working tree cannot stop generation, and so that what is read is the text
of the working tree, not a cached byte-code or a Numba cache)."""
from __future__ import annotations

import ast
import os

REPO = os.environ.get('FINVERIF_REPO', '/repo')


def read(relpath: str) -> str:
    with open(os.path.join(REPO, relpath), encoding='utf-8') as f:
        return f.read()


def parse(relpath: str) -> ast.Module:
    return ast.parse(read(relpath), filename=relpath)


def _lit(node, known):
    """Evaluate a module-level constant expression: literals, names already known, unary minus,
    and arithmetic on those."""
    if isinstance(node, ast.Constant):
        return node.value
    if isinstance(node, ast.Name) and node.id in known:
        return known[node.id]
    if isinstance(node, ast.UnaryOp) and isinstance(node.op, ast.USub):
        return -_lit(node.operand, known)
    if isinstance(node, ast.UnaryOp) and isinstance(node.op, ast.UAdd):
        return _lit(node.operand, known)
    if isinstance(node, (ast.List, ast.Tuple)):
        return [_lit(e, known) for e in node.elts]
    if isinstance(node, ast.BinOp):
        a, b = _lit(node.left, known), _lit(node.right, known)
        import operator as op
        import math
        table = {ast.Add: op.add, ast.Sub: op.sub, ast.Mult: op.mul, ast.Div: op.truediv, ast.Pow: op.pow}
        if type(node.op) in table:
            return table[type(node.op)](a, b)
    if isinstance(node, ast.Call) and isinstance(node.func, ast.Attribute) and \
            isinstance(node.func.value, ast.Name) and node.func.value.id in ('np', 'math'):
        import math
        f = {'sqrt': math.sqrt, 'exp': math.exp, 'log': math.log}.get(node.func.attr)
        if f and len(node.args) == 1:
            return f(_lit(node.args[0], known))
    if isinstance(node, ast.Attribute) and isinstance(node.value, ast.Name) and node.value.id in ('np', 'math') \
            and node.attr == 'pi':
        import math
        return math.pi
    raise ValueError('not a constant expression')


def module_consts(relpath: str) -> dict:
    """Module-level NAME = <constant>, and for classes: Class.NAME = <constant> (enum members and
    class-level integer constants).  Enum members are also exposed as `Class.NAME.value`."""
    tree = parse(relpath)
    out = {}
    for st in tree.body:
        if isinstance(st, ast.Assign) and len(st.targets) == 1 and isinstance(st.targets[0], ast.Name):
            try:
                out[st.targets[0].id] = _lit(st.value, out)
            except Exception:
                pass
        if isinstance(st, ast.ClassDef):
            is_enum = any((isinstance(b, ast.Name) and b.id == 'Enum') for b in st.bases)
            for cs in st.body:
                if isinstance(cs, ast.Assign) and len(cs.targets) == 1 and isinstance(cs.targets[0], ast.Name):
                    try:
                        v = _lit(cs.value, out)
                    except Exception:
                        continue
                    out[f'{st.name}.{cs.targets[0].id}'] = v
                    if is_enum:
                        out[f'{st.name}.{cs.targets[0].id}.value'] = v
    return out


def enum_members(relpath: str, cls: str) -> dict:
    c = module_consts(relpath)
    pre = cls + '.'
    return {k[len(pre):]: v for k, v in c.items() if k.startswith(pre) and not k.endswith('.value')}
