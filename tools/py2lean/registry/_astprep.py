"""AST preparation used by registry builders *before* the translator sees a function.

Two source-to-source steps, both conservative (anything unexpected raises `Untranslatable`, which the
harness reports as a broken obligation — nothing is skipped silently):

* `inline_tuple_call`: `a, b = helper(x, y)` where `helper` is a straight-line function ending in
  `return np.array([e1, e2])` (or a tuple) is replaced by the helper's body with its locals renamed
  (`name` -> `name_c`), parameters bound to the call's arguments and `a = e1; b = e2` at the end.
  This is ordinary inlining; `raise` statements of the helper stay where they are.

* `slice_method`: builds a kernel function out of a method whose head is object glue (argument validation,
  curve look-ups).  Statements are dropped or have their right-hand side replaced by a new parameter only
  when their exact source text (`ast.unparse`) is listed, and every listed text must occur exactly once,
  so any edit to the glue makes generation fail loudly instead of changing the meaning of the kernel.
"""
from __future__ import annotations

import ast
import copy

from py2lean import Untranslatable


class _Rename(ast.NodeTransformer):
    def __init__(self, names, suffix):
        self.names = names
        self.suffix = suffix

    def visit_Name(self, node):
        if node.id in self.names:
            return ast.copy_location(ast.Name(id=node.id + self.suffix, ctx=node.ctx), node)
        return node


def _locals_of(fnode: ast.FunctionDef):
    names = {a.arg for a in fnode.args.args}
    for x in ast.walk(fnode):
        if isinstance(x, ast.Name) and isinstance(x.ctx, ast.Store):
            names.add(x.id)
    return names


def inline_tuple_call(caller: ast.FunctionDef, callee: ast.FunctionDef, suffix='_c') -> ast.FunctionDef:
    caller = copy.deepcopy(caller)
    params = [a.arg for a in callee.args.args]
    loc = _locals_of(callee)
    body = [s for s in callee.body
            if not (isinstance(s, ast.Expr) and isinstance(s.value, ast.Constant))]
    if not body or not isinstance(body[-1], ast.Return):
        raise Untranslatable(f'inline {callee.name}: last statement is not a return')
    for s in body[:-1]:
        for x in ast.walk(s):
            if isinstance(x, ast.Return):
                raise Untranslatable(f'inline {callee.name}: early return')
    ret = body[-1].value
    if isinstance(ret, ast.Call) and Translator_dotted(ret.func) == 'np.array' and len(ret.args) == 1 \
            and isinstance(ret.args[0], (ast.List, ast.Tuple)):
        ret_elts = ret.args[0].elts
    elif isinstance(ret, ast.Tuple):
        ret_elts = ret.elts
    else:
        raise Untranslatable(f'inline {callee.name}: return is not np.array([..]) / tuple')
    n_sites = 0
    new_body = []
    for st in caller.body:
        if isinstance(st, ast.Assign) and len(st.targets) == 1 and isinstance(st.targets[0], ast.Tuple) \
                and isinstance(st.value, ast.Call) and isinstance(st.value.func, ast.Name) \
                and st.value.func.id == callee.name:
            tg = st.targets[0].elts
            if len(tg) != len(ret_elts) or not all(isinstance(t, ast.Name) for t in tg):
                raise Untranslatable(f'inline {callee.name}: target arity')
            if len(st.value.args) != len(params) or st.value.keywords:
                raise Untranslatable(f'inline {callee.name}: call arity')
            n_sites += 1
            rn = _Rename(loc, suffix)
            for p, a in zip(params, st.value.args):
                new_body.append(ast.Assign(targets=[ast.Name(id=p + suffix, ctx=ast.Store())], value=a))
            for s in body[:-1]:
                new_body.append(rn.visit(copy.deepcopy(s)))
            for t, e in zip(tg, ret_elts):
                if t.id == '_':
                    continue
                new_body.append(ast.Assign(targets=[ast.Name(id=t.id, ctx=ast.Store())],
                                           value=rn.visit(copy.deepcopy(e))))
        else:
            for x in ast.walk(st):
                if isinstance(x, ast.Call) and isinstance(x.func, ast.Name) and x.func.id == callee.name:
                    raise Untranslatable(f'inline {callee.name}: call in an unsupported position: '
                                         + ast.unparse(st)[:60])
            new_body.append(st)
    if n_sites != 1:
        raise Untranslatable(f'inline {callee.name} into {caller.name}: {n_sites} call sites (expected 1)')
    caller.body = new_body
    ast.fix_missing_locations(caller)
    return caller


def Translator_dotted(node):
    parts = []
    while isinstance(node, ast.Attribute):
        parts.append(node.attr)
        node = node.value
    if isinstance(node, ast.Name):
        parts.append(node.id)
        return '.'.join(reversed(parts))
    return None


def slice_method(fnode: ast.FunctionDef, drop: list, subst: dict, name: str) -> ast.FunctionDef:
    """drop: exact `ast.unparse` texts of top-level statements to remove (each must occur exactly once);
    subst: {exact unparse text of an assignment's right-hand side: new parameter name} (each exactly once)."""
    fnode = copy.deepcopy(fnode)
    seen_drop = {d: 0 for d in drop}
    seen_sub = {s: 0 for s in subst}
    out = []
    for st in fnode.body:
        if isinstance(st, ast.Expr) and isinstance(st.value, ast.Constant):
            continue
        txt = ast.unparse(st)
        if txt in seen_drop:
            seen_drop[txt] += 1
            continue
        if isinstance(st, ast.Assign):
            rhs = ast.unparse(st.value)
            if rhs in seen_sub:
                seen_sub[rhs] += 1
                st = ast.Assign(targets=st.targets, value=ast.Name(id=subst[rhs], ctx=ast.Load()))
        out.append(st)
    bad = [k for k, v in list(seen_drop.items()) + list(seen_sub.items()) if v != 1]
    if bad:
        raise Untranslatable(f'{name}: glue statements changed (expected exactly once each): '
                             + ' | '.join(b[:70] for b in bad))
    fnode.body = out
    fnode.name = name
    ast.fix_missing_locations(fnode)
    return fnode
