"""Generated module `ArgWrites`: the in-place argument-mutation table of tools/effects/argwrites.py as Lean data (C18g).

One `ArgWrite` per (function, parameter, kind of write, via alias?) with the first line it occurs on, for EVERY def under
financepy/ that writes through a parameter; and one `FileCount` per file (defs scanned, defs in the AST, textual `def ` lines)
so that Props/C18g can state that no file / def was skipped."""
import importlib
import os
import sys

HERE = os.path.dirname(os.path.abspath(__file__))
sys.path.insert(0, os.path.join(os.path.dirname(os.path.dirname(HERE)), 'effects'))


def _s(x):
    return '"' + x.replace('\\', '\\\\').replace('"', '\\"') + '"'


def build_argwrites(P, S):
    import argwrites
    importlib.reload(argwrites)
    res = argwrites.analyse(S.REPO)
    first = {}
    for rel, fid, line, p, kind, via in res['writes']:
        k = (rel, fid, p, kind, via)
        if k not in first:
            first[k] = line
    out = ['import FinVerif.Spec.ArgWrites', '', 'namespace FinVerif.Gen.ArgWrites', 'open FinVerif.Spec.ArgWrites', '']
    out.append('/-- every in-place write through a parameter (or a local alias of one) found under financepy/ -/')
    out.append('def argWrites : List ArgWrite := [' + ',\n  '.join(
        '{ file := %s, fn := %s, line := %d, param := %s, kind := %s, viaAlias := %s }'
        % (_s(rel), _s(fid), line, _s(p), _s(kind), 'true' if via else 'false')
        for (rel, fid, p, kind, via), line in first.items()) + ']\n')
    out.append('/-- per file: defs scanned by the extractor, FunctionDef nodes in the AST, lines that textually open a `def` -/')
    out.append('def fileCounts : List FileCount := [' + ',\n  '.join(
        '{ file := %s, scanned := %d, astDefs := %d, textual := %d }' % (_s(rel), a, b, c) for rel, a, b, c in res['files']) + ']\n')
    out.append('def totalScanned : Nat := %d\n' % sum(r[1] for r in res['files']))
    out.append('def totalTextual : Nat := %d\n' % sum(r[3] for r in res['files']))
    out.append('end FinVerif.Gen.ArgWrites\n')
    return [r[0] for r in res['files']], '\n'.join(out)


MODULES = {'ArgWrites': build_argwrites}
