"""Generated module for the glue of the basis swaps and of the futures -> FRA conversion (property C06, growth round 6).

  BasisR  ℝ, noncomputable (Props/C06h: the hand model's `basisSwapValue`, `mkBasisLegs`, `mkOisBasisLegs` read the leg values,
          leg types, spreads, notional, principal and payment lags exactly as these functions do)

Cut out of the source (name in the generated module  <-  source):

  ibor_basis_value      <- IborBasisSwap.value     products/rates/ibor_basis_swap.py  the two `self.float_leg_k.value(...)` calls are parameters
  ibor_basis_leg2_pay   <- IborBasisSwap.__init__                                      the statements that choose `leg2Type`
  ibor_basis_leg1_args  <- IborBasisSwap.__init__                                      what the constructor hands to `SwapFloatLeg(...)` for leg 1:
  ibor_basis_leg2_args                                                                 (spread, notional, principal, payment_lag), same for leg 2
  ois_basis_value       <- OISBasisSwap.value      products/rates/ois_basis_swap.py
  ois_basis_leg2_pay    <- OISBasisSwap.__init__
  ois_basis_leg1_args / ois_basis_leg2_args
  future_to_fra_args    <- IborFuture.to_fra       products/rates/ibor_future.py       what `to_fra` hands to `IborFRA(...)`:
                                                                                       (fra_rate, notional, pay_fixed_rate); `self.fra_rate(...)` is a parameter

All cuts by exact source text with exact counts (registry.swaps._cut): an edit to the glue makes generation fail loudly.
`SwapTypes.PAY` in `leg2Type = SwapTypes.PAY` becomes the Bool `True` (is-PAY encoding), `SwapTypes.RECEIVE` `False`,
`leg_1_type == SwapTypes.PAY` the Bool parameter `leg1_is_pay`.  The positions of the arguments in the `SwapFloatLeg(...)` call are
checked against the signature of `SwapFloatLeg.__init__` read from the source (parameter names at positions 2,3,6,7,8).
"""
from __future__ import annotations

import ast
import copy

from registry.bs import prelude, GV_PY
from registry.swaps import _cut, _fn, U, FLOAT_PY

IBS_PY = 'financepy/products/rates/ibor_basis_swap.py'
OBS_PY = 'financepy/products/rates/ois_basis_swap.py'
FUT_PY = 'financepy/products/rates/ibor_future.py'
FRA_PY = 'financepy/products/rates/ibor_fra.py'

SOURCES = [IBS_PY, OBS_PY, FUT_PY, FRA_PY, FLOAT_PY, GV_PY]

FLOAT_LEG_SIG = {2: 'leg_type', 3: 'spread', 6: 'notional', 7: 'principal', 8: 'payment_lag'}
FRA_SIG = {2: 'fra_rate'}


def _sig_check(P, S, py, qual, want, what):
    from py2lean import find_function
    f = find_function(S.parse(py), qual)
    names = [a.arg for a in f.args.args][1:]   # without self
    for i, n in want.items():
        if i >= len(names) or names[i] != n:
            raise P.Untranslatable(f'{what}: parameter {i} of {qual} is `{names[i] if i < len(names) else None}` (expected `{n}`)')


def _assign_to(P, f, target, callee, what):
    """the single top-level statement `target = callee(...)`; returns (index, call)"""
    idx = [i for i, st in enumerate(f.body) if isinstance(st, ast.Assign) and len(st.targets) == 1 and U(st.targets[0]) == target
           and isinstance(st.value, ast.Call) and U(st.value.func) == callee]
    if len(idx) != 1:
        raise P.Untranslatable(f'{what}: {len(idx)} statements `{target} = {callee}(...)` (expected 1)')
    return idx[0], f.body[idx[0]].value


def _plain(P, stmts, names, what):
    """the top-level plain assignments to the given local names, in order (each exactly once)"""
    out = []
    for n in names:
        hits = [st for st in stmts if isinstance(st, ast.Assign) and len(st.targets) == 1 and U(st.targets[0]) == n]
        if len(hits) != 1:
            raise P.Untranslatable(f'{what}: {len(hits)} top-level assignments to `{n}` (expected 1)')
        out.append(copy.deepcopy(hits[0]))
    return out


def build_basis(kind):
    def build(P, S):
        from py2lean import FuncSpec, Translator, Dialect, NUM, INT, BOOL, find_function
        consts = dict(S.module_consts(GV_PY))
        tr = Translator(Dialect(kind), consts)
        out = []

        def emit(fn, spec):
            out.append(tr.function(fn, spec, force_fallible=None))

        _sig_check(P, S, FLOAT_PY, 'SwapFloatLeg.__init__', FLOAT_LEG_SIG, 'basis swaps')
        _sig_check(P, S, FRA_PY, 'IborFRA.__init__', FRA_SIG, 'IborFuture.to_fra')

        def basis(py, cls, lean, leg1_attr, leg2_attr, leg1_call, leg2_call, type1, type2, locals_before, params1, params2):
            tree = S.parse(py)
            # ---- value: the statements from the first leg valuation to the end
            f = find_function(tree, f'{cls}.value')
            stmts = [st for st in f.body if not (isinstance(st, ast.Expr) and isinstance(st.value, ast.Constant))]
            keep = [st for st in stmts if not (isinstance(st, ast.If) and U(st.test).endswith(' is None'))]
            if len(stmts) - len(keep) != 2:
                raise P.Untranslatable(f'{cls}.value: expected two `if index_curve is None:` defaults')
            body, _ = _cut(P, keep, f'{cls}.value', subst={leg1_call: 'leg1_value_in', leg2_call: 'leg2_value_in'})
            if not isinstance(body[-1], ast.Return) or U(body[-1].value) != 'value':
                raise P.Untranslatable(f'{cls}.value: does not end in `return value`')
            emit(_fn(f'{lean}_value', body[:-1], ['value']), FuncSpec(
                f'{cls}.value', f'{lean}_value', [('leg1_value_in', NUM), ('leg2_value_in', NUM)], NUM,
                doc=f'leg1_value_in = {leg1_call[:40]}…, leg2_value_in = the second leg\'s value (each on its own index curve)'))
            # ---- __init__: leg 2 type
            f = find_function(tree, f'{cls}.__init__')
            sel = [st for st in f.body if (isinstance(st, ast.Assign) and U(st.targets[0]) == type2)
                   or (isinstance(st, ast.If) and U(st.test) == f'{type1} == SwapTypes.PAY')]
            if len(sel) != 2 or not isinstance(sel[0], ast.Assign) or not isinstance(sel[1], ast.If):
                raise P.Untranslatable(f'{cls}.__init__: expected `{type2} = …` followed by `if {type1} == SwapTypes.PAY:`')
            body, _ = _cut(P, sel, f'{cls}.__init__ leg types',
                           replace={f'{type2} = SwapTypes.PAY': 'leg2_is_pay = True', f'{type2} = SwapTypes.RECEIVE': 'leg2_is_pay = False'},
                           subst={f'{type1} == SwapTypes.PAY': 'leg1_is_pay'})
            emit(_fn(f'{lean}_leg2_pay', body, ['leg2_is_pay']), FuncSpec(
                f'{cls}.__init__[leg 2 type]', f'{lean}_leg2_pay', [('leg1_is_pay', BOOL)], BOOL,
                doc='is-PAY encoding of SwapTypes: the second leg is PAY unless the first is'))
            # ---- __init__: arguments of the two SwapFloatLeg(...) calls
            pre = _plain(P, f.body, locals_before, f'{cls}.__init__')
            for k, attr, typ, params in ((1, leg1_attr, type1, params1), (2, leg2_attr, type2, params2)):
                _, call = _assign_to(P, f, attr, 'SwapFloatLeg', f'{cls}.__init__')
                if call.keywords or len(call.args) != 12:
                    raise P.Untranslatable(f'{cls}.__init__: {attr} = SwapFloatLeg(...) is not a 12-argument positional call')
                if U(call.args[2]) != typ:
                    raise P.Untranslatable(f'{cls}.__init__: leg {k} is built with type `{U(call.args[2])}` (expected `{typ}`)')
                rets = []
                body = copy.deepcopy(pre)
                for nm, pos in (('spread_out', 3), ('notional_out', 6), ('principal_out', 7), ('lag_out', 8)):
                    body.append(ast.Assign(targets=[ast.Name(id=nm, ctx=ast.Store())], value=copy.deepcopy(call.args[pos])))
                    rets.append(nm)
                fn = _fn(f'{lean}_leg{k}_args', body, rets)
                emit(fn, FuncSpec(
                    f'{cls}.__init__[SwapFloatLeg arguments of leg {k}]', f'{lean}_leg{k}_args', params, 'tuple:num,num,num,int',
                    doc=f'(spread, notional, principal, payment_lag) as passed to SwapFloatLeg for {attr}'))

        basis(IBS_PY, 'IborBasisSwap', 'ibor_basis', 'self.float_leg_1', 'self.float_leg_2',
              'self.float_leg_1.value(value_dt, discount_curve, index_curve_leg_1, first_fixing_rate_leg_1)',
              'self.float_leg_2.value(value_dt, discount_curve, index_curve_leg_2, first_fixing_rate_leg_2)',
              'leg_1_type', 'leg2Type', ['payment_lag', 'principal'],
              [('leg_1_spread', NUM), ('leg2Spread', NUM), ('notional', NUM)],
              [('leg_1_spread', NUM), ('leg2Spread', NUM), ('notional', NUM)])
        basis(OBS_PY, 'OISBasisSwap', 'ois_basis', 'self.float_ibor_leg', 'self.float_ois_leg',
              'self.float_ibor_leg.value(value_dt, discount_curve, index_ibor_curve, first_fixing_rate_leg_1)',
              'self.float_ois_leg.value(value_dt, discount_curve, index_ois_curve, first_fixing_rate_leg_2)',
              'ibor_type', 'ois_type', ['principal'],
              [('ibor_spread', NUM), ('ois_spread', NUM), ('ois_payment_lag', INT), ('notional', NUM)],
              [('ibor_spread', NUM), ('ois_spread', NUM), ('ois_payment_lag', INT), ('notional', NUM)])

        # ---------------------------------------------------------------- IborFuture.to_fra
        f = find_function(S.parse(FUT_PY), 'IborFuture.to_fra')
        _, call = _assign_to(P, f, 'fra', 'IborFRA', 'IborFuture.to_fra')
        kw = {k.arg: k.value for k in call.keywords}
        if len(call.args) != 4 or sorted(kw) != ['notional', 'pay_fixed_rate'] or U(call.args[0]) != 'self.delivery_dt' \
                or U(call.args[1]) != 'self.end_of_interest_period' or U(call.args[3]) != 'self.dc_type':
            raise P.Untranslatable('IborFuture.to_fra: the IborFRA(...) call changed shape')
        pre = _plain(P, f.body, ['fra_rate'], 'IborFuture.to_fra')
        pre, _ = _cut(P, pre, 'IborFuture.to_fra', subst={'self.fra_rate(futures_price, convexity)': 'fra_rate_in'})
        body = pre + [ast.Assign(targets=[ast.Name(id='rate_out', ctx=ast.Store())], value=copy.deepcopy(call.args[2])),
                      ast.Assign(targets=[ast.Name(id='notional_out', ctx=ast.Store())], value=copy.deepcopy(kw['notional'])),
                      ast.Assign(targets=[ast.Name(id='pay_fixed_out', ctx=ast.Store())], value=copy.deepcopy(kw['pay_fixed_rate']))]
        emit(_fn('future_to_fra_args', body, ['rate_out', 'notional_out', 'pay_fixed_out']), FuncSpec(
            'IborFuture.to_fra[IborFRA arguments]', 'future_to_fra_args', [('fra_rate_in', NUM)], 'tuple:num,num,bool',
            attr_map={'self.contract_size': ('contract_size', NUM)}, extra_params=[('contract_size', NUM)],
            doc='(fra_rate, notional, pay_fixed_rate) as passed to IborFRA(delivery_dt, end_of_interest_period, …); '
                'fra_rate_in = self.fra_rate(futures_price, convexity)'))
        ns = 'BasisR'
        body = prelude(ns, kind) + '\n'.join(out) + f'\nend FinVerif.Gen.{ns}\n'
        return SOURCES, body
    return build


MODULES = {'BasisR': build_basis('real')}
