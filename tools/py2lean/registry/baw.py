"""Generated modules for C12: the closed-form parts of the Barone-Adesi–Whaley approximation
(`financepy/models/black_scholes_analytic.py`: `_fcall`, `_fput`, `baw_value`).

  BAWF  Float, executable (driver / correspondence), the code's own N (through Gen/BSF)
  BAWP  ℝ, the SAME source text with the normal cdf abstracted to a parameter `Ncdf : ℝ → ℝ` (through Gen/BSP)

Source-to-source preparation (each listed text must occur exactly as written, otherwise generation fails loudly):
  * `_fcall(si, *args)` / `_fput(si, *args)`: the five statements `t = args[0]` … `v = args[4]` are dropped and
    `t, k, r, q, v` become parameters (this is what `newton_secant(func, x0, args=(t, k, r, q, v))` passes);
  * `baw_value`: the two root-finder calls `sstar = newton_secant(_fcall / _fput, x0=s, args=argtuple, tol=1e-07,
    maxiter=50)` are replaced by `sstar = sstar_in` (a new trailing parameter: the solver call is a parameter of the
    model, its post-condition a hypothesis of the theorems) and the two `argtuple = (t, k, r, q, v)` statements dropped.
  * calls of the (fallible) `bs_value`: value `bsVal …` with the explicit error condition `bsFails …` (FinError of
    `bs_value`, e.g. an option type that is neither EUROPEAN_CALL nor EUROPEAN_PUT) raised where the call is evaluated.
"""
from __future__ import annotations

import ast
import copy

from registry.bs import BSA_PY, MATH_PY, GT_PY, GV_PY, prelude, all_consts

ARGS_UNPACK = ['t = args[0]', 'k = args[1]', 'r = args[2]', 'q = args[3]', 'v = args[4]']
SECANT_CALL = "sstar = newton_secant(_fcall, x0=s, args=argtuple, tol=1e-07, maxiter=50)"
SECANT_PUT = "sstar = newton_secant(_fput, x0=s, args=argtuple, tol=1e-07, maxiter=50)"
ARGTUPLE = "argtuple = (t, k, r, q, v)"


def unpack_args(fnode, name):
    from py2lean import Untranslatable
    fnode = copy.deepcopy(fnode)
    if fnode.args.vararg is None or fnode.args.vararg.arg != 'args' or [a.arg for a in fnode.args.args] != ['si']:
        raise Untranslatable(f'{name}: signature is not (si, *args)')
    seen = {t: 0 for t in ARGS_UNPACK}
    out = []
    for st in fnode.body:
        txt = ast.unparse(st)
        if txt in seen:
            seen[txt] += 1
            continue
        out.append(st)
    if any(v != 1 for v in seen.values()):
        raise Untranslatable(f'{name}: argument unpacking changed: {seen}')
    fnode.body = out
    for x in ast.walk(fnode):
        if isinstance(x, ast.Name) and x.id == 'args':
            raise Untranslatable(f'{name}: other use of *args')
    ast.fix_missing_locations(fnode)
    return fnode


class _Secant(ast.NodeTransformer):
    def __init__(self):
        self.seen = {SECANT_CALL: 0, SECANT_PUT: 0, ARGTUPLE: 0}

    def visit_Assign(self, node):
        txt = ' '.join(ast.unparse(node).split())
        if txt in (SECANT_CALL, SECANT_PUT):
            self.seen[txt] += 1
            return ast.copy_location(ast.Assign(targets=node.targets, value=ast.Name(id='sstar_in', ctx=ast.Load())), node)
        if txt == ARGTUPLE:
            self.seen[txt] += 1
            return None
        return node


def baw_kernel(fnode):
    from py2lean import Untranslatable
    fnode = copy.deepcopy(fnode)
    tr = _Secant()
    fnode = tr.visit(fnode)
    if tr.seen != {SECANT_CALL: 1, SECANT_PUT: 1, ARGTUPLE: 2}:
        raise Untranslatable(f'baw_value: root-finder glue changed: {tr.seen}')
    for x in ast.walk(fnode):
        if isinstance(x, ast.Name) and x.id in ('newton_secant', 'argtuple'):
            raise Untranslatable('baw_value: other use of newton_secant / argtuple')
    ast.fix_missing_locations(fnode)
    return fnode


def make_translator(kind, S, abstract):
    import py2lean
    from py2lean import FuncSpec, NUM, INT, Val

    seven = [('s', NUM), ('t', NUM), ('k', NUM), ('r', NUM), ('q', NUM), ('v', NUM), ('option_type_value', INT)]
    lead = 'Ncdf ' if abstract else ''

    class BawTranslator(py2lean.Translator):
        def call(self, n, env):
            fn = self.dotted(n.func)
            if fn == 'bs_value':
                if n.keywords or len(n.args) != 7:
                    raise py2lean.Untranslatable('bs_value call shape')
                args = [self.expr(a, env) for a in n.args]
                errs = [e for a in args for e in a.errs]
                cs = [self.coerce(a, t).s for a, (_, t) in zip(args, seven)]
                argtxt = ' '.join(cs)
                return Val(f'(bsVal {lead}{argtxt})', NUM, errs + [(f'(bsFails {lead}{argtxt})', 'finError')])
            return super().call(n, env)

    tr = BawTranslator(py2lean.Dialect(kind), all_consts(S))
    cdf = 'Ncdf' if abstract else ('FinVerif.Gen.BSF.n_vect' if kind == 'float' else 'FinVerif.Gen.BSR.n_vect')
    for nm in ('n_vect', 'N'):
        tr.funcs[nm] = FuncSpec(nm, cdf, [('x', NUM)], NUM)
    return tr


def helpers(kind, abstract):
    num = 'Float' if kind == 'float' else 'ℝ'
    nc = '' if kind == 'float' else 'noncomputable '
    zero = '0.0' if kind == 'float' else '0'
    src = 'FinVerif.Gen.BSF.bs_value' if kind == 'float' else ('FinVerif.Gen.BSP.bs_value Ncdf' if abstract else 'FinVerif.Gen.BSR.bs_value')
    sig = f'(s t k r q v : {num}) (ot : Int)'
    return (f'/-- value of the generated `bs_value` (0 where it raises; every use is guarded by `bsFails`) -/\n'
            f'{nc}def bsVal {sig} : {num} :=\n  match {src} s t k r q v ot with\n  | .ok x => x\n  | .error _ => {zero}\n\n'
            f'/-- `bs_value` raises (FinError: unknown option type value) -/\n'
            f'{nc}def bsFails {sig} : Bool :=\n  match {src} s t k r q v ot with\n  | .ok _ => false\n  | .error _ => true\n\n')


def build_baw(kind, abstract):
    def build(P, S):
        from py2lean import FuncSpec, NUM, INT, find_function
        tr = make_translator(kind, S, abstract)
        tree = S.parse(BSA_PY)
        out = []
        six = [('si', NUM), ('t', NUM), ('k', NUM), ('r', NUM), ('q', NUM), ('v', NUM)]
        for nm in ('_fcall', '_fput'):
            fn = unpack_args(find_function(tree, nm), nm)
            out.append(tr.function(fn, FuncSpec(nm, nm.lstrip('_'), six, NUM,
                                                doc='`*args` = (t, k, r, q, v) unpacked into parameters')))
        fn = baw_kernel(find_function(tree, 'baw_value'))
        sp = FuncSpec('baw_value', 'baw_value',
                      [('s', NUM), ('t', NUM), ('k', NUM), ('r', NUM), ('q', NUM), ('v', NUM), ('phi', INT)], NUM,
                      extra_params=[('sstar_in', NUM)],
                      doc='the two `newton_secant` calls replaced by the trailing parameter `sstar_in`')
        # the substituted name is a parameter of the kernel
        sp.attr_map = {}
        out.append(tr.function(_with_param(fn, 'sstar_in'), FuncSpec('baw_value', 'baw_value', sp.params + [('sstar_in', NUM)], NUM,
                                                                    doc=sp.doc)))
        ns = 'BAWF' if kind == 'float' else 'BAWP'
        dep = 'FinVerif.Gen.BSF' if kind == 'float' else ('FinVerif.Gen.BSP' if abstract else 'FinVerif.Gen.BSR')
        variables = 'variable (Ncdf : ℝ → ℝ)' if abstract else ''
        body = prelude(ns, kind, (dep,), variables) + helpers(kind, abstract) + '\n'.join(out) + f'\nend FinVerif.Gen.{ns}\n'
        return [BSA_PY, MATH_PY, GT_PY, GV_PY], body
    return build


def _with_param(fnode, name):
    fnode = copy.deepcopy(fnode)
    fnode.args.args.append(ast.arg(arg=name))
    ast.fix_missing_locations(fnode)
    return fnode


MODULES = {'BAWF': build_baw('float', False), 'BAWP': build_baw('real', True)}
