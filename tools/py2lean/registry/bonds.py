"""Generated modules for the bond formulas (property C07).

  BondF  Float, executable (Driver/C07 `G…` ops, correspondence with the implementation)
  BondR  ℝ, noncomputable (Props/C07d…: every YTMCalcType branch AS CODED = the hand model the older theorems are about,
         closed forms, monotonicity / convexity / derivatives, accrued identities)

What is translated (name in the generated module  <-  source; every method is a *slice*: the object glue is removed or
replaced by a parameter only where its exact source text is listed below, and each listed text must occur exactly once,
so an edit of the glue makes generation fail loudly):

  bond_dirty_price_from_ytm   <- Bond.dirty_price_from_ytm     products/bonds/bond.py
        all four YTMCalcType branches, n == 0 and n >= 1, the `+1.2345e-11` shift, `* self.par`, the `n < 0` /
        ZERO / unknown-convention raises.  Parameters instead of glue: the number of schedule dates after settlement
        (`n = 0; for dt in self.cpn_dts: …` -> `n = n_dates_in`), `annual_frequency(self.freq_type)` -> `freq_in`,
        the CFETS last-period ACT/365L fraction -> `alpha_cfets_in`; dates are serial day numbers;
        `self.alpha`, `self.cpn`, `self.par`, `self.ex_div_dt` are trailing parameters (object state, set by
        `accrued_interest`, generated below).
  bond_accrued_interest       <- Bond.accrued_interest          (return value)
  bond_alpha                  <- Bond.accrued_interest          (same text, `return self.alpha`: the state it leaves)
        `dc.year_frac(pcd, settle, ncd, freq_type)` -> `acc_factor_in` (C15), `self.ex_div_dt` -> parameter (C14).
        The attribute stores `self.alpha = …`, `self.accrued_int = …` become locals of the same function
        (no call happens between store and read).
  bond_dollar_duration, bond_modified_duration, bond_macauley_duration, bond_convexity_from_ytm,
  bond_clean_price_from_ytm, bond_principal, bond_current_yield
        <- the methods of the same name; each `self.dirty_price_from_ytm(...)` / `self.dollar_duration(...)` /
        `self.accrued_interest(...)` call is a parameter (`p0_in`, `p1_in`, `p2_in`, `dd_in`, `fp_in`, `dp_in`, `acc_in`).
  zero_dirty_price_from_ytm   <- BondZero.dirty_price_from_ytm  products/bonds/bond_zero.py
  zero_clean_price_from_ytm   <- BondZero.clean_price_from_ytm  (the two method calls are parameters)
  zero_accrued_interest       <- BondZero.accrued_interest       (tail: `num = settle - issue` … ; the pcd/ncd/alpha head
                                                                  feeds only `self.alpha`, which BondZero never reads)
  frn_clean_price_from_dm     <- BondFRN.clean_price_from_dm    products/bonds/bond_frn.py
  frn_dollar_duration, frn_modified_duration, frn_macauley_duration, frn_convexity_from_dm, frn_principal
        <- the BondFRN methods (price calls are parameters)
  annuity_clean_price         <- BondAnnuity.clean_price_from_discount_curve  products/bonds/bond_annuity.py

Loops (`_calc_pcd_ncd`, the `n` count, `dirty_price_from_discount_curve`, `BondFRN.dirty_price_from_dm`,
`BondAnnuity.calculate_payments`) are outside the translatable subset: hand model `Model/C07Bond.lean`,
tied by the correspondence harness.
"""
from __future__ import annotations

import ast
import copy

from registry.bs import prelude

BOND_PY = 'financepy/products/bonds/bond.py'
ZERO_PY = 'financepy/products/bonds/bond_zero.py'
FRN_PY = 'financepy/products/bonds/bond_frn.py'
ANN_PY = 'financepy/products/bonds/bond_annuity.py'

SOURCES = [BOND_PY, ZERO_PY, FRN_PY, ANN_PY]


# ------------------------------------------------------------------------------------------------ AST preparation
def _dotted(node):
    parts = []
    while isinstance(node, ast.Attribute):
        parts.append(node.attr)
        node = node.value
    if isinstance(node, ast.Name):
        parts.append(node.id)
        return '.'.join(reversed(parts))
    return None


class _StateToLocal(ast.NodeTransformer):
    """`self.alpha` (store or load) -> local `self_alpha` for the listed attributes."""

    def __init__(self, attrs):
        self.attrs = attrs

    def visit_Attribute(self, node):
        dn = _dotted(node)
        if dn in self.attrs:
            return ast.copy_location(ast.Name(id=dn.replace('.', '_'), ctx=node.ctx), node)
        return self.generic_visit(node)


def prepare(P, fnode, name, drop=(), subst=None, replace=None, state=()):
    """Nested version of `_astprep.slice_method` (statements inside `if` / `elif` / `else` bodies are reached too).

    drop    : exact `ast.unparse` texts of statements to remove
    subst   : {exact unparse text of an assignment's right-hand side: name that replaces it}
    replace : {exact unparse text of a statement: source text of the statement(s) that replace it}
    state   : dotted attribute names (`self.alpha`) whose stores/loads become a local of this function
    Every listed text must be met exactly once, otherwise `Untranslatable`."""
    subst = subst or {}
    replace = replace or {}
    fnode = copy.deepcopy(fnode)
    seen = {('drop', d): 0 for d in drop}
    seen.update({('subst', s): 0 for s in subst})
    seen.update({('replace', r): 0 for r in replace})

    def walk(stmts):
        out = []
        for st in stmts:
            if isinstance(st, ast.Expr) and isinstance(st.value, ast.Constant):
                continue
            txt = ast.unparse(st)
            if ('drop', txt) in seen:
                seen[('drop', txt)] += 1
                continue
            if ('replace', txt) in seen:
                seen[('replace', txt)] += 1
                out.extend(ast.parse(replace[txt]).body)
                continue
            if isinstance(st, ast.Assign):
                rhs = ast.unparse(st.value)
                if ('subst', rhs) in seen:
                    seen[('subst', rhs)] += 1
                    st = ast.Assign(targets=st.targets, value=ast.Name(id=subst[rhs], ctx=ast.Load()))
            if isinstance(st, ast.If):
                st = ast.If(test=st.test, body=walk(st.body), orelse=walk(st.orelse))
            out.append(st)
        return out

    fnode.body = walk(fnode.body)
    bad = [f'{k[0]}: {k[1][:70]}' for k, v in seen.items() if v != 1]
    if bad:
        raise P.Untranslatable(f'{name}: glue statements changed (expected exactly once each): ' + ' | '.join(bad))
    if state:
        fnode = _StateToLocal(set(state)).visit(fnode)
    fnode.name = name
    ast.fix_missing_locations(fnode)
    return fnode


# ------------------------------------------------------------------------------------------------ glue texts
DP_DROP = [
    "if settle_dt > self.maturity_dt:\n    raise FinError('Bond settlement is after maturity date')",
    "if convention not in YTMCalcType:\n    raise FinError('Yield convention unknown.' + str(convention))",
    'self.accrued_interest(settle_dt, 1.0)',
    'for dt in self.cpn_dts:\n    if dt > settle_dt:\n        n += 1',
    "last_year = self.maturity_dt.add_tenor('-12M')",
    'dc = DayCount(DayCountTypes.ACT_365L)',
]
DP_SUBST = {
    'np.array(ytm)': 'ytm',
    'annual_frequency(self.freq_type)': 'freq_in',
    '0': 'n_dates_in',
    '1 - dc.year_frac(last_year, settle_dt, self.maturity_dt, freq_type=FrequencyTypes.ANNUAL)[0]': 'alpha_cfets_in',
}

ACC_DROP = [
    'self._calc_pcd_ncd(settle_dt)',
    'dc = DayCount(self.dc_type)',
    'cal = Calendar(self.cal_type)',
    'self.ex_div_dt = cal.add_business_days(self.ncd, -1 * self.ex_div_days)',
    'self.accrued_days = num',
]
ACC_REPLACE = {
    'acc_factor, num, _ = dc.year_frac(self.pcd, settle_dt, self.ncd, self.freq_type)': 'acc_factor = acc_factor_in',
}
ACC_STATE = ['self.alpha', 'self.accrued_int']

P0 = 'self.dirty_price_from_ytm(settle_dt, ytm - dy, convention)'
P1 = 'self.dirty_price_from_ytm(settle_dt, ytm, convention)'
P2 = 'self.dirty_price_from_ytm(settle_dt, ytm + dy, convention)'
DD = 'self.dollar_duration(settle_dt, ytm, convention)'

ZDP_DROP = [
    'self.accrued_interest(settle_dt, 1.0)',
    'for dt in self.cpn_dts:\n    if dt > settle_dt:\n        n += 1',
    'dc = DayCount(self.dc_type)',
]
ZDP_SUBST = {'np.array(ytm)': 'ytm', '0': 'n_dates_in'}
ZDP_REPLACE = {
    'acc_factor, _, _ = dc.year_frac(settle_dt, self.maturity_dt, self.maturity_dt, FrequencyTypes.ZERO)':
        'acc_factor = acc_factor_in',
}

ZACC_DROP = [
    'num_flows = len(self.cpn_dts)',
    "if num_flows == 0:\n    raise FinError('Accrued interest - not enough flow dates.')",
    'for i_flow in range(1, num_flows):\n    if self.cpn_dts[i_flow] > settle_dt:\n        self.pcd = self.cpn_dts[i_flow - 1]\n'
    '        self.ncd = self.cpn_dts[i_flow]\n        break',
    'dc = DayCount(self.dc_type)',
    'cal = Calendar(self.cal_type)',
    'ex_dividend_dt = cal.add_business_days(self.ncd, -self.ex_div_days)',
    'acc_factor, num, _ = dc.year_frac(self.pcd, settle_dt, self.ncd, FrequencyTypes.ZERO)',
    'if settle_dt > ex_dividend_dt:\n    acc_factor = acc_factor - 1.0',
    'self.alpha = 1.0 - acc_factor',
    'self.accrued_days = num',
]

FRN_PX = 'self.dirty_price_from_dm(settle_dt, next_cpn, current_ibor, future_ibor, dm)'
FRN_PX_UP = 'self.dirty_price_from_dm(settle_dt, next_cpn, current_ibor + dy, future_ibor, dm)'
FRN_PX_DN = 'self.dirty_price_from_dm(settle_dt, next_cpn, current_ibor - dy, future_ibor, dm)'
FRN_DD = 'self.dollar_duration(settle_dt, next_cpn, current_ibor, future_ibor, dm)'


def build_bonds(kind):
    def build(P, S):
        from py2lean import FuncSpec, Translator, Dialect, NUM, INT, find_function
        consts = dict(S.module_consts(BOND_PY))
        tr = Translator(Dialect(kind), consts)
        out = []
        tree = S.parse(BOND_PY)
        # ------------------------------------------------------------------------------- Bond.dirty_price_from_ytm
        fn = prepare(P, find_function(tree, 'Bond.dirty_price_from_ytm'), 'bond_dirty_price_from_ytm',
                     drop=DP_DROP, subst=DP_SUBST)
        out.append(tr.function(fn, FuncSpec(
            'Bond.dirty_price_from_ytm', 'bond_dirty_price_from_ytm',
            [('settle_dt', INT), ('ytm', NUM), ('convention', INT), ('n_dates_in', INT), ('freq_in', NUM),
             ('alpha_cfets_in', NUM)], NUM,
            attr_map={'self.alpha': ('alpha', NUM), 'self.cpn': ('cpn', NUM), 'self.par': ('par', NUM),
                      'self.ex_div_dt': ('ex_div_dt', INT)},
            extra_params=[('alpha', NUM), ('cpn', NUM), ('par', NUM), ('ex_div_dt', INT)],
            skip_params=('self',),
            doc='dates are serial day numbers; n_dates_in = #{dt in cpn_dts : dt > settle_dt}; freq_in = '
                'annual_frequency(freq_type); alpha_cfets_in = 1 - ACT_365L.year_frac(maturity-12M, settle, maturity, ANNUAL)[0] '
                '(read in the CFETS n == 0 branch only); alpha / cpn / par / ex_div_dt = object state')))
        # ------------------------------------------------------------------------------- Bond.accrued_interest
        acc_params = [('settle_dt', INT), ('face', NUM), ('acc_factor_in', NUM)]
        acc_attr = {'self.freq': ('freq', NUM), 'self.cpn': ('cpn', NUM), 'self.ex_div_dt': ('ex_div_dt', INT)}
        acc_extra = [('freq', NUM), ('cpn', NUM), ('ex_div_dt', INT)]
        fn = prepare(P, find_function(tree, 'Bond.accrued_interest'), 'bond_accrued_interest',
                     drop=ACC_DROP, replace=ACC_REPLACE, state=ACC_STATE)
        out.append(tr.function(fn, FuncSpec(
            'Bond.accrued_interest', 'bond_accrued_interest', acc_params, NUM, attr_map=acc_attr,
            extra_params=acc_extra, skip_params=('self',),
            doc='acc_factor_in = DayCount(dc_type).year_frac(pcd, settle_dt, ncd, freq_type)[0]; ex_div_dt = '
                'Calendar(cal_type).add_business_days(ncd, -ex_div_days) as a serial')))
        fn = prepare(P, find_function(tree, 'Bond.accrued_interest'), 'bond_alpha',
                     drop=ACC_DROP, replace=dict(ACC_REPLACE, **{'return self.accrued_int': 'return self.alpha'}),
                     state=ACC_STATE)
        out.append(tr.function(fn, FuncSpec(
            'Bond.accrued_interest', 'bond_alpha', acc_params, NUM, attr_map=acc_attr,
            extra_params=acc_extra, skip_params=('self',),
            doc='the value `self.alpha` holds after the call (same statements, `return self.alpha`)')))
        # ------------------------------------------------------------------------------- bump-and-reprice risk
        fn = prepare(P, find_function(tree, 'Bond.dollar_duration'), 'bond_dollar_duration',
                     subst={P0: 'p0_in', P2: 'p2_in'})
        out.append(tr.function(fn, FuncSpec('Bond.dollar_duration', 'bond_dollar_duration',
                                            [('p0_in', NUM), ('p2_in', NUM)], NUM,
                                            doc='p0_in = dirty_price_from_ytm(settle, ytm - dy, convention), p2_in = the same at ytm + dy')))
        fn = prepare(P, find_function(tree, 'Bond.modified_duration'), 'bond_modified_duration',
                     subst={DD: 'dd_in', P1: 'fp_in'})
        out.append(tr.function(fn, FuncSpec('Bond.modified_duration', 'bond_modified_duration',
                                            [('dd_in', NUM), ('fp_in', NUM)], NUM,
                                            doc='dd_in = dollar_duration(...), fp_in = dirty_price_from_ytm(settle, ytm, convention)')))
        fn = prepare(P, find_function(tree, 'Bond.macauley_duration'), 'bond_macauley_duration',
                     subst={DD: 'dd_in', P1: 'fp_in'})
        out.append(tr.function(fn, FuncSpec('Bond.macauley_duration', 'bond_macauley_duration',
                                            [('ytm', NUM), ('dd_in', NUM), ('fp_in', NUM)], NUM,
                                            attr_map={'self.freq': ('freq', NUM)}, extra_params=[('freq', NUM)])))
        fn = prepare(P, find_function(tree, 'Bond.convexity_from_ytm'), 'bond_convexity_from_ytm',
                     subst={P0: 'p0_in', P1: 'p1_in', P2: 'p2_in'})
        out.append(tr.function(fn, FuncSpec('Bond.convexity_from_ytm', 'bond_convexity_from_ytm',
                                            [('p0_in', NUM), ('p1_in', NUM), ('p2_in', NUM)], NUM,
                                            attr_map={'self.par': ('par', NUM)}, extra_params=[('par', NUM)])))
        fn = prepare(P, find_function(tree, 'Bond.clean_price_from_ytm'), 'bond_clean_price_from_ytm',
                     subst={P1: 'dp_in', 'self.accrued_interest(settle_dt, self.par)': 'acc_in'})
        out.append(tr.function(fn, FuncSpec('Bond.clean_price_from_ytm', 'bond_clean_price_from_ytm',
                                            [('dp_in', NUM), ('acc_in', NUM)], NUM,
                                            doc='dp_in = dirty_price_from_ytm(settle, ytm, convention), acc_in = '
                                                'accrued_interest(settle, par)')))
        fn = prepare(P, find_function(tree, 'Bond.principal'), 'bond_principal', subst={P1: 'dirty_in'})
        out.append(tr.function(fn, FuncSpec('Bond.principal', 'bond_principal', [('face', NUM), ('dirty_in', NUM)], NUM,
                                            attr_map={'self.par': ('par', NUM), 'self.accrued_int': ('accrued_int', NUM)},
                                            extra_params=[('par', NUM), ('accrued_int', NUM)],
                                            doc='dirty_in = dirty_price_from_ytm(settle, ytm, convention); accrued_int = the state that '
                                                'call leaves (it calls accrued_interest(settle, 1.0))')))
        out.append(tr.function(find_function(tree, 'Bond.current_yield'), FuncSpec(
            'Bond.current_yield', 'bond_current_yield', [('clean_price', NUM)], NUM,
            attr_map={'self.cpn': ('cpn', NUM), 'self.par': ('par', NUM)}, extra_params=[('cpn', NUM), ('par', NUM)],
            skip_params=('self',))))
        # ------------------------------------------------------------------------------- BondZero
        ztree = S.parse(ZERO_PY)
        fn = prepare(P, find_function(ztree, 'BondZero.dirty_price_from_ytm'), 'zero_dirty_price_from_ytm',
                     drop=ZDP_DROP, subst=ZDP_SUBST, replace=ZDP_REPLACE)
        out.append(tr.function(fn, FuncSpec(
            'BondZero.dirty_price_from_ytm', 'zero_dirty_price_from_ytm',
            [('ytm', NUM), ('convention', INT), ('n_dates_in', INT), ('acc_factor_in', NUM)], NUM,
            attr_map={'self.par': ('par', NUM)}, extra_params=[('par', NUM)], skip_params=('self',),
            doc='acc_factor_in = DayCount(dc_type).year_frac(settle, maturity, maturity, ZERO)[0]; n_dates_in as for Bond')))
        fn = prepare(P, find_function(ztree, 'BondZero.accrued_interest'), 'zero_accrued_interest',
                     drop=ZACC_DROP, state=['self.accrued_int'])
        out.append(tr.function(fn, FuncSpec(
            'BondZero.accrued_interest', 'zero_accrued_interest', [('settle_dt', INT), ('face', NUM)], NUM,
            attr_map={'self.issue_dt': ('issue_dt', INT), 'self.maturity_dt': ('maturity_dt', INT),
                      'self.par': ('par', NUM), 'self.issue_price': ('issue_price', NUM)},
            extra_params=[('issue_dt', INT), ('maturity_dt', INT), ('par', NUM), ('issue_price', NUM)],
            skip_params=('self',),
            doc='dates are serial day numbers; the pcd/ncd/alpha head of the method only sets `self.alpha`')))
        fn = prepare(P, find_function(ztree, 'BondZero.clean_price_from_ytm'), 'zero_clean_price_from_ytm',
                     subst={'self.dirty_price_from_ytm(settle_dt, ytm, convention)': 'dirty_in',
                            'self.accrued_interest(settle_dt, self.par)': 'acc_in'})
        out.append(tr.function(fn, FuncSpec('BondZero.clean_price_from_ytm', 'zero_clean_price_from_ytm',
                                            [('dirty_in', NUM), ('acc_in', NUM)], NUM,
                                            doc='dirty_in = dirty_price_from_ytm(...), acc_in = accrued_interest(settle, par)')))
        # ------------------------------------------------------------------------------- BondFRN
        ftree = S.parse(FRN_PY)
        fn = prepare(P, find_function(ftree, 'BondFRN.clean_price_from_dm'), 'frn_clean_price_from_dm',
                     drop=['self.accrued_interest(settle_dt, next_cpn)'], subst={FRN_PX: 'dirty_in'},
                     state=['self.accrued'])
        out.append(tr.function(fn, FuncSpec(
            'BondFRN.clean_price_from_dm', 'frn_clean_price_from_dm', [('next_cpn', NUM), ('dm', NUM), ('dirty_in', NUM)], NUM,
            attr_map={'self.accrual_factor': ('accrual_factor', NUM), 'self.par': ('par', NUM)},
            extra_params=[('accrual_factor', NUM), ('par', NUM)],
            doc='dirty_in = dirty_price_from_dm(...); accrual_factor = the state `accrued_interest` leaves '
                '(year_frac(pcd, settle, ncd, freq_type)[0])')))
        fn = prepare(P, find_function(ftree, 'BondFRN.principal'), 'frn_principal',
                     subst={FRN_PX: 'dirty_in'}, state=['self.accrued'])
        out.append(tr.function(fn, FuncSpec(
            'BondFRN.principal', 'frn_principal', [('next_cpn', NUM), ('face', NUM), ('dirty_in', NUM)], NUM,
            attr_map={'self.accrual_factor': ('accrual_factor', NUM), 'self.par': ('par', NUM)},
            extra_params=[('accrual_factor', NUM), ('par', NUM)])))
        fn = prepare(P, find_function(ftree, 'BondFRN.dollar_duration'), 'frn_dollar_duration',
                     subst={FRN_PX_UP: 'p_up_in', FRN_PX_DN: 'p_dn_in'})
        out.append(tr.function(fn, FuncSpec('BondFRN.dollar_duration', 'frn_dollar_duration',
                                            [('p_up_in', NUM), ('p_dn_in', NUM)], NUM,
                                            doc='p_up_in = dirty_price_from_dm at current_ibor + dy, p_dn_in = at current_ibor - dy')))
        fn = prepare(P, find_function(ftree, 'BondFRN.modified_duration'), 'frn_modified_duration',
                     subst={FRN_DD: 'dd_in', FRN_PX: 'fp_in'})
        out.append(tr.function(fn, FuncSpec('BondFRN.modified_duration', 'frn_modified_duration',
                                            [('dd_in', NUM), ('fp_in', NUM)], NUM)))
        fn = prepare(P, find_function(ftree, 'BondFRN.macauley_duration'), 'frn_macauley_duration',
                     subst={FRN_DD: 'dd_in', FRN_PX: 'fp_in'})
        out.append(tr.function(fn, FuncSpec('BondFRN.macauley_duration', 'frn_macauley_duration',
                                            [('next_cpn', NUM), ('dm', NUM), ('dd_in', NUM), ('fp_in', NUM)], NUM,
                                            attr_map={'self.freq': ('freq', NUM)}, extra_params=[('freq', NUM)])))
        fn = prepare(P, find_function(ftree, 'BondFRN.convexity_from_dm'), 'frn_convexity_from_dm',
                     subst={FRN_PX_DN: 'p0_in', FRN_PX: 'p1_in', FRN_PX_UP: 'p2_in'})
        out.append(tr.function(fn, FuncSpec('BondFRN.convexity_from_dm', 'frn_convexity_from_dm',
                                            [('p0_in', NUM), ('p1_in', NUM), ('p2_in', NUM)], NUM,
                                            attr_map={'self.par': ('par', NUM)}, extra_params=[('par', NUM)])))
        # ------------------------------------------------------------------------------- BondAnnuity
        atree = S.parse(ANN_PY)
        fn = prepare(P, find_function(atree, 'BondAnnuity.clean_price_from_discount_curve'), 'annuity_clean_price',
                     subst={'self.dirty_price_from_discount_curve(settle_dt, discount_curve)': 'dirty_in'})
        out.append(tr.function(fn, FuncSpec(
            'BondAnnuity.clean_price_from_discount_curve', 'annuity_clean_price', [('dirty_in', NUM)], NUM,
            attr_map={'self.accrued_int': ('accrued_int', NUM), 'self.par': ('par', NUM)},
            extra_params=[('accrued_int', NUM), ('par', NUM)],
            doc='dirty_in = dirty_price_from_discount_curve(...); accrued_int = the state left by calculate_payments(settle, 1.0)')))
        ns = 'BondF' if kind == 'float' else 'BondR'
        body = prelude(ns, kind) + '\n'.join(out) + f'\nend FinVerif.Gen.{ns}\n'
        return SOURCES, body
    return build


MODULES = {'BondF': build_bonds('float'), 'BondR': build_bonds('real')}
