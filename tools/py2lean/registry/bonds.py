"""Generated modules for the bond formulas (property C07).

  BondF  Float, executable (Driver/C07 `G…` ops, correspondence with the implementation)
  BondR  ℝ, noncomputable (Props/C07d…: every YTMCalcType branch AS CODED = the hand model the older theorems are about,
         closed forms, monotonicity / convexity / derivatives, accrued identities)

What is translated (name in the generated module  <-  source; every method is a *slice*: the object glue is removed or
replaced by a parameter only where its exact source text is listed below, and each listed text must occur exactly once,
so an edit of the glue makes generation fail loudly):

  bond_dirty_price_from_ytm   <- Bond.dirty_price_from_ytm     products/bonds/bond.py
        all four YTMCalcType branches, n == 0 and n >= 1, the `+1.2345e-11` shift, `* self.par`, the `n < 0` /
        ZERO / unknown-convention raises.  Parameters instead of glue: the number of schedule dates after settlement
        (`n = 0; for dt in …: …` -> `n = n_dates_in`; the loop itself is generated in BondLoopR), `annual_frequency(self.freq_type)` -> `freq_in`,
        the CFETS last-period ACT/365L fraction -> `alpha_cfets_in`; dates are serial day numbers;
        `self.alpha`, `self.cpn`, `self.par`, `self.ex_div_dt` are trailing parameters (object state, set by
        `accrued_interest`, generated below).
  bond_accrued_interest       <- Bond.accrued_interest          (return value)
  bond_alpha                  <- Bond.accrued_interest          (same text, `return self.alpha`: the state it leaves)
        `dc.year_frac(pcd, settle, ncd, freq_type)` -> `acc_factor_in` (C15), `self.ex_div_dt` -> parameter (C14).
        The attribute stores `self.alpha = …`, `self.accrued_int = …` become locals of the same function
        (no call happens between store and read).
  bond_dollar_duration, bond_modified_duration, bond_macauley_duration, bond_convexity_from_ytm,
  bond_clean_price_from_ytm, bond_principal, bond_current_yield
        <- the methods of the same name; each `self.dirty_price_from_ytm(...)` / `self.dollar_duration(...)` /
        `self.accrued_interest(...)` call is a parameter (`p0_in`, `p1_in`, `p2_in`, `dd_in`, `fp_in`, `dp_in`, `acc_in`).
  zero_dirty_price_from_ytm   <- BondZero.dirty_price_from_ytm  products/bonds/bond_zero.py
  zero_clean_price_from_ytm   <- BondZero.clean_price_from_ytm  (the two method calls are parameters)
  zero_accrued_interest       <- BondZero.accrued_interest       (tail: `num = settle - issue` … ; the pcd/ncd/alpha head
                                                                  feeds only `self.alpha`, which BondZero never reads)
  frn_clean_price_from_dm     <- BondFRN.clean_price_from_dm    products/bonds/bond_frn.py
  frn_dollar_duration, frn_modified_duration, frn_macauley_duration, frn_convexity_from_dm, frn_principal
        <- the BondFRN methods (price calls are parameters)
  annuity_clean_price         <- BondAnnuity.clean_price_from_discount_curve  products/bonds/bond_annuity.py

Loops (`_calc_pcd_ncd`, the `n` count, `dirty_price_from_discount_curve`, `BondFRN.dirty_price_from_dm`,
`BondAnnuity.calculate_payments`) are outside the translatable subset: hand model `Model/C07Bond.lean`,
tied by the correspondence harness.
"""
from __future__ import annotations

import ast
import copy

from registry.bs import prelude

BOND_PY = 'financepy/products/bonds/bond.py'
ZERO_PY = 'financepy/products/bonds/bond_zero.py'
FRN_PY = 'financepy/products/bonds/bond_frn.py'
ANN_PY = 'financepy/products/bonds/bond_annuity.py'

SOURCES = [BOND_PY, ZERO_PY, FRN_PY, ANN_PY]


# ------------------------------------------------------------------------------------------------ AST preparation
def _dotted(node):
    parts = []
    while isinstance(node, ast.Attribute):
        parts.append(node.attr)
        node = node.value
    if isinstance(node, ast.Name):
        parts.append(node.id)
        return '.'.join(reversed(parts))
    return None


class _StateToLocal(ast.NodeTransformer):
    """`self.alpha` (store or load) -> local `self_alpha` for the listed attributes."""

    def __init__(self, attrs):
        self.attrs = attrs

    def visit_Attribute(self, node):
        dn = _dotted(node)
        if dn in self.attrs:
            return ast.copy_location(ast.Name(id=dn.replace('.', '_'), ctx=node.ctx), node)
        return self.generic_visit(node)


def prepare(P, fnode, name, drop=(), subst=None, replace=None, state=()):
    """Nested version of `_astprep.slice_method` (statements inside `if` / `elif` / `else` bodies are reached too).

    drop    : exact `ast.unparse` texts of statements to remove
    subst   : {exact unparse text of an assignment's right-hand side: name that replaces it}
    replace : {exact unparse text of a statement: source text of the statement(s) that replace it}
    state   : dotted attribute names (`self.alpha`) whose stores/loads become a local of this function
    Every listed text must be met exactly once, otherwise `Untranslatable`."""
    subst = subst or {}
    replace = replace or {}
    fnode = copy.deepcopy(fnode)
    seen = {('drop', d): 0 for d in drop}
    seen.update({('subst', s): 0 for s in subst})
    seen.update({('replace', r): 0 for r in replace})

    def walk(stmts):
        out = []
        for st in stmts:
            if isinstance(st, ast.Expr) and isinstance(st.value, ast.Constant):
                continue
            txt = ast.unparse(st)
            if ('drop', txt) in seen:
                seen[('drop', txt)] += 1
                continue
            if ('replace', txt) in seen:
                seen[('replace', txt)] += 1
                out.extend(ast.parse(replace[txt]).body)
                continue
            if isinstance(st, ast.Assign):
                rhs = ast.unparse(st.value)
                if ('subst', rhs) in seen:
                    seen[('subst', rhs)] += 1
                    st = ast.Assign(targets=st.targets, value=ast.Name(id=subst[rhs], ctx=ast.Load()))
            if isinstance(st, ast.If):
                st = ast.If(test=st.test, body=walk(st.body), orelse=walk(st.orelse))
            out.append(st)
        return out

    fnode.body = walk(fnode.body)
    bad = [f'{k[0]}: {k[1][:70]}' for k, v in seen.items() if v != 1]
    if bad:
        raise P.Untranslatable(f'{name}: glue statements changed (expected exactly once each): ' + ' | '.join(bad))
    if state:
        fnode = _StateToLocal(set(state)).visit(fnode)
    fnode.name = name
    ast.fix_missing_locations(fnode)
    return fnode


# ------------------------------------------------------------------------------------------------ glue texts
DP_DROP = [
    "if settle_dt > self.maturity_dt:\n    raise FinError('Bond settlement is after maturity date')",
    "if convention not in YTMCalcType:\n    raise FinError('Yield convention unknown.' + str(convention))",
    'self.accrued_interest(settle_dt, 1.0)',
    "last_year = self.maturity_dt.add_tenor('-12M')",
    'dc = DayCount(DayCountTypes.ACT_365L)',
]
DP_SUBST = {
    'np.array(ytm)': 'ytm',
    'annual_frequency(self.freq_type)': 'freq_in',
    '0': 'n_dates_in',
    '1 - dc.year_frac(last_year, settle_dt, self.maturity_dt, freq_type=FrequencyTypes.ANNUAL)[0]': 'alpha_cfets_in',
}

ACC_DROP = [
    'self._calc_pcd_ncd(settle_dt)',
    'dc = DayCount(self.dc_type)',
    'cal = Calendar(self.cal_type)',
    'self.accrued_days = num',
]
ACC_REPLACE = {
    'acc_factor, num, _ = dc.year_frac(self.pcd, settle_dt, self.ncd, self.freq_type)': 'acc_factor = acc_factor_in',
}
ACC_STATE = ['self.alpha', 'self.accrued_int']

P0 = 'self.dirty_price_from_ytm(settle_dt, ytm - dy, convention)'
P1 = 'self.dirty_price_from_ytm(settle_dt, ytm, convention)'
P2 = 'self.dirty_price_from_ytm(settle_dt, ytm + dy, convention)'
DD = 'self.dollar_duration(settle_dt, ytm, convention)'

ZDP_DROP = [
    'self.accrued_interest(settle_dt, 1.0)',
    'for dt in self.cpn_dts:\n    if dt > settle_dt:\n        n += 1',
    'dc = DayCount(self.dc_type)',
]
ZDP_SUBST = {'np.array(ytm)': 'ytm', '0': 'n_dates_in'}
ZDP_REPLACE = {
    'acc_factor, _, _ = dc.year_frac(settle_dt, self.maturity_dt, self.maturity_dt, FrequencyTypes.ZERO)':
        'acc_factor = acc_factor_in',
}

ZACC_DROP = [
    'num_flows = len(self.cpn_dts)',
    "if num_flows == 0:\n    raise FinError('Accrued interest - not enough flow dates.')",
    'for i_flow in range(1, num_flows):\n    if self.cpn_dts[i_flow] > settle_dt:\n        self.pcd = self.cpn_dts[i_flow - 1]\n'
    '        self.ncd = self.cpn_dts[i_flow]\n        break',
    'dc = DayCount(self.dc_type)',
    'cal = Calendar(self.cal_type)',
    'ex_dividend_dt = cal.add_business_days(self.ncd, -self.ex_div_days)',
    'acc_factor, num, _ = dc.year_frac(self.pcd, settle_dt, self.ncd, FrequencyTypes.ZERO)',
    'if settle_dt > ex_dividend_dt:\n    acc_factor = acc_factor - 1.0',
    'self.alpha = 1.0 - acc_factor',
    'self.accrued_days = num',
]

FRN_PX = 'self.dirty_price_from_dm(settle_dt, next_cpn, current_ibor, future_ibor, dm)'
FRN_PX_UP = 'self.dirty_price_from_dm(settle_dt, next_cpn, current_ibor + dy, future_ibor, dm)'
FRN_PX_DN = 'self.dirty_price_from_dm(settle_dt, next_cpn, current_ibor - dy, future_ibor, dm)'
FRN_DD = 'self.dollar_duration(settle_dt, next_cpn, current_ibor, future_ibor, dm)'


def without(P, fnode, what, pred, name):
    """copy of the method without the ONE top-level statement satisfying `pred` — a statement that module BondLoopR
    generates piece by piece (header / init / body), so its text is not pinned here"""
    fnode = copy.deepcopy(fnode)
    hits = [st for st in fnode.body if pred(st)]
    if len(hits) != 1:
        raise P.Untranslatable(f'{name}: {len(hits)} top-level statements `{what}` (expected 1)')
    fnode.body = [st for st in fnode.body if st is not hits[0]]
    return fnode


def _is_dt_loop(st):
    return isinstance(st, ast.For) and ast.unparse(st.target) == 'dt'


def _is_exdiv_store(st):
    return isinstance(st, ast.Assign) and ast.unparse(st.targets[0]) == 'self.ex_div_dt'


def build_bonds(kind):
    def build(P, S):
        from py2lean import FuncSpec, Translator, Dialect, NUM, INT, find_function
        consts = dict(S.module_consts(BOND_PY))
        tr = Translator(Dialect(kind), consts)
        out = []
        tree = S.parse(BOND_PY)
        # ------------------------------------------------------------------------------- Bond.dirty_price_from_ytm
        fn = prepare(P, without(P, find_function(tree, 'Bond.dirty_price_from_ytm'), 'for dt in …', _is_dt_loop,
                                'bond_dirty_price_from_ytm'), 'bond_dirty_price_from_ytm', drop=DP_DROP, subst=DP_SUBST)
        out.append(tr.function(fn, FuncSpec(
            'Bond.dirty_price_from_ytm', 'bond_dirty_price_from_ytm',
            [('settle_dt', INT), ('ytm', NUM), ('convention', INT), ('n_dates_in', INT), ('freq_in', NUM),
             ('alpha_cfets_in', NUM)], NUM,
            attr_map={'self.alpha': ('alpha', NUM), 'self.cpn': ('cpn', NUM), 'self.par': ('par', NUM),
                      'self.ex_div_dt': ('ex_div_dt', INT)},
            extra_params=[('alpha', NUM), ('cpn', NUM), ('par', NUM), ('ex_div_dt', INT)],
            skip_params=('self',),
            doc='dates are serial day numbers; n_dates_in = #{dt in cpn_dts : dt > settle_dt}; freq_in = '
                'annual_frequency(freq_type); alpha_cfets_in = 1 - ACT_365L.year_frac(maturity-12M, settle, maturity, ANNUAL)[0] '
                '(read in the CFETS n == 0 branch only); alpha / cpn / par / ex_div_dt = object state')))
        # ------------------------------------------------------------------------------- Bond.accrued_interest
        acc_params = [('settle_dt', INT), ('face', NUM), ('acc_factor_in', NUM)]
        acc_attr = {'self.freq': ('freq', NUM), 'self.cpn': ('cpn', NUM), 'self.ex_div_dt': ('ex_div_dt', INT)}
        acc_extra = [('freq', NUM), ('cpn', NUM), ('ex_div_dt', INT)]
        acc_src = without(P, find_function(tree, 'Bond.accrued_interest'), 'self.ex_div_dt = …', _is_exdiv_store,
                          'bond_accrued_interest')
        fn = prepare(P, acc_src, 'bond_accrued_interest',
                     drop=ACC_DROP, replace=ACC_REPLACE, state=ACC_STATE)
        out.append(tr.function(fn, FuncSpec(
            'Bond.accrued_interest', 'bond_accrued_interest', acc_params, NUM, attr_map=acc_attr,
            extra_params=acc_extra, skip_params=('self',),
            doc='acc_factor_in = DayCount(dc_type).year_frac(pcd, settle_dt, ncd, freq_type)[0]; ex_div_dt = '
                'Calendar(cal_type).add_business_days(ncd, -ex_div_days) as a serial')))
        fn = prepare(P, acc_src, 'bond_alpha',
                     drop=ACC_DROP, replace=dict(ACC_REPLACE, **{'return self.accrued_int': 'return self.alpha'}),
                     state=ACC_STATE)
        out.append(tr.function(fn, FuncSpec(
            'Bond.accrued_interest', 'bond_alpha', acc_params, NUM, attr_map=acc_attr,
            extra_params=acc_extra, skip_params=('self',),
            doc='the value `self.alpha` holds after the call (same statements, `return self.alpha`)')))
        # ------------------------------------------------------------------------------- bump-and-reprice risk
        fn = prepare(P, find_function(tree, 'Bond.dollar_duration'), 'bond_dollar_duration',
                     subst={P0: 'p0_in', P2: 'p2_in'})
        out.append(tr.function(fn, FuncSpec('Bond.dollar_duration', 'bond_dollar_duration',
                                            [('p0_in', NUM), ('p2_in', NUM)], NUM,
                                            doc='p0_in = dirty_price_from_ytm(settle, ytm - dy, convention), p2_in = the same at ytm + dy')))
        fn = prepare(P, find_function(tree, 'Bond.modified_duration'), 'bond_modified_duration',
                     subst={DD: 'dd_in', P1: 'fp_in'})
        out.append(tr.function(fn, FuncSpec('Bond.modified_duration', 'bond_modified_duration',
                                            [('dd_in', NUM), ('fp_in', NUM)], NUM,
                                            doc='dd_in = dollar_duration(...), fp_in = dirty_price_from_ytm(settle, ytm, convention)')))
        fn = prepare(P, find_function(tree, 'Bond.macauley_duration'), 'bond_macauley_duration',
                     subst={DD: 'dd_in', P1: 'fp_in'})
        out.append(tr.function(fn, FuncSpec('Bond.macauley_duration', 'bond_macauley_duration',
                                            [('ytm', NUM), ('dd_in', NUM), ('fp_in', NUM)], NUM,
                                            attr_map={'self.freq': ('freq', NUM)}, extra_params=[('freq', NUM)])))
        fn = prepare(P, find_function(tree, 'Bond.convexity_from_ytm'), 'bond_convexity_from_ytm',
                     subst={P0: 'p0_in', P1: 'p1_in', P2: 'p2_in'})
        out.append(tr.function(fn, FuncSpec('Bond.convexity_from_ytm', 'bond_convexity_from_ytm',
                                            [('p0_in', NUM), ('p1_in', NUM), ('p2_in', NUM)], NUM,
                                            attr_map={'self.par': ('par', NUM)}, extra_params=[('par', NUM)])))
        fn = prepare(P, find_function(tree, 'Bond.clean_price_from_ytm'), 'bond_clean_price_from_ytm',
                     subst={P1: 'dp_in', 'self.accrued_interest(settle_dt, self.par)': 'acc_in'})
        out.append(tr.function(fn, FuncSpec('Bond.clean_price_from_ytm', 'bond_clean_price_from_ytm',
                                            [('dp_in', NUM), ('acc_in', NUM)], NUM,
                                            doc='dp_in = dirty_price_from_ytm(settle, ytm, convention), acc_in = '
                                                'accrued_interest(settle, par)')))
        fn = prepare(P, find_function(tree, 'Bond.principal'), 'bond_principal', subst={P1: 'dirty_in'})
        out.append(tr.function(fn, FuncSpec('Bond.principal', 'bond_principal', [('face', NUM), ('dirty_in', NUM)], NUM,
                                            attr_map={'self.par': ('par', NUM), 'self.accrued_int': ('accrued_int', NUM)},
                                            extra_params=[('par', NUM), ('accrued_int', NUM)],
                                            doc='dirty_in = dirty_price_from_ytm(settle, ytm, convention); accrued_int = the state that '
                                                'call leaves (it calls accrued_interest(settle, 1.0))')))
        out.append(tr.function(find_function(tree, 'Bond.current_yield'), FuncSpec(
            'Bond.current_yield', 'bond_current_yield', [('clean_price', NUM)], NUM,
            attr_map={'self.cpn': ('cpn', NUM), 'self.par': ('par', NUM)}, extra_params=[('cpn', NUM), ('par', NUM)],
            skip_params=('self',))))
        # ------------------------------------------------------------------------------- BondZero
        ztree = S.parse(ZERO_PY)
        fn = prepare(P, find_function(ztree, 'BondZero.dirty_price_from_ytm'), 'zero_dirty_price_from_ytm',
                     drop=ZDP_DROP, subst=ZDP_SUBST, replace=ZDP_REPLACE)
        out.append(tr.function(fn, FuncSpec(
            'BondZero.dirty_price_from_ytm', 'zero_dirty_price_from_ytm',
            [('ytm', NUM), ('convention', INT), ('n_dates_in', INT), ('acc_factor_in', NUM)], NUM,
            attr_map={'self.par': ('par', NUM)}, extra_params=[('par', NUM)], skip_params=('self',),
            doc='acc_factor_in = DayCount(dc_type).year_frac(settle, maturity, maturity, ZERO)[0]; n_dates_in as for Bond')))
        fn = prepare(P, find_function(ztree, 'BondZero.accrued_interest'), 'zero_accrued_interest',
                     drop=ZACC_DROP, state=['self.accrued_int'])
        out.append(tr.function(fn, FuncSpec(
            'BondZero.accrued_interest', 'zero_accrued_interest', [('settle_dt', INT), ('face', NUM)], NUM,
            attr_map={'self.issue_dt': ('issue_dt', INT), 'self.maturity_dt': ('maturity_dt', INT),
                      'self.par': ('par', NUM), 'self.issue_price': ('issue_price', NUM)},
            extra_params=[('issue_dt', INT), ('maturity_dt', INT), ('par', NUM), ('issue_price', NUM)],
            skip_params=('self',),
            doc='dates are serial day numbers; the pcd/ncd/alpha head of the method only sets `self.alpha`')))
        fn = prepare(P, find_function(ztree, 'BondZero.clean_price_from_ytm'), 'zero_clean_price_from_ytm',
                     subst={'self.dirty_price_from_ytm(settle_dt, ytm, convention)': 'dirty_in',
                            'self.accrued_interest(settle_dt, self.par)': 'acc_in'})
        out.append(tr.function(fn, FuncSpec('BondZero.clean_price_from_ytm', 'zero_clean_price_from_ytm',
                                            [('dirty_in', NUM), ('acc_in', NUM)], NUM,
                                            doc='dirty_in = dirty_price_from_ytm(...), acc_in = accrued_interest(settle, par)')))
        # ------------------------------------------------------------------------------- BondFRN
        ftree = S.parse(FRN_PY)
        fn = prepare(P, find_function(ftree, 'BondFRN.clean_price_from_dm'), 'frn_clean_price_from_dm',
                     drop=['self.accrued_interest(settle_dt, next_cpn)'], subst={FRN_PX: 'dirty_in'},
                     state=['self.accrued'])
        out.append(tr.function(fn, FuncSpec(
            'BondFRN.clean_price_from_dm', 'frn_clean_price_from_dm', [('next_cpn', NUM), ('dm', NUM), ('dirty_in', NUM)], NUM,
            attr_map={'self.accrual_factor': ('accrual_factor', NUM), 'self.par': ('par', NUM)},
            extra_params=[('accrual_factor', NUM), ('par', NUM)],
            doc='dirty_in = dirty_price_from_dm(...); accrual_factor = the state `accrued_interest` leaves '
                '(year_frac(pcd, settle, ncd, freq_type)[0])')))
        fn = prepare(P, find_function(ftree, 'BondFRN.principal'), 'frn_principal',
                     subst={FRN_PX: 'dirty_in'}, state=['self.accrued'])
        out.append(tr.function(fn, FuncSpec(
            'BondFRN.principal', 'frn_principal', [('next_cpn', NUM), ('face', NUM), ('dirty_in', NUM)], NUM,
            attr_map={'self.accrual_factor': ('accrual_factor', NUM), 'self.par': ('par', NUM)},
            extra_params=[('accrual_factor', NUM), ('par', NUM)])))
        fn = prepare(P, find_function(ftree, 'BondFRN.dollar_duration'), 'frn_dollar_duration',
                     subst={FRN_PX_UP: 'p_up_in', FRN_PX_DN: 'p_dn_in'})
        out.append(tr.function(fn, FuncSpec('BondFRN.dollar_duration', 'frn_dollar_duration',
                                            [('p_up_in', NUM), ('p_dn_in', NUM)], NUM,
                                            doc='p_up_in = dirty_price_from_dm at current_ibor + dy, p_dn_in = at current_ibor - dy')))
        fn = prepare(P, find_function(ftree, 'BondFRN.modified_duration'), 'frn_modified_duration',
                     subst={FRN_DD: 'dd_in', FRN_PX: 'fp_in'})
        out.append(tr.function(fn, FuncSpec('BondFRN.modified_duration', 'frn_modified_duration',
                                            [('dd_in', NUM), ('fp_in', NUM)], NUM)))
        fn = prepare(P, find_function(ftree, 'BondFRN.macauley_duration'), 'frn_macauley_duration',
                     subst={FRN_DD: 'dd_in', FRN_PX: 'fp_in'})
        out.append(tr.function(fn, FuncSpec('BondFRN.macauley_duration', 'frn_macauley_duration',
                                            [('next_cpn', NUM), ('dm', NUM), ('dd_in', NUM), ('fp_in', NUM)], NUM,
                                            attr_map={'self.freq': ('freq', NUM)}, extra_params=[('freq', NUM)])))
        fn = prepare(P, find_function(ftree, 'BondFRN.convexity_from_dm'), 'frn_convexity_from_dm',
                     subst={FRN_PX_DN: 'p0_in', FRN_PX: 'p1_in', FRN_PX_UP: 'p2_in'})
        out.append(tr.function(fn, FuncSpec('BondFRN.convexity_from_dm', 'frn_convexity_from_dm',
                                            [('p0_in', NUM), ('p1_in', NUM), ('p2_in', NUM)], NUM,
                                            attr_map={'self.par': ('par', NUM)}, extra_params=[('par', NUM)])))
        # ------------------------------------------------------------------------------- BondAnnuity
        atree = S.parse(ANN_PY)
        fn = prepare(P, find_function(atree, 'BondAnnuity.clean_price_from_discount_curve'), 'annuity_clean_price',
                     subst={'self.dirty_price_from_discount_curve(settle_dt, discount_curve)': 'dirty_in'})
        out.append(tr.function(fn, FuncSpec(
            'BondAnnuity.clean_price_from_discount_curve', 'annuity_clean_price', [('dirty_in', NUM)], NUM,
            attr_map={'self.accrued_int': ('accrued_int', NUM), 'self.par': ('par', NUM)},
            extra_params=[('accrued_int', NUM), ('par', NUM)],
            doc='dirty_in = dirty_price_from_discount_curve(...); accrued_int = the state left by calculate_payments(settle, 1.0)')))
        ns = 'BondF' if kind == 'float' else 'BondR'
        body = prelude(ns, kind) + '\n'.join(out) + f'\nend FinVerif.Gen.{ns}\n'
        return SOURCES, body
    return build


MODULES = {'BondF': build_bonds('float'), 'BondR': build_bonds('real')}


# ================================================================================================ loops (growth round 6)
"""BondLoopR — the LOOPS of the bond classes, cut out of the source `for` statements (ℝ / Int, for Props/C07h).

The translator takes no loops; what it takes is every straight-line piece OF a loop:

  <loop>_range / <loop>_slice   the loop header: `range(a, b)` -> `(a, b)`;  `self.cpn_dts[a:b]` -> `(a, b)` with 0 for an
                                absent bound (so `self.cpn_dts` is `(0, 0)`, `self.cpn_dts[1:]` is `(1, 0)`, `[1:-1]` is `(1, -1)`)
  <loop>_init                   the assignments that initialise the loop-carried variables (`n = 0`, `px = 0.0; df = 1.0`, …)
  <loop>_step                   the loop BODY as one function `state -> element -> state` (the comparison operator on the
                                dates, the index offsets, the ex-dividend test, the arithmetic are the translator's reading)
  <loop>_tail                   the statements after the loop

Only array / curve / day-count READS become parameters, each by its exact source text (`self.cpn_dts[i_flow]` ->
`cpn_dt_in`, `discount_curve.df(dt)` -> `df_in`, …); a listed text that no longer occurs exactly as often as stated makes
generation fail (=> broken obligation).  `_calc_pcd_ncd`'s `break` becomes the Bool `found`, its stores
`self.pcd = self.cpn_dts[E]` become `pcd_idx = E` (the INDEX expression is what is generated).
"""


def _U(n):
    return ast.unparse(n)


def _mkfn(name, stmts, ret_names):
    elts = [ast.Name(id=n, ctx=ast.Load()) for n in ret_names]
    ret = ast.Return(value=ast.Tuple(elts=elts, ctx=ast.Load()) if len(elts) > 1 else elts[0])
    f = ast.FunctionDef(name=name, args=ast.arguments(posonlyargs=[], args=[], kwonlyargs=[], kw_defaults=[], defaults=[]),
                        body=list(stmts) + [ret], decorator_list=[], type_params=[])
    ast.fix_missing_locations(f)
    return f


def _loops(P, fnode, what, target, n=1):
    """top-level `for <target> in …` loops of the method: [(index in body, loop)]"""
    found = [(i, st) for i, st in enumerate(fnode.body) if isinstance(st, ast.For) and _U(st.target) == target]
    if len(found) != n:
        raise P.Untranslatable(f'{what}: {len(found)} top-level loops `for {target} in …` (expected {n})')
    return found


def _no_jumps(P, loop, what):
    for x in ast.walk(loop):
        if isinstance(x, (ast.Break, ast.Continue, ast.Return, ast.For, ast.While)) and x is not loop:
            raise P.Untranslatable(f'{what}: loop body contains {type(x).__name__}')
    if loop.orelse:
        raise P.Untranslatable(f'{what}: loop has an else clause')


def _header_stmts(P, it, what, table='self.cpn_dts'):
    """`range(a, b)` / `table[a:b]` / `table` -> statements `lo = a; hi = b` (absent slice bound = 0)."""
    if isinstance(it, ast.Call) and _U(it.func) == 'range' and len(it.args) == 2 and not it.keywords:
        lo, hi = it.args
    elif _U(it) == table:
        lo, hi = ast.Constant(0), ast.Constant(0)
    elif isinstance(it, ast.Subscript) and _U(it.value) == table and isinstance(it.slice, ast.Slice) and it.slice.step is None:
        lo = it.slice.lower or ast.Constant(0)
        hi = it.slice.upper or ast.Constant(0)
    else:
        raise P.Untranslatable(f'{what}: loop header `{_U(it)}` is not range(a, b) or a slice of {table}')
    return [ast.Assign(targets=[ast.Name(id='lo', ctx=ast.Store())], value=lo),
            ast.Assign(targets=[ast.Name(id='hi', ctx=ast.Store())], value=hi)]


def _cut(P, stmts, what, drop=(), subst=None, replace=None, counts=None):
    from registry.swaps import _cut as swaps_cut
    return swaps_cut(P, stmts, what, drop=drop, subst=subst, replace=replace, counts=counts)


def _init_of(P, fnode, upto, names, what):
    """the LAST plain assignment `name = <expr>` before body index `upto`, for each loop-carried name, in source order"""
    out = []
    for nm in names:
        hits = [st for st in fnode.body[:upto] if isinstance(st, ast.Assign) and len(st.targets) == 1 and _U(st.targets[0]) == nm]
        if not hits:
            raise P.Untranslatable(f'{what}: no initial assignment of `{nm}` before the loop')
        out.append(hits[-1])
    return out


def _exdiv_args(P, fnode, what):
    """`self.ex_div_dt = cal.add_business_days(A, B)` -> statements `anchor = A; offset = B`"""
    hits = [st for st in fnode.body if isinstance(st, ast.Assign) and _U(st.targets[0]) == 'self.ex_div_dt']
    if len(hits) != 1 or not (isinstance(hits[0].value, ast.Call) and _U(hits[0].value.func) == 'cal.add_business_days'
                              and len(hits[0].value.args) == 2 and not hits[0].value.keywords):
        raise P.Untranslatable(f'{what}: expected exactly one `self.ex_div_dt = cal.add_business_days(a, b)`')
    a, b = hits[0].value.args
    return [ast.Assign(targets=[ast.Name(id='anchor', ctx=ast.Store())], value=a),
            ast.Assign(targets=[ast.Name(id='offset', ctx=ast.Store())], value=b)]


def build_bond_loops(kind):
    def build(P, S):
        from py2lean import FuncSpec, Translator, Dialect, NUM, INT, BOOL, find_function
        consts = dict(S.module_consts(BOND_PY))
        tr = Translator(Dialect(kind), consts)
        out = []

        def emit(fn, spec):
            out.append(tr.function(fn, spec))

        tree = S.parse(BOND_PY)
        EXA = {'self.pcd': ('pcd', INT), 'self.ncd': ('ncd', INT), 'self.ex_div_days': ('ex_div_days', INT)}
        EXP = [('pcd', INT), ('ncd', INT), ('ex_div_days', INT)]
        # ------------------------------------------------------------------------------- Bond._calc_pcd_ncd
        w = 'Bond._calc_pcd_ncd'
        f = find_function(tree, w)
        (_, loop), = _loops(P, f, w, 'i_flow')
        emit(_mkfn('pcd_ncd_range', _header_stmts(P, loop.iter, w), ['lo', 'hi']),
             FuncSpec(w + '[loop header]', 'pcd_ncd_range', [('num_flows', INT)], 'tuple:int,int',
                      doc='`for i_flow in range(lo, hi)`; num_flows = len(self.cpn_dts)'))
        if len(loop.body) != 1 or not isinstance(loop.body[0], ast.If) or loop.body[0].orelse:
            raise P.Untranslatable(f'{w}: the loop body is not a single `if` without else')
        iff = loop.body[0]
        if not iff.body or not isinstance(iff.body[-1], ast.Break):
            raise P.Untranslatable(f'{w}: the `if` body does not end in `break`')
        if not loop.orelse or not isinstance(loop.orelse[-1], ast.Raise):
            raise P.Untranslatable(f'{w}: the loop has no `else: … raise` (fall-through must raise)')
        stores = []
        for st in iff.body[:-1]:
            ok = (isinstance(st, ast.Assign) and len(st.targets) == 1 and _U(st.targets[0]) in ('self.pcd', 'self.ncd')
                  and isinstance(st.value, ast.Subscript) and _U(st.value.value) == 'self.cpn_dts'
                  and not isinstance(st.value.slice, ast.Slice))
            if not ok:
                raise P.Untranslatable(f'{w}: unexpected statement in the `if` body: {_U(st)}')
            stores.append(ast.Assign(targets=[ast.Name(id=_U(st.targets[0])[5:] + '_idx', ctx=ast.Store())], value=st.value.slice))
        if sorted(_U(s.targets[0]) for s in stores) != ['ncd_idx', 'pcd_idx']:
            raise P.Untranslatable(f'{w}: the `if` body does not store self.pcd and self.ncd exactly once each')
        test, _ = _cut(P, [ast.Expr(value=iff.test)], w + ' test', subst={'self.cpn_dts[i_flow]': 'cpn_dt_in'})
        body = ast.parse('found = False\npcd_idx = -1\nncd_idx = -1').body + [
            ast.If(test=test[0].value, body=stores + ast.parse('found = True').body, orelse=[])]
        emit(_mkfn('pcd_ncd_step', body, ['found', 'pcd_idx', 'ncd_idx']),
             FuncSpec(w + '[loop body]', 'pcd_ncd_step', [('settle_dt', INT), ('i_flow', INT), ('cpn_dt_in', INT)],
                      'tuple:bool,int,int',
                      doc='one iteration: cpn_dt_in = self.cpn_dts[i_flow]; found = the `break` is taken; pcd_idx / ncd_idx = the '
                          'index expressions E of `self.pcd = self.cpn_dts[E]` / `self.ncd = self.cpn_dts[E]` (-1 when not taken)'))
        # ------------------------------------------------------------------------------- the coupon count of dirty_price_from_ytm
        w = 'Bond.dirty_price_from_ytm'
        f = find_function(tree, w)
        (i, loop), = _loops(P, f, w, 'dt')
        _no_jumps(P, loop, w)
        emit(_mkfn('n_count_slice', _header_stmts(P, loop.iter, w), ['lo', 'hi']),
             FuncSpec(w + '[count loop header]', 'n_count_slice', [], 'tuple:int,int',
                      doc='`for dt in self.cpn_dts[lo:hi]` (0 = bound absent)'))
        emit(_mkfn('n_count_init', _init_of(P, f, i, ['n'], w), ['n']),
             FuncSpec(w + '[count loop init]', 'n_count_init', [], INT))
        emit(_mkfn('n_count_step', loop.body, ['n']),
             FuncSpec(w + '[count loop body]', 'n_count_step', [('settle_dt', INT), ('n', INT), ('dt', INT)], INT))
        # ------------------------------------------------------------------------------- ex-dividend date arguments
        w = 'Bond.accrued_interest'
        emit(_mkfn('accrued_exdiv_args', _exdiv_args(P, find_function(tree, w), w), ['anchor', 'offset']),
             FuncSpec(w + '[ex-dividend date]', 'accrued_exdiv_args', [], 'tuple:int,int', attr_map=EXA, extra_params=EXP,
                      doc='`self.ex_div_dt = cal.add_business_days(anchor, offset)`'))
        # ------------------------------------------------------------------------------- Bond.dirty_price_from_discount_curve
        w = 'Bond.dirty_price_from_discount_curve'
        f = find_function(tree, w)
        emit(_mkfn('curve_exdiv_args', _exdiv_args(P, f, w), ['anchor', 'offset']),
             FuncSpec(w + '[ex-dividend date]', 'curve_exdiv_args', [], 'tuple:int,int', attr_map=EXA, extra_params=EXP,
                      doc='`self.ex_div_dt = cal.add_business_days(anchor, offset)`'))
        (i, loop), = _loops(P, f, w, 'dt')
        _no_jumps(P, loop, w)
        emit(_mkfn('curve_slice', _header_stmts(P, loop.iter, w), ['lo', 'hi']),
             FuncSpec(w + '[loop header]', 'curve_slice', [], 'tuple:int,int', doc='`for dt in self.cpn_dts[lo:hi]` (0 = bound absent)'))
        emit(_mkfn('curve_init', _init_of(P, f, i, ['px', 'df'], w), ['px', 'df']),
             FuncSpec(w + '[loop init]', 'curve_init', [], 'tuple:num,num'))
        pay = [st for st in f.body[:i] if _U(st).startswith('pay_first_cpn = ') or
               (isinstance(st, ast.If) and 'pay_first_cpn' in _U(st))]
        if len(pay) != 2:
            raise P.Untranslatable(f'{w}: expected `pay_first_cpn = …` and one `if` that resets it before the loop')
        emit(_mkfn('curve_pay_first', pay, ['pay_first_cpn']),
             FuncSpec(w + '[pay_first_cpn]', 'curve_pay_first', [('settle_dt', INT)], NUM,
                      attr_map={'self.ex_div_dt': ('ex_div_dt', INT)}, extra_params=[('ex_div_dt', INT)]))
        body, _ = _cut(P, loop.body, w + ' loop', subst={'discount_curve.df(dt)': 'df_in'})
        emit(_mkfn('curve_step', body, ['px', 'df']),
             FuncSpec(w + '[loop body]', 'curve_step',
                      [('settle_dt', INT), ('pay_first_cpn', NUM), ('px', NUM), ('df', NUM), ('dt', INT), ('df_in', NUM)],
                      'tuple:num,num',
                      attr_map={'self.pcd': ('pcd', INT), 'self.ncd': ('ncd', INT), 'self.cpn': ('cpn', NUM), 'self.freq': ('freq', NUM)},
                      extra_params=[('pcd', INT), ('ncd', INT), ('cpn', NUM), ('freq', NUM)],
                      doc='one iteration, state (px, df); df_in = discount_curve.df(dt); pcd / ncd = self.pcd / self.ncd (set by _calc_pcd_ncd)'))
        tail = ast.FunctionDef(name='curve_tail', args=ast.arguments(posonlyargs=[], args=[], kwonlyargs=[], kw_defaults=[], defaults=[]),
                               body=copy.deepcopy(f.body[i + 1:]), decorator_list=[], type_params=[])
        ast.fix_missing_locations(tail)
        emit(tail,
             FuncSpec(w + '[after the loop]', 'curve_tail', [('px', NUM), ('df', NUM), ('df_settle_dt', NUM)], NUM,
                      attr_map={'self.par': ('par', NUM)}, extra_params=[('par', NUM)]))
        # ------------------------------------------------------------------------------- BondFRN.dirty_price_from_dm
        w = 'BondFRN.dirty_price_from_dm'
        f = find_function(S.parse(FRN_PY), w)
        (i, loop), = _loops(P, f, w, 'i_flow')
        _no_jumps(P, loop, w)
        emit(_mkfn('frn_range', _header_stmts(P, loop.iter, w), ['lo', 'hi']),
             FuncSpec(w + '[loop header]', 'frn_range', [('num_flows', INT)], 'tuple:int,int'))
        head, _ = _cut(P, f.body[:i], w + ' head',
                       drop=['day_counter = DayCount(self.dc_type)', 'num_flows = len(self.cpn_dts)'],
                       replace={'alpha, _, _ = day_counter.year_frac(settle_dt, self.ncd)': 'alpha = alpha0_in',
                                'alpha, _, _ = day_counter.year_frac(self.pcd, self.ncd)': 'alpha = alpha1_in'})
        head = [st for st in head if not (isinstance(st, ast.Expr) and isinstance(st.value, ast.Constant))]
        emit(_mkfn('frn_init', head, ['pv', 'df']),
             FuncSpec(w + '[before the loop]', 'frn_init',
                      [('next_cpn', NUM), ('current_ibor', NUM), ('dm', NUM), ('alpha0_in', NUM), ('alpha1_in', NUM)], 'tuple:num,num',
                      attr_map={'self.quoted_margin': ('quoted_margin', NUM)}, extra_params=[('quoted_margin', NUM)],
                      doc='alpha0_in = year_frac(settle_dt, self.ncd)[0], alpha1_in = year_frac(self.pcd, self.ncd)[0]'))
        if len(loop.body) != 1 or not isinstance(loop.body[0], ast.If) or loop.body[0].orelse:
            raise P.Untranslatable(f'{w}: the loop body is not a single `if` without else')
        per = [st for st in loop.body[0].body if isinstance(st, ast.Assign) and _U(st.targets[0]) in ('pcd', 'ncd')]
        if [(_U(s.targets[0]), _U(s.value.value) if isinstance(s.value, ast.Subscript) else '') for s in per] != \
                [('pcd', 'self.cpn_dts'), ('ncd', 'self.cpn_dts')]:
            raise P.Untranslatable(f'{w}: expected `pcd = self.cpn_dts[…]` then `ncd = self.cpn_dts[…]` in the loop body')
        emit(_mkfn('frn_period_idx', [ast.Assign(targets=[ast.Name(id=_U(s.targets[0]) + '_idx', ctx=ast.Store())], value=s.value.slice)
                                      for s in per], ['pcd_idx', 'ncd_idx']),
             FuncSpec(w + '[accrual period of a future coupon]', 'frn_period_idx', [('i_flow', INT)], 'tuple:int,int',
                      doc='index expressions of `pcd = self.cpn_dts[E]`, `ncd = self.cpn_dts[E]`'))
        body, _ = _cut(P, loop.body, w + ' loop', drop=[_U(s) for s in per],
                       subst={'self.cpn_dts[i_flow]': 'cpn_dt_in'},
                       replace={'alpha, _, _ = day_counter.year_frac(pcd, ncd)': 'alpha = alpha_in'})
        emit(_mkfn('frn_step', body, ['pv', 'df']),
             FuncSpec(w + '[loop body]', 'frn_step',
                      [('future_ibor', NUM), ('dm', NUM), ('q', NUM), ('pv', NUM), ('df', NUM), ('cpn_dt_in', INT), ('alpha_in', NUM)],
                      'tuple:num,num', attr_map={'self.ncd': ('self_ncd', INT)}, extra_params=[('self_ncd', INT)],
                      doc='one iteration, state (pv, df); cpn_dt_in = self.cpn_dts[i_flow], alpha_in = year_frac(pcd, ncd)[0] of frn_period_idx'))
        tail = ast.FunctionDef(name='frn_tail', args=ast.arguments(posonlyargs=[], args=[], kwonlyargs=[], kw_defaults=[], defaults=[]),
                               body=copy.deepcopy(f.body[i + 1:]), decorator_list=[], type_params=[])
        ast.fix_missing_locations(tail)
        emit(tail, FuncSpec(w + '[after the loop]', 'frn_tail', [('pv', NUM), ('df', NUM)], NUM,
                            attr_map={'self.par': ('par', NUM)}, extra_params=[('par', NUM)]))
        # ------------------------------------------------------------------------------- BondAnnuity
        atree = S.parse(ANN_PY)
        w = 'BondAnnuity.dirty_price_from_discount_curve'
        f = find_function(atree, w)
        (i, loop), = _loops(P, f, w, 'i')
        _no_jumps(P, loop, w)
        emit(_mkfn('annuity_range', _header_stmts(P, loop.iter, w), ['lo', 'hi']),
             FuncSpec(w + '[loop header]', 'annuity_range', [('num_flows', INT)], 'tuple:int,int'))
        emit(_mkfn('annuity_init', _init_of(P, f, i, ['pv'], w), ['pv']), FuncSpec(w + '[loop init]', 'annuity_init', [], NUM))
        body, _ = _cut(P, loop.body, w + ' loop', drop=['dt = self.cpn_dts[i]'],
                       subst={'discount_curve.df(dt)': 'df_in', 'self.flow_amounts[i]': 'flow_in'})
        emit(_mkfn('annuity_step', body, ['pv']),
             FuncSpec(w + '[loop body]', 'annuity_step', [('pv', NUM), ('df_in', NUM), ('flow_in', NUM)], NUM,
                      doc='df_in = discount_curve.df(self.cpn_dts[i]), flow_in = self.flow_amounts[i]'))
        tail = ast.FunctionDef(name='annuity_tail', args=ast.arguments(posonlyargs=[], args=[], kwonlyargs=[], kw_defaults=[], defaults=[]),
                               body=copy.deepcopy(f.body[i + 1:]), decorator_list=[], type_params=[])
        ast.fix_missing_locations(tail)
        emit(tail, FuncSpec(w + '[after the loop]', 'annuity_tail', [('pv', NUM)], NUM,
                            attr_map={'self.par': ('par', NUM)}, extra_params=[('par', NUM)]))
        w = 'BondAnnuity.calculate_payments'
        f = find_function(atree, w)
        (i, loop), = _loops(P, f, w, 'next_dt')
        _no_jumps(P, loop, w)
        emit(_mkfn('annuity_flow_slice', _header_stmts(P, loop.iter, w), ['lo', 'hi']),
             FuncSpec(w + '[loop header]', 'annuity_flow_slice', [], 'tuple:int,int'))
        body, outs = _cut(P, loop.body, w + ' loop', drop=['prev_dt = next_dt'],
                          subst={'basis.year_frac(prev_dt, next_dt, next_dt, self.freq_type)[0]': 'alpha_in'})
        if outs != ['flow_amounts_out']:
            raise P.Untranslatable(f'{w}: tables appended {outs}')
        emit(_mkfn('annuity_flow_step', body, ['flow_amounts_out']),
             FuncSpec(w + '[loop body]', 'annuity_flow_step', [('face', NUM), ('alpha_in', NUM)], NUM,
                      attr_map={'self.cpn': ('cpn', NUM)}, extra_params=[('cpn', NUM)],
                      doc='the element appended to self.flow_amounts; alpha_in = year_frac(prev_dt, next_dt, next_dt, freq_type)[0], '
                          'prev_dt = next_dt afterwards (consecutive schedule dates)'))
        ns = 'BondLoopR'
        body = prelude(ns, kind) + '\n'.join(out) + f'\nend FinVerif.Gen.{ns}\n'
        return SOURCES, body
    return build


MODULES['BondLoopR'] = build_bond_loops('real')
