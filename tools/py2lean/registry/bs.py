"""Generated modules for the Black-Scholes family (T1 float kernels).

  BSF  Float, executable (driver / correspondence)
  BSR  ℝ, the code's own N (Hull polynomial) and nprime             — parity, digital relations, N symmetry
  BSP  ℝ, the SAME source text with the normal cdf/pdf abstracted to parameters `Ncdf npdf : ℝ → ℝ`
       (every call of N / n_vect / norm.cdf becomes `Ncdf`, every n_prime_vect / nprime / norm.pdf becomes `npdf`)
       — Greeks = derivatives under hypotheses on (Ncdf, npdf); Bachelier (whose cdf is SciPy's, not in the repo).
       `Props/C05a` proves `BSP.f BSR.N BSR.nprime … = BSR.f …` by unfolding, so BSP is the generated code, not a copy.

Sources: black_scholes_analytic.py (bs_*), black.py (black_* with calculate_d1_d2 inlined), black_shifted.py
(BlackShifted.value, object attributes as parameters), bachelier.py (Bachelier.value), equity_digital_option.py
(EquityDigitalOption.value from `t = max(t, 1e-6)` on; the date/curve glue above it is replaced by parameters
t_raw, df_in, dq_in and must keep its exact text — see _astprep.slice_method).
"""
MATH_PY = 'financepy/utils/math.py'
BSA_PY = 'financepy/models/black_scholes_analytic.py'
BLACK_PY = 'financepy/models/black.py'
BSHIFT_PY = 'financepy/models/black_shifted.py'
BACH_PY = 'financepy/models/bachelier.py'
DIGI_PY = 'financepy/products/equity/equity_digital_option.py'
GT_PY = 'financepy/utils/global_types.py'
GV_PY = 'financepy/utils/global_vars.py'

REAL_IMPORTS = ['Mathlib.Analysis.SpecialFunctions.Pow.Real', 'Mathlib.Analysis.SpecialFunctions.Sqrt',
                'Mathlib.Analysis.SpecialFunctions.Log.Basic', 'Mathlib.Analysis.SpecialFunctions.Exp']

# codes used for FinDigitalOptionTypes in the generated kernel (the enum's own values are not ints:
# CASH_OR_NOTHING = (1,)); the harness maps member names to the same codes.
DIGITAL_CODES = {'FinDigitalOptionTypes.CASH_OR_NOTHING': 1, 'FinDigitalOptionTypes.ASSET_OR_NOTHING': 2}

DIGITAL_DROP = [
    "if isinstance(value_dt, Date) is False:\n    raise FinError('Valuation date is not a Date')",
    "if value_dt > self.expiry_dt:\n    raise FinError('Valuation date after expiry date.')",
    "if discount_curve.value_dt != value_dt:\n    raise FinError('Discount Curve valuation date not same as option value date')",
    "if dividend_curve.value_dt != value_dt:\n    raise FinError('Dividend Curve valuation date not same as option value date')",
]
DIGITAL_SUBST = {
    '(self.expiry_dt - value_dt) / g_days_in_year': 't_raw',
    'discount_curve.df(self.expiry_dt)': 'df_in',
    'dividend_curve.df(self.expiry_dt)': 'dq_in',
}


def prelude(ns, kind, extra_imports=(), variables=''):
    imps = ['FinVerif.Core.Prelude'] + list(extra_imports) + (REAL_IMPORTS if kind == 'real' else [])
    s = ''.join(f'import {i}\n' for i in imps)
    s += '\nset_option linter.unusedVariables false\n\nnamespace FinVerif.Gen.' + ns + '\nopen FinVerif\n\n'
    if variables:
        s += variables + '\n\n'
    return s


def math_kernels(tr, S, out):
    """N, nprime, normpdf, n_vect, n_prime_vect from utils/math.py (shared by every pricing kernel)."""
    from py2lean import FuncSpec, NUM, find_function
    tree = S.parse(MATH_PY)
    for nm, fuel in [('nprime', 0), ('normpdf', 0), ('N', 2), ('n_vect', 0), ('n_prime_vect', 0)]:
        sp = FuncSpec(nm, nm if nm != 'N' else 'N', [('x', NUM)], NUM, fuel=fuel)
        out.append(tr.function(find_function(tree, nm), sp))
        tr.funcs[nm] = sp


def abstract_normal(tr, cdf, pdf, names_cdf, names_pdf):
    from py2lean import FuncSpec, NUM
    for nm in names_cdf:
        tr.funcs[nm] = FuncSpec(nm, cdf, [('x', NUM)], NUM)
    for nm in names_pdf:
        tr.funcs[nm] = FuncSpec(nm, pdf, [('x', NUM)], NUM)


def bs_kernels(tr, S, out):
    from py2lean import FuncSpec, INT, NUM, find_function
    tree = S.parse(BSA_PY)
    seven = [('s', NUM), ('t', NUM), ('k', NUM), ('r', NUM), ('q', NUM), ('v', NUM), ('option_type_value', INT)]
    for nm in ['bs_value', 'bs_delta', 'bs_gamma', 'bs_vega', 'bs_theta', 'bs_rho', 'bs_vanna']:
        sp = FuncSpec(nm, nm, seven, NUM)
        out.append(tr.function(find_function(tree, nm), sp))
    sp = FuncSpec('bs_intrinsic', 'bs_intrinsic', seven[:5] + [seven[6]], NUM)
    out.append(tr.function(find_function(tree, 'bs_intrinsic'), sp))


def black_kernels(tr, S, out):
    """black_value/delta/gamma/vega/theta with `d1, d2 = calculate_d1_d2(fwd, t, k, v)` inlined."""
    from py2lean import FuncSpec, INT, NUM, find_function
    from registry._astprep import inline_tuple_call
    tree = S.parse(BLACK_PY)
    callee = find_function(tree, 'calculate_d1_d2')
    six = [('fwd', NUM), ('t', NUM), ('k', NUM), ('r', NUM), ('v', NUM), ('option_type', INT)]
    for nm in ['black_value', 'black_delta', 'black_gamma', 'black_vega', 'black_theta']:
        fn = inline_tuple_call(find_function(tree, nm), callee)
        out.append(tr.function(fn, FuncSpec(nm, nm, six, NUM, doc='calculate_d1_d2 inlined')))


def shifted_kernel(tr, S, out):
    from py2lean import FuncSpec, INT, NUM, find_function
    tree = S.parse(BSHIFT_PY)
    sp = FuncSpec('BlackShifted.value', 'black_shifted_value',
                  [('forward_rate', NUM), ('strike_rate', NUM), ('time_to_expiry', NUM), ('df', NUM),
                   ('call_or_put', INT)], NUM,
                  attr_map={'self.shift': ('shift', NUM), 'self.volatility': ('volatility', NUM)},
                  extra_params=[('shift', NUM), ('volatility', NUM)],
                  doc='object attributes self.shift, self.volatility as trailing parameters')
    out.append(tr.function(find_function(tree, 'BlackShifted.value'), sp))


def bachelier_kernel(tr, S, out):
    from py2lean import FuncSpec, INT, NUM, find_function
    tree = S.parse(BACH_PY)
    sp = FuncSpec('Bachelier.value', 'bachelier_value',
                  [('forward_rate', NUM), ('strike_rate', NUM), ('time_to_expiry', NUM), ('df', NUM),
                   ('call_or_put', INT)], NUM,
                  attr_map={'self.volatility': ('volatility', NUM)},
                  extra_params=[('volatility', NUM)],
                  doc='self.volatility as trailing parameter; norm.cdf / norm.pdf are SciPy\'s')
    out.append(tr.function(find_function(tree, 'Bachelier.value'), sp))


def digital_kernel(tr, S, out):
    from py2lean import FuncSpec, INT, NUM, find_function
    from registry._astprep import slice_method
    tree = S.parse(DIGI_PY)
    fn = slice_method(find_function(tree, 'EquityDigitalOption.value'), DIGITAL_DROP, DIGITAL_SUBST,
                      'digital_value')
    sp = FuncSpec('EquityDigitalOption.value', 'digital_value',
                  [('s', NUM), ('t_raw', NUM), ('df_in', NUM), ('dq_in', NUM)], NUM,
                  attr_map={'self.barrier': ('barrier', NUM), 'model.volatility': ('vol', NUM),
                            'self.call_put_type': ('call_put_type', INT), 'self.digital_type': ('digital_type', INT)},
                  extra_params=[('barrier', NUM), ('vol', NUM), ('call_put_type', INT), ('digital_type', INT)],
                  doc='kernel part (after the date/curve glue); t_raw = (expiry - value date)/365, df_in / dq_in = '
                      'discount / dividend curve df at expiry; digital_type 1 = CASH_OR_NOTHING, 2 = ASSET_OR_NOTHING')
    out.append(tr.function(fn, sp))


def all_consts(S):
    consts = dict(S.module_consts(MATH_PY))
    consts.update(S.module_consts(GV_PY))
    consts.update(S.module_consts(GT_PY))
    consts.update(DIGITAL_CODES)
    return consts


SOURCES = [BSA_PY, MATH_PY, GT_PY, GV_PY, BLACK_PY, BSHIFT_PY, BACH_PY, DIGI_PY]


def build_bs(kind):
    """BSF / BSR: the code's own N."""
    def build(P, S):
        from py2lean import Translator, Dialect
        tr = Translator(Dialect(kind), all_consts(S))
        out = []
        math_kernels(tr, S, out)
        bs_kernels(tr, S, out)
        black_kernels(tr, S, out)
        shifted_kernel(tr, S, out)
        digital_kernel(tr, S, out)
        extra = ()
        if kind == 'float':
            # SciPy's norm.cdf / norm.pdf: executable stand-ins (Cody erfc) from Model/NormCdf.lean
            abstract_normal(tr, 'FinVerif.normCdf', 'FinVerif.normPdf', ['norm.cdf'], ['norm.pdf'])
            bachelier_kernel(tr, S, out)
            extra = ('FinVerif.Model.NormCdf',)
        ns = 'BSF' if kind == 'float' else 'BSR'
        body = prelude(ns, kind, extra) + '\n'.join(out) + f'\nend FinVerif.Gen.{ns}\n'
        return SOURCES, body
    return build


def build_bsp(P, S):
    """BSP: same source, normal cdf/pdf abstracted (section variables become leading explicit arguments of
    exactly those definitions that use them)."""
    from py2lean import Translator, Dialect
    tr = Translator(Dialect('real'), all_consts(S))
    abstract_normal(tr, 'Ncdf', 'npdf', ['N', 'n_vect', 'norm.cdf'], ['nprime', 'normpdf', 'n_prime_vect', 'norm.pdf'])
    out = []
    bs_kernels(tr, S, out)
    black_kernels(tr, S, out)
    shifted_kernel(tr, S, out)
    bachelier_kernel(tr, S, out)
    digital_kernel(tr, S, out)
    body = prelude('BSP', 'real', variables='variable (Ncdf npdf : ℝ → ℝ)') + '\n'.join(out) + '\nend FinVerif.Gen.BSP\n'
    return SOURCES, body


MODULES = {'BSF': build_bs('float'), 'BSR': build_bs('real'), 'BSP': build_bsp}
