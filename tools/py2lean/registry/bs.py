"""Generated modules for the Black-Scholes family (T1 float kernels), twice: Float and Real."""
MATH_PY = 'financepy/utils/math.py'
BSA_PY = 'financepy/models/black_scholes_analytic.py'
GT_PY = 'financepy/utils/global_types.py'
GV_PY = 'financepy/utils/global_vars.py'

REAL_IMPORTS = ['Mathlib.Analysis.SpecialFunctions.Pow.Real', 'Mathlib.Analysis.SpecialFunctions.Sqrt',
                'Mathlib.Analysis.SpecialFunctions.Log.Basic', 'Mathlib.Analysis.SpecialFunctions.Exp']


def prelude(ns, kind, extra_imports=()):
    imps = ['FinVerif.Core.Prelude'] + list(extra_imports) + (REAL_IMPORTS if kind == 'real' else [])
    s = ''.join(f'import {i}\n' for i in imps)
    s += '\nset_option linter.unusedVariables false\n\nnamespace FinVerif.Gen.' + ns + '\nopen FinVerif\n\n'
    return s


def math_kernels(tr, S, out):
    """N, nprime, normpdf, n_vect, n_prime_vect from utils/math.py (shared by every pricing kernel)."""
    from py2lean import FuncSpec, NUM, find_function
    tree = S.parse(MATH_PY)
    for nm, fuel in [('nprime', 0), ('normpdf', 0), ('N', 2), ('n_vect', 0), ('n_prime_vect', 0)]:
        sp = FuncSpec(nm, nm if nm != 'N' else 'N', [('x', NUM)], NUM, fuel=fuel)
        out.append(tr.function(find_function(tree, nm), sp))
        tr.funcs[nm] = sp


def build_bs(kind):
    def build(P, S):
        from py2lean import FuncSpec, Translator, Dialect, INT, NUM, find_function
        consts = dict(S.module_consts(MATH_PY))
        consts.update(S.module_consts(GV_PY))
        consts.update(S.module_consts(GT_PY))
        tr = Translator(Dialect(kind), consts)
        out = []
        math_kernels(tr, S, out)
        tree = S.parse(BSA_PY)
        seven = [('s', NUM), ('t', NUM), ('k', NUM), ('r', NUM), ('q', NUM), ('v', NUM), ('option_type_value', INT)]
        for nm in ['bs_value', 'bs_delta', 'bs_gamma', 'bs_vega', 'bs_theta', 'bs_rho', 'bs_vanna']:
            sp = FuncSpec(nm, nm, seven, NUM)
            out.append(tr.function(find_function(tree, nm), sp))
            tr.funcs[nm] = sp
        sp = FuncSpec('bs_intrinsic', 'bs_intrinsic', seven[:5] + [seven[6]], NUM)
        out.append(tr.function(find_function(tree, 'bs_intrinsic'), sp))
        ns = 'BSF' if kind == 'float' else 'BSR'
        body = prelude(ns, kind) + '\n'.join(out) + f'\nend FinVerif.Gen.{ns}\n'
        return [BSA_PY, MATH_PY, GT_PY, GV_PY], body
    return build


MODULES = {'BSF': build_bs('float'), 'BSR': build_bs('real')}
