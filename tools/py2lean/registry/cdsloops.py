"""CdsLoopR — the LOOPS and the object glue of the CDS valuation (property C09), cut out of the source on every run.

Sources: financepy/products/credit/cds.py (`_risky_pv01_numba`, `_prot_leg_pv_numba`, `CDS.value`, `CDS.par_spread`,
`CDS.accrued_interest`, `CDS.prot_leg_pv`, `CDS.premium_leg_pv`, `CDS.risky_pv01`) and cds_curve.py (`f`, `CDSCurve._build_curve`).
ℝ dialect only (Props/C09j); the Float side of the same loops is the hand model run by `c09driver` (ops RPV / PROT / VAL / BOOT).

The translator takes no loops; it takes every straight-line piece OF a loop (the scheme of registry/bonds.py `BondLoopR`):

  <loop>_range      the header `for v in range(a, b)` -> `(a, b)`        (`len(payment_times)` -> parameter `n_payments`)
  <loop>_init       everything before the loop -> the tuple of loop-carried variables (+ the read-only ones the body uses)
  <loop>_idx        the INDEX expressions of the array reads (`payment_times[0]`, `year_fracs[1]`, `payment_times[it]`, …);
                    the reads themselves become parameters (`…_in`), so an index offset edited in the source changes `_idx`
  <loop>_step       the loop BODY as a function  state -> element -> state
  <loop>_tail       the statements after the loop

Curve reads are not parameters but CALLS of the section variables `Qf Zf : ℝ → ℝ`: the only accepted shapes are
`_uinterpolate(X, np_surv_times, np_surv_values, method)` -> `Qf X` and `_uinterpolate(X, np_ibor_times, np_ibor_values, method)`
-> `Zf X` (X is translated, so the time at which a curve is read IS generated), with `method = InterpTypes.FLAT_FWD_RATES.value`
pinned.  `USE_FLAT_HAZARD_RATE_INTEGRAL` becomes the Bool parameter `use_flat` of the two step functions (both branches of
each loop are generated) and its module value the constant `use_flat_hazard_rate_integral`.  For `_prot_leg_pv_numba` the two
`for` statements sit in the branches of `if USE_FLAT_HAZARD_RATE_INTEGRAL:`; their headers must agree textually, and the
step is generated from `if use_flat: <body A> else: <body B>`.

Anything else (a second loop, a `break`, another statement kind, another `_uinterpolate` shape, a pinned text that no longer
occurs exactly once) raises Untranslatable => `Gen/CdsLoopR.lean` does not compile => broken obligation.
"""
from __future__ import annotations

import ast
import copy

from registry.bs import prelude, GV_PY

CDS_PY = 'financepy/products/credit/cds.py'
CURVE_PY = 'financepy/products/credit/cds_curve.py'
SOURCES = [CDS_PY, CURVE_PY, GV_PY]

METHOD_STMT = 'method = InterpTypes.FLAT_FWD_RATES.value'
FLAG = 'USE_FLAT_HAZARD_RATE_INTEGRAL'


def U(n):
    return ast.unparse(n)


def _name(i, ctx=None):
    return ast.Name(id=i, ctx=ctx or ast.Load())


def _assign(nm, value):
    return ast.Assign(targets=[_name(nm, ast.Store())], value=value)


def _mkfn(name, stmts, ret_names=None):
    body = list(copy.deepcopy(stmts))
    if ret_names is not None:
        elts = [_name(n) for n in ret_names]
        body.append(ast.Return(value=ast.Tuple(elts=elts, ctx=ast.Load()) if len(elts) > 1 else elts[0]))
    f = ast.FunctionDef(name=name, args=ast.arguments(posonlyargs=[], args=[], kwonlyargs=[], kw_defaults=[], defaults=[]),
                        body=body, decorator_list=[], type_params=[])
    ast.fix_missing_locations(f)
    return f


class _Reads(ast.NodeTransformer):
    """`_uinterpolate(X, <curve arrays>, method)` -> `Qf(X)` / `Zf(X)`; `<array>[E]` -> parameter, E recorded; the flag -> `use_flat`."""

    CURVES = {('np_surv_times', 'np_surv_values'): 'Qf', ('np_ibor_times', 'np_ibor_values'): 'Zf'}

    def __init__(self, P, what, arrays):
        self.P, self.what = P, what
        self.arrays = arrays            # {'payment_times': 'pt_in', …}
        self.idx = {a: [] for a in arrays}
        self.ncurve = 0
        self.nflag = 0

    def visit_Call(self, node):
        if U(node.func) == '_uinterpolate':
            if len(node.args) != 4 or node.keywords or U(node.args[3]) != 'method':
                raise self.P.Untranslatable(f'{self.what}: unexpected curve read `{U(node)}`')
            key = (U(node.args[1]), U(node.args[2]))
            if key not in self.CURVES:
                raise self.P.Untranslatable(f'{self.what}: curve read of unknown arrays `{U(node)}`')
            self.ncurve += 1
            return ast.copy_location(ast.Call(func=_name(self.CURVES[key]), args=[self.visit(node.args[0])], keywords=[]), node)
        return self.generic_visit(node)

    def visit_Subscript(self, node):
        base = U(node.value)
        if base in self.arrays:
            if isinstance(node.slice, ast.Slice) or not isinstance(node.ctx, ast.Load):
                raise self.P.Untranslatable(f'{self.what}: `{U(node)}` is not a plain read')
            self.idx[base].append(node.slice)
            return ast.copy_location(_name(self.arrays[base]), node)
        return self.generic_visit(node)

    def visit_Name(self, node):
        if node.id == FLAG:
            self.nflag += 1
            return ast.copy_location(_name('use_flat'), node)
        return node

    def one_index(self, base):
        """all reads of this array in the piece use the same index expression -> that expression"""
        xs = self.idx[base]
        if not xs or len({U(x) for x in xs}) != 1:
            raise self.P.Untranslatable(f'{self.what}: reads of `{base}` use indices {[U(x) for x in xs]} (expected one expression)')
        return copy.deepcopy(xs[0])


def _strip(P, stmts, what, drop_pinned):
    """remove docstrings, the dead `if 1 == 0:` debug block, and each pinned statement (exactly once)"""
    seen = {d: 0 for d in drop_pinned}
    out = []
    for st in stmts:
        if isinstance(st, ast.Expr) and isinstance(st.value, ast.Constant):
            continue
        if isinstance(st, ast.If) and U(st.test) == '1 == 0' and not st.orelse and \
                all(isinstance(x, ast.Expr) and U(x.value).startswith('print(') for x in st.body):
            continue
        t = U(st)
        if t in seen:
            seen[t] += 1
            continue
        out.append(st)
    bad = [k for k, v in seen.items() if v != 1]
    if bad:
        raise P.Untranslatable(f'{what}: pinned statements not met exactly once: {bad}')
    return out


def _range_header(P, loop, what, subst):
    it = loop.iter
    if not (isinstance(it, ast.Call) and U(it.func) == 'range' and len(it.args) == 2 and not it.keywords):
        raise P.Untranslatable(f'{what}: loop header `{U(it)}` is not range(a, b)')
    lo, hi = copy.deepcopy(it.args[0]), copy.deepcopy(it.args[1])

    class T(ast.NodeTransformer):
        def visit(self, n):
            if isinstance(n, ast.expr) and U(n) in subst:
                return _name(subst[U(n)])
            return self.generic_visit(n)
    return [_assign('lo', T().visit(lo)), _assign('hi', T().visit(hi))]


def _plain_loop(P, loop, what):
    if loop.orelse:
        raise P.Untranslatable(f'{what}: loop has an else clause')
    for x in ast.walk(loop):
        if isinstance(x, (ast.Break, ast.Continue, ast.Return, ast.For, ast.While, ast.Raise)) and x is not loop:
            raise P.Untranslatable(f'{what}: loop body contains {type(x).__name__}')


def _assigned(stmts):
    out = []
    for st in stmts:
        for x in ast.walk(st):
            if isinstance(x, ast.Assign):
                tg = x.targets
            elif isinstance(x, ast.AugAssign):
                tg = [x.target]
            else:
                continue
            for t in tg:
                if isinstance(t, ast.Name) and t.id not in out:
                    out.append(t.id)
    return out


def build(kind):
    def b(P, S):
        from py2lean import FuncSpec, Translator, Dialect, NUM, INT, BOOL, find_function
        consts = dict(S.module_consts(CDS_PY))
        consts.update({k: v for k, v in S.module_consts(GV_PY).items() if k == 'g_days_in_year'})
        if not isinstance(consts.get(FLAG), bool):
            raise P.Untranslatable(f'{FLAG} is not a module-level bool constant of cds.py')
        flag_value = consts.pop(FLAG)
        tr = Translator(Dialect(kind), consts)
        tr.funcs['Qf'] = FuncSpec('Qf', 'Qf', [('t', NUM)], NUM)
        tr.funcs['Zf'] = FuncSpec('Zf', 'Zf', [('t', NUM)], NUM)
        out = []

        def emit(fn, spec):
            out.append(tr.function(fn, spec))

        tree = S.parse(CDS_PY)
        emit(_mkfn('use_flat_hazard_rate_integral', [_assign('flag', ast.Constant(flag_value))], ['flag']),
             FuncSpec(f'cds.py {FLAG}', 'use_flat_hazard_rate_integral', [], BOOL,
                      doc='the module constant that selects the branch of both loops'))
        # =============================================================================== _risky_pv01_numba
        w = '_risky_pv01_numba'
        f = find_function(tree, w)
        if [a.arg for a in f.args.args] != ['teff', 'accrual_factor_pcd_to_now', 'payment_times', 'year_fracs', 'np_ibor_times',
                                            'np_ibor_values', 'np_surv_times', 'np_surv_values', 'pv01_method']:
            raise P.Untranslatable(f'{w}: parameter list changed')
        body = _strip(P, f.body, w, [METHOD_STMT])
        li = [i for i, st in enumerate(body) if isinstance(st, ast.For)]
        if len(li) != 1 or U(body[li[0]].target) != 'it':
            raise P.Untranslatable(f'{w}: expected exactly one top-level loop `for it in …`')
        i = li[0]
        head, loop, after = body[:i], body[i], body[i + 1:]
        _plain_loop(P, loop, w)
        emit(_mkfn('rpv01_range', _range_header(P, loop, w, {'len(payment_times)': 'n_payments'}), ['lo', 'hi']),
             FuncSpec(w + '[loop header]', 'rpv01_range', [('n_payments', INT)], 'tuple:int,int',
                      doc='`for it in range(lo, hi)`; n_payments = len(payment_times)'))
        carried = [n for n in _assigned(loop.body) if n in _assigned(head)]
        if carried != ['full_rpv01', 'q1']:
            raise P.Untranslatable(f'{w}: loop-carried variables {carried} (expected full_rpv01, q1)')
        flag_stmt = [st for st in head if isinstance(st, ast.Assign) and U(st.targets[0]) == 'cpnAccruedIndicator']
        if len(flag_stmt) != 1:
            raise P.Untranslatable(f'{w}: expected exactly one assignment of cpnAccruedIndicator before the loop')
        # ---- head
        r = _Reads(P, w + ' head', {'payment_times': 'pt_first_in', 'year_fracs': 'yf_first_in'})
        hstm = [r.visit(copy.deepcopy(st)) for st in head]
        if r.ncurve != 3 or r.nflag != 0:
            raise P.Untranslatable(f'{w} head: {r.ncurve} curve reads (expected 3)')
        emit(_mkfn('rpv01_first_idx', [_assign('pt_idx', r.one_index('payment_times')), _assign('yf_idx', r.one_index('year_fracs'))],
                   ['pt_idx', 'yf_idx']),
             FuncSpec(w + '[first coupon: array indices]', 'rpv01_first_idx', [], 'tuple:int,int',
                      doc='indices E of the reads `payment_times[E]` and `year_fracs[E]` before the loop'))
        emit(_mkfn('rpv01_init', hstm, ['full_rpv01', 'q1', 'z1']),
             FuncSpec(w + '[before the loop]', 'rpv01_init',
                      [('teff', NUM), ('accrual_factor_pcd_to_now', NUM), ('pt_first_in', NUM), ('yf_first_in', NUM)], 'tuple:num,num,num',
                      doc='first coupon; pt_first_in / yf_first_in = payment_times / year_fracs at rpv01_first_idx; returns the '
                          'loop-carried (full_rpv01, q1) and the read-only z1'))
        # ---- body
        r = _Reads(P, w + ' loop', {'payment_times': 'pt_in', 'year_fracs': 'yf_in'})
        bstm = [r.visit(copy.deepcopy(st)) for st in loop.body]
        if r.ncurve != 2 or r.nflag != 1:
            raise P.Untranslatable(f'{w} loop: {r.ncurve} curve reads / {r.nflag} uses of {FLAG} (expected 2 / 1)')
        emit(_mkfn('rpv01_step_idx', [_assign('pt_idx', r.one_index('payment_times')), _assign('yf_idx', r.one_index('year_fracs'))],
                   ['pt_idx', 'yf_idx']),
             FuncSpec(w + '[loop body: array indices]', 'rpv01_step_idx', [('it', INT)], 'tuple:int,int',
                      doc='indices E of the reads `payment_times[E]` and `year_fracs[E]` in iteration `it`'))
        emit(_mkfn('rpv01_step', copy.deepcopy(flag_stmt) + bstm, carried),
             FuncSpec(w + '[loop body]', 'rpv01_step',
                      [('use_flat', BOOL), ('z1', NUM), ('full_rpv01', NUM), ('q1', NUM), ('pt_in', NUM), ('yf_in', NUM)], 'tuple:num,num',
                      doc='one iteration, state (full_rpv01, q1); z1 is NOT updated by the source; pt_in / yf_in = payment_times / '
                          'year_fracs at rpv01_step_idx; use_flat = USE_FLAT_HAZARD_RATE_INTEGRAL'))
        # ---- tail
        if len(after) != 2 or not isinstance(after[1], ast.Return) or not (
                isinstance(after[1].value, ast.Call) and U(after[1].value.func) == 'np.array' and len(after[1].value.args) == 1
                and isinstance(after[1].value.args[0], ast.List)):
            raise P.Untranslatable(f'{w}: the function does not end in `x = …; return np.array([a, b])`')
        ret = ast.Return(value=ast.Tuple(elts=copy.deepcopy(after[1].value.args[0].elts), ctx=ast.Load()))
        emit(_mkfn('rpv01_tail', [after[0], ret]),
             FuncSpec(w + '[after the loop]', 'rpv01_tail', [('full_rpv01', NUM), ('accrual_factor_pcd_to_now', NUM)], 'tuple:num,num',
                      doc='(full, clean) — the elements of the returned array in order'))
        # =============================================================================== _prot_leg_pv_numba
        w = '_prot_leg_pv_numba'
        f = find_function(tree, w)
        if [a.arg for a in f.args.args] != ['teff', 't_mat', 'np_ibor_times', 'np_ibor_values', 'np_surv_times', 'np_surv_values',
                                            'contract_recovery_rate', 'num_steps_per_year', 'prot_method']:
            raise P.Untranslatable(f'{w}: parameter list changed')
        body = _strip(P, f.body, w, [METHOD_STMT, 'dt = 1.0 / num_steps_per_year'])
        bi = [i for i, st in enumerate(body) if isinstance(st, ast.If)]
        if len(bi) != 1 or U(body[bi[0]].test) != FLAG or any(isinstance(st, ast.For) for st in body):
            raise P.Untranslatable(f'{w}: expected one top-level `if {FLAG}:` holding the two loops')
        i = bi[0]
        head, br, after = body[:i], body[i], body[i + 1:]
        if len(br.body) != 1 or len(br.orelse) != 1 or not isinstance(br.body[0], ast.For) or not isinstance(br.orelse[0], ast.For):
            raise P.Untranslatable(f'{w}: each branch of `if {FLAG}:` must be exactly one loop')
        la, lb = br.body[0], br.orelse[0]
        _plain_loop(P, la, w)
        _plain_loop(P, lb, w)
        if U(la.target) != U(lb.target) or U(la.iter) != U(lb.iter):
            raise P.Untranslatable(f'{w}: the two loops have different headers: `{U(la.iter)}` / `{U(lb.iter)}`')
        emit(_mkfn('prot_range', _range_header(P, la, w, {}), ['lo', 'hi']),
             FuncSpec(w + '[loop header]', 'prot_range', [('num_steps', INT)], 'tuple:int,int',
                      doc='`for _ in range(lo, hi)` (the same header in both branches)'))
        # number of steps: `num_steps = int(<arg>)`
        ns = [st for st in head if isinstance(st, ast.Assign) and U(st.targets[0]) == 'num_steps']
        if len(ns) != 1 or not (isinstance(ns[0].value, ast.Call) and U(ns[0].value.func) == 'int' and len(ns[0].value.args) == 1):
            raise P.Untranslatable(f'{w}: expected exactly one `num_steps = int(…)`')
        emit(_mkfn('prot_num_steps_arg', [_assign('x', ns[0].value.args[0])], ['x']),
             FuncSpec(w + '[num_steps]', 'prot_num_steps_arg', [('teff', NUM), ('t_mat', NUM), ('num_steps_per_year', NUM)], NUM,
                      doc='`num_steps = int(x)` (truncation of this number)'))
        head = [st for st in head if st is not ns[0]]
        carried = [n for n in _assigned(la.body) if n in _assigned(head)]
        carried_b = [n for n in _assigned(lb.body) if n in _assigned(head)]
        if sorted(carried) != ['prot_pv', 'q1', 't', 'z1'] or sorted(carried_b) != sorted(carried):
            raise P.Untranslatable(f'{w}: loop-carried variables {carried} / {carried_b} (expected t, z1, q1, prot_pv)')
        state = ['t', 'q1', 'z1', 'prot_pv']
        r = _Reads(P, w + ' head', {})
        hstm = [r.visit(copy.deepcopy(st)) for st in head]
        if r.ncurve != 2 or r.nflag != 0:
            raise P.Untranslatable(f'{w} head: {r.ncurve} curve reads (expected 2)')
        emit(_mkfn('prot_init', hstm, ['dt', 'small'] + state),
             FuncSpec(w + '[before the loop]', 'prot_init', [('teff', NUM), ('t_mat', NUM), ('num_steps', NUM)],
                      'tuple:num,num,num,num,num,num',
                      doc='(dt, small) read-only, then the loop-carried (t, q1, z1, prot_pv); num_steps = float(int(prot_num_steps_arg))'))
        r = _Reads(P, w + ' loops', {})
        step = r.visit(ast.If(test=_name(FLAG), body=copy.deepcopy(la.body), orelse=copy.deepcopy(lb.body)))
        if r.ncurve != 4 or r.nflag != 1:
            raise P.Untranslatable(f'{w} loops: {r.ncurve} curve reads (expected 4)')
        emit(_mkfn('prot_step', [step], state),
             FuncSpec(w + '[loop bodies]', 'prot_step',
                      [('use_flat', BOOL), ('dt', NUM), ('small', NUM), ('t', NUM), ('q1', NUM), ('z1', NUM), ('prot_pv', NUM)],
                      'tuple:num,num,num,num',
                      doc='one iteration, state (t, q1, z1, prot_pv): `if use_flat: <body of the first loop> else: <body of the second>`'))
        if len(after) != 2 or not isinstance(after[1], ast.Return):
            raise P.Untranslatable(f'{w}: the function does not end in `prot_pv = …; return prot_pv`')
        emit(_mkfn('prot_tail', after),
             FuncSpec(w + '[after the loops]', 'prot_tail', [('prot_pv', NUM), ('contract_recovery_rate', NUM)], NUM))
        # =============================================================================== CDS object glue
        from registry.bonds import prepare
        RP = 'self.risky_pv01(value_dt, issuer_curve, pv01_method)'
        PL = 'self.prot_leg_pv(value_dt, issuer_curve, contract_recovery_rate, num_steps_per_year, prot_method)'
        OBJ = {'self.running_cpn': ('running_cpn', NUM), 'self.notional': ('notional', NUM), 'self.long_protect': ('long_protect', BOOL)}
        OBJP = [('running_cpn', NUM), ('notional', NUM), ('long_protect', BOOL)]
        w = 'CDS.value'
        fv = prepare(P, find_function(tree, w), 'cds_value',
                     drop=['rpv01 = ' + RP],
                     subst={"rpv01['dirty_rpv01']": 'dirty_rpv01_in', "rpv01['clean_rpv01']": 'clean_rpv01_in', PL: 'prot_pv_in'},
                     replace={"return {'dirty_pv': dirty_pv, 'clean_pv': clean_pv}": 'return (dirty_pv, clean_pv)'})
        emit(fv, FuncSpec(w, 'cds_value', [('dirty_rpv01_in', NUM), ('clean_rpv01_in', NUM), ('prot_pv_in', NUM)], 'tuple:num,num',
                          attr_map=OBJ, extra_params=OBJP,
                          doc="(dirty_pv, clean_pv); dirty_rpv01_in / clean_rpv01_in = self.risky_pv01(...)['dirty_rpv01' / 'clean_rpv01'], "
                              'prot_pv_in = self.prot_leg_pv(...) (notional included)'))
        w = 'CDS.par_spread'
        fv = prepare(P, find_function(tree, w), 'cds_par_spread', subst={RP + "['clean_rpv01']": 'clean_rpv01_in', PL: 'prot_pv_in'})
        emit(fv, FuncSpec(w, 'cds_par_spread', [('clean_rpv01_in', NUM), ('prot_pv_in', NUM)], NUM, attr_map=OBJ, extra_params=OBJP))
        w = 'CDS.premium_leg_pv'
        fv = prepare(P, find_function(tree, w), 'cds_premium_leg_pv', subst={RP + "['dirty_rpv01']": 'dirty_rpv01_in'})
        emit(fv, FuncSpec(w, 'cds_premium_leg_pv', [('dirty_rpv01_in', NUM)], NUM, attr_map=OBJ, extra_params=OBJP))
        w = 'CDS.accrued_interest'
        fv = prepare(P, find_function(tree, w), 'cds_accrued_interest',
                     drop=['day_count = DayCount(self.dc_type)', 'pcd = self.accrual_start_dts[0]'],
                     subst={'day_count.year_frac(pcd, self.step_in_dt)[0]': 'accrual_factor_in'})
        emit(fv, FuncSpec(w, 'cds_accrued_interest', [('accrual_factor_in', NUM)], NUM, attr_map=OBJ, extra_params=OBJP,
                          doc='accrual_factor_in = DayCount(dc_type).year_frac(accrual_start_dts[0], step_in_dt)[0]'))
        w = 'CDS.prot_leg_pv'
        fp = find_function(tree, w)
        calls = [st for st in fp.body if isinstance(st, ast.Assign) and isinstance(st.value, ast.Call)
                 and U(st.value.func) == '_prot_leg_pv_numba']
        if len(calls) != 1 or [U(a) for a in calls[0].value.args] != [
                'teff', 't_mat', 'libor_curve._times', 'libor_curve._dfs', 'issuer_curve._times', 'issuer_curve._values',
                'contract_recovery_rate', 'num_steps_per_year', 'prot_method'] or calls[0].value.keywords:
            raise P.Untranslatable(f'{w}: the kernel call / its argument order changed')
        fv = prepare(P, fp, 'cds_prot_leg_glue', drop=['libor_curve = issuer_curve.libor_curve'],
                     replace={U(calls[0]): 'v = kernel_in', 'return v * self.notional': 'return (teff, t_mat, v * self.notional)'})
        emit(fv, FuncSpec(w, 'cds_prot_leg_glue', [('value_dt', INT), ('kernel_in', NUM)], 'tuple:num,num,num',
                          attr_map=dict(OBJ, **{'self.step_in_dt': ('step_in_dt', INT), 'self.maturity_dt': ('maturity_dt', INT)}),
                          extra_params=OBJP + [('step_in_dt', INT), ('maturity_dt', INT)],
                          doc='(teff, t_mat, returned value); dates are serial day numbers; kernel_in = _prot_leg_pv_numba(teff, t_mat, '
                              'libor times, libor dfs, issuer times, issuer values, recovery, steps per year, prot_method) — argument '
                              'order pinned'))
        # CDS.risky_pv01: the payment-time filter loop
        w = 'CDS.risky_pv01'
        fr = find_function(tree, w)
        loops = [st for st in fr.body if isinstance(st, ast.For)]
        if len(loops) != 1 or U(loops[0].target) != 'date' or U(loops[0].iter) != 'self.payment_dts':
            raise P.Untranslatable(f'{w}: expected exactly one loop `for date in self.payment_dts`')
        _plain_loop(P, loops[0], w)
        lb_ = loops[0].body
        if len(lb_) != 2 or not isinstance(lb_[1], ast.If) or lb_[1].orelse or len(lb_[1].body) != 1 \
                or U(lb_[1].body[0]) != 'payment_times.append(t)':
            raise P.Untranslatable(f'{w}: the loop body is not `t = …; if …: payment_times.append(t)`')
        keep = ast.If(test=lb_[1].test, body=ast.parse('keep = True').body, orelse=ast.parse('keep = False').body)
        emit(_mkfn('cds_payment_time', [lb_[0], keep], ['keep', 't']),
             FuncSpec(w + '[payment_times loop body]', 'cds_payment_time', [('date', INT), ('value_dt', INT)], 'tuple:bool,num',
                      doc='one schedule date: (is it appended to payment_times, its time); dates are serial day numbers'))
        calls = [st for st in fr.body if isinstance(st, ast.Assign) and isinstance(st.value, ast.Call)
                 and U(st.value.func) == '_risky_pv01_numba']
        if len(calls) != 1 or [U(a) for a in calls[0].value.args] != [
                'teff', 'accrual_factor_pcd_to_now', 'np.array(payment_times)', 'np.array(year_fracs)', 'libor_curve._times',
                'libor_curve._dfs', 'issuer_curve._times', 'issuer_curve._values', 'pv01_method'] or calls[0].value.keywords:
            raise P.Untranslatable(f'{w}: the kernel call / its argument order changed')
        picks = [U(st) for st in fr.body if isinstance(st, ast.Assign) and 'value_rpv01[' in U(st.value)]
        if picks != ['full_rpv01 = value_rpv01[0]', 'clean_rpv01 = value_rpv01[1]'] or \
                U(fr.body[-1]) != "return {'dirty_rpv01': full_rpv01, 'clean_rpv01': clean_rpv01}":
            raise P.Untranslatable(f'{w}: the unpacking of the kernel result changed: {picks}')
        # =============================================================================== cds_curve.py
        ctree = S.parse(CURVE_PY)
        w = 'f'
        ff = find_function(ctree, w)
        fb = [U(st) for st in ff.body if not (isinstance(st, ast.Expr) and isinstance(st.value, ast.Constant))]
        want = ['curve = args[0]', 'value_dt = args[1]', 'cds = args[2]', 'recovery_rate = args[3]', 'num_points = len(curve._times)',
                None, "obj_fn = cds.value(value_dt, curve, recovery_rate)['clean_pv']", 'return obj_fn']
        if len(fb) != len(want) or any(x is not None and x != y for x, y in zip(want, fb)):
            raise P.Untranslatable(f'cds_curve.f: statements changed: {fb}')
        wr = [st for st in ff.body if isinstance(st, ast.Assign) and isinstance(st.targets[0], ast.Subscript)]
        if len(wr) != 1 or U(wr[0].targets[0].value) != 'curve._values' or U(wr[0].value) != 'q':
            raise P.Untranslatable('cds_curve.f: expected exactly one store `curve._values[E] = q`')
        emit(_mkfn('boot_f_write_idx', [_assign('idx', wr[0].targets[0].slice)], ['idx']),
             FuncSpec('cds_curve.f[store]', 'boot_f_write_idx', [('num_points', INT)], INT,
                      doc='`curve._values[idx] = q`, num_points = len(curve._times); the objective returned is the clean_pv entry of '
                          'cds.value(value_dt, curve, recovery_rate) (pinned)'))
        w = 'CDSCurve._build_curve'
        fb_ = find_function(ctree, w)
        body = _strip(P, fb_.body, w, ['self._validate(self.cds_contracts)', 'num_times = len(self.cds_contracts)'])
        if len(body) != 3 or not isinstance(body[2], ast.For) or U(body[2].target) != 'i':
            raise P.Untranslatable(f'{w}: expected `_times = …; _values = …; for i in …`')
        loop = body[2]
        _plain_loop(P, loop, w)
        emit(_mkfn('boot_range', _range_header(P, loop, w, {}), ['lo', 'hi']),
             FuncSpec(w + '[loop header]', 'boot_range', [('num_times', INT)], 'tuple:int,int',
                      doc='`for i in range(lo, hi)`, num_times = len(self.cds_contracts)'))
        ini = []
        for st, nm, v in zip(body[:2], ['self._times', 'self._values'], ['t0', 'q0']):
            ok = (isinstance(st, ast.Assign) and U(st.targets[0]) == nm and isinstance(st.value, ast.Call) and U(st.value.func) == 'np.array'
                  and len(st.value.args) == 1 and isinstance(st.value.args[0], ast.List) and len(st.value.args[0].elts) == 1)
            if not ok:
                raise P.Untranslatable(f'{w}: `{U(st)}` is not `{nm} = np.array([x])`')
            ini.append(_assign(v, st.value.args[0].elts[0]))
        emit(_mkfn('boot_init', ini, ['t0', 'q0']),
             FuncSpec(w + '[before the loop]', 'boot_init', [], 'tuple:num,num', doc='the single knot `_times = [t0]`, `_values = [q0]`'))
        lt = [U(st) for st in loop.body]
        want = ['maturity_dt = self.cds_contracts[i].maturity_dt',
                'argtuple = (self, self.value_dt, self.cds_contracts[i], self.recovery_rate)',
                None, None,
                'self._times = np.append(self._times, t_mat)', 'self._values = np.append(self._values, q)', None]
        if len(lt) != len(want) or any(x is not None and x != y for x, y in zip(want, lt)):
            raise P.Untranslatable(f'{w}: loop body statements changed: {lt}')
        st_t, st_q, st_s = loop.body[2], loop.body[3], loop.body[6]
        if not (isinstance(st_q, ast.Assign) and U(st_q.targets[0]) == 'q' and isinstance(st_q.value, ast.Subscript)
                and U(st_q.value.value) == 'self._values' and not isinstance(st_q.value.slice, ast.Slice)):
            raise P.Untranslatable(f'{w}: `{U(st_q)}` is not `q = self._values[E]`')
        emit(_mkfn('boot_q_idx', [_assign('idx', st_q.value.slice)], ['idx']),
             FuncSpec(w + '[start value]', 'boot_q_idx', [('i', INT)], INT, doc='`q = self._values[idx]` in iteration i'))
        if not (isinstance(st_t, ast.Assign) and U(st_t.targets[0]) == 't_mat'):
            raise P.Untranslatable(f'{w}: `{U(st_t)}` is not `t_mat = …`')
        emit(_mkfn('boot_tmat', [st_t], ['t_mat']),
             FuncSpec(w + '[knot time]', 'boot_tmat', [('maturity_dt', INT)], NUM, attr_map={'self.value_dt': ('value_dt', INT)},
                      extra_params=[('value_dt', INT)], doc='dates are serial day numbers'))
        ok = (isinstance(st_s, ast.Expr) and isinstance(st_s.value, ast.Call) and U(st_s.value.func) == 'optimize.newton'
              and [U(a) for a in st_s.value.args] == ['f'])
        kw = {k.arg: k.value for k in st_s.value.keywords} if ok else {}
        if not ok or sorted(kw) != ['args', 'fprime', 'fprime2', 'maxiter', 'tol', 'x0'] or U(kw['args']) != 'argtuple' \
                or U(kw['fprime']) != 'None' or U(kw['fprime2']) != 'None':
            raise P.Untranslatable(f'{w}: the solver call changed: {U(st_s)[:120]}')
        emit(_mkfn('boot_solver_args', [_assign('x0', kw['x0']), _assign('tol', kw['tol']), _assign('maxiter', kw['maxiter'])],
                   ['x0', 'tol', 'maxiter']),
             FuncSpec(w + '[solver call]', 'boot_solver_args', [('q', NUM)], 'tuple:num,num,int',
                      doc='optimize.newton(f, x0=…, fprime=None, args=(self, value_dt, cds_contracts[i], recovery_rate), tol=…, maxiter=…, '
                          'fprime2=None) — secant method; the result is discarded, the knot keeps the last point f was evaluated at'))
        ns_ = 'CdsLoopR'
        text = prelude(ns_, kind, variables='variable (Qf Zf : ℝ → ℝ)') + '\n'.join(out) + f'\nend FinVerif.Gen.{ns_}\n'
        return SOURCES, text
    return b


MODULES = {'CdsLoopR': build('real')}
