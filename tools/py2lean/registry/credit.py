"""Generated modules for C17: the loop-free scalar kernels of the portfolio-credit models.

  CreditF  Float, executable (driver `c17driver`, ops GATL / ELK): `gauss_approx_tranche_loss`
           (gauss_copula_onefactor.py, with the code's own Hull `N`) and `exp_min_lk` (gauss_copula_lhp.py).
  CreditP  ℝ, the SAME source text with the special functions abstracted to parameters
           `Ncdf Ninv : ℝ → ℝ` (every call of `N` / `norminvcdf`) and `Mbiv : ℝ → ℝ → ℝ → ℝ` (the bivariate normal `M`,
           which has loops and is not translated) — Props/C17f proves the degenerate branch of the Gaussian fit and the
           boundary branches of the LHP form for ARBITRARY such functions.

In CreditF the bivariate normal is a parameter as well (`Mbiv : Float → Float → Float → Float`); the harness passes the value
the implementation's own `M` returns at the arguments the kernel forms, so every branch of `exp_min_lk` is compared.
"""
MATH_PY = 'financepy/utils/math.py'
GC1F_PY = 'financepy/models/gauss_copula_onefactor.py'
LHP_PY = 'financepy/models/gauss_copula_lhp.py'

SOURCES = [GC1F_PY, LHP_PY, MATH_PY]


def kernels(tr, S, out):
    from py2lean import FuncSpec, NUM, find_function
    tree = S.parse(GC1F_PY)
    sp = FuncSpec('gauss_approx_tranche_loss', 'gauss_approx_tranche_loss',
                  [('k1', NUM), ('k2', NUM), ('mu', NUM), ('sigma', NUM)], NUM)
    out.append(tr.function(find_function(tree, 'gauss_approx_tranche_loss'), sp))
    tree = S.parse(LHP_PY)
    sp = FuncSpec('exp_min_lk', 'exp_min_lk', [('k', NUM), ('p', NUM), ('r', NUM), ('n', NUM), ('beta', NUM)], NUM)
    out.append(tr.function(find_function(tree, 'exp_min_lk'), sp))


def build(kind):
    def b(P, S):
        from py2lean import FuncSpec, Translator, Dialect, NUM
        from registry.bs import prelude, math_kernels
        consts = dict(S.module_consts(MATH_PY))
        tr = Translator(Dialect(kind), consts)
        out = []
        if kind == 'float':
            math_kernels(tr, S, out)                       # the code's own N (Hull polynomial)
            tr.funcs['norminvcdf'] = FuncSpec('norminvcdf', 'Ninv', [('p', NUM)], NUM)
            variables = 'variable (Ninv : Float → Float) (Mbiv : Float → Float → Float → Float)'
            ns = 'CreditF'
        else:
            tr.funcs['N'] = FuncSpec('N', 'Ncdf', [('x', NUM)], NUM)
            tr.funcs['norminvcdf'] = FuncSpec('norminvcdf', 'Ninv', [('p', NUM)], NUM)
            variables = 'variable (Ncdf Ninv : ℝ → ℝ) (Mbiv : ℝ → ℝ → ℝ → ℝ)'
            ns = 'CreditP'
        tr.funcs['M'] = FuncSpec('M', 'Mbiv', [('a', NUM), ('b', NUM), ('c', NUM)], NUM)
        kernels(tr, S, out)
        body = prelude(ns, kind, variables=variables) + '\n'.join(out) + f'\nend FinVerif.Gen.{ns}\n'
        return SOURCES, body
    return b


MODULES = {'CreditF': build('float'), 'CreditP': build('real')}
