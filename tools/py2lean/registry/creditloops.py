"""CreditLoopR — the LOOPS of the portfolio loss-distribution builders (property C17), cut out of the source `for`
statements on every run (ℝ / Int, for Props/C17g).

The translator takes no loops and no arrays; what it takes is every straight-line piece OF a loop:

  <loop>_range   the loop header `range(a, b)` -> `(a, b)`  (any other header raises Untranslatable, except the
                 element loop `for lu in loss_units`, which is checked by its exact text)
  <loop>_init    the assignment(s) initialising the loop-carried scalars (`num_loss_units = 1`, `tranche_el = 0.0`, …)
  <loop>_step    the loop BODY as one function: loop-carried scalars, loop variable and ARRAY READS in, new scalars and
                 the values WRITTEN to arrays out.  Every array read `a[E]` becomes the parameter `a_r<k>` (k-th read in
                 source order), a store `a[E] = v` becomes the output `a_w = v`, `a[E] += v` becomes
                 `a_w = a_cur + v` with the parameter `a_cur` (the cell read at the write index)
  <loop>_idx     the INDEX EXPRESSIONS `E` of those reads and writes, in the same order (reads first, then writes), as a
                 tuple of Int — so an edited offset (`i_loss_unit - loss`) changes generated text, not only a pin
  <loop>_tail    statements after the loop

Which array each read / write touches is checked against the expected list below (a different array, one more or one
fewer access => Untranslatable => broken obligation).  Only `int(<float>)` truncations become parameters, each pinned by
its exact source text; calls of `N` / `norminvcdf` are the abstract functions `Ncdf` / `Ninv` (as in CreditP).
"""
import ast
import copy

from registry.bs import prelude

MATH_PY = 'financepy/utils/math.py'
GC1F_PY = 'financepy/models/gauss_copula_onefactor.py'
LDB_PY = 'financepy/models/loss_dbn_builder.py'

SOURCES = [LDB_PY, GC1F_PY, MATH_PY]


def U(n):
    return ast.unparse(n)


def _fn(name, stmts, rets):
    elts = [r if isinstance(r, ast.AST) else ast.Name(id=r, ctx=ast.Load()) for r in rets]
    ret = ast.Return(value=ast.Tuple(elts=elts, ctx=ast.Load()) if len(elts) > 1 else elts[0])
    f = ast.FunctionDef(name=name, args=ast.arguments(posonlyargs=[], args=[], kwonlyargs=[], kw_defaults=[], defaults=[]),
                        body=list(copy.deepcopy(stmts)) + [ret], decorator_list=[], type_params=[])
    ast.fix_missing_locations(f)
    return f


class _Arrays(ast.NodeTransformer):
    """array reads -> parameters, array stores -> outputs; records the index expressions."""

    def __init__(self, P, what, pins):
        self.P, self.what = P, what
        self.pins = dict(pins)                  # exact expression text -> parameter name
        self.pin_hits = {k: 0 for k in pins}
        self.reads = []                         # [(param, array, index ast)]
        self.writes = []                        # [(array, index ast)]
        self.nread = {}

    def bad(self, msg):
        raise self.P.Untranslatable(f'{self.what}: {msg}')

    def _plain_index(self, node):
        if not isinstance(node.value, ast.Name) or isinstance(node.slice, (ast.Slice, ast.Tuple)):
            self.bad(f'unsupported subscript `{U(node)}`')
        return node.value.id

    def visit_Subscript(self, node):
        t = U(node)
        if t in self.pins:
            self.pin_hits[t] += 1
            return ast.copy_location(ast.Name(id=self.pins[t], ctx=ast.Load()), node)
        if not isinstance(node.ctx, ast.Load):
            self.bad(f'store through `{U(node)}` outside an assignment target')
        arr = self._plain_index(node)
        k = self.nread.get(arr, 0)
        self.nread[arr] = k + 1
        p = f'{arr}_r{k}'
        self.reads.append((p, arr, copy.deepcopy(node.slice)))
        return ast.copy_location(ast.Name(id=p, ctx=ast.Load()), node)

    def visit_Call(self, node):
        t = U(node)
        if t in self.pins:
            self.pin_hits[t] += 1
            return ast.copy_location(ast.Name(id=self.pins[t], ctx=ast.Load()), node)
        return self.generic_visit(node)

    def _store(self, node, tgt, value):
        arr = self._plain_index(tgt)
        if any(a == arr for a, _ in self.writes):
            self.bad(f'array `{arr}` is stored twice in one iteration')
        self.writes.append((arr, copy.deepcopy(tgt.slice)))
        return ast.copy_location(ast.Assign(targets=[ast.Name(id=f'{arr}_w', ctx=ast.Store())], value=value), node)

    def visit_Assign(self, node):
        if len(node.targets) == 1 and isinstance(node.targets[0], ast.Subscript):
            return self._store(node, node.targets[0], self.visit(node.value))
        node.value = self.visit(node.value)
        return node

    def visit_AugAssign(self, node):
        if isinstance(node.target, ast.Subscript):
            arr = self._plain_index(node.target)
            val = ast.BinOp(left=ast.Name(id=f'{arr}_cur', ctx=ast.Load()), op=node.op, right=self.visit(node.value))
            return self._store(node, node.target, val)
        node.value = self.visit(node.value)
        return node

    def generic_visit(self, node):
        if isinstance(node, (ast.For, ast.While, ast.Break, ast.Continue, ast.Return, ast.Raise)):
            self.bad(f'loop body contains {type(node).__name__}')
        return super().generic_visit(node)


def cut_body(P, stmts, what, pins=(), reads=(), writes=()):
    """-> (statements without arrays, read parameter names, index expressions reads+writes).  `reads`: expected arrays
    of the reads in source order, `writes`: expected arrays stored."""
    c = _Arrays(P, what, dict(pins))
    out = []
    for st in copy.deepcopy(list(stmts)):
        r = c.visit(st)
        out.extend(r if isinstance(r, list) else [r])
    if [a for _, a, _ in c.reads] != list(reads):
        raise P.Untranslatable(f'{what}: array reads {[a for _, a, _ in c.reads]} (expected {list(reads)})')
    if [a for a, _ in c.writes] != list(writes):
        raise P.Untranslatable(f'{what}: array stores {[a for a, _ in c.writes]} (expected {list(writes)})')
    bad = [f'`{k}` x{v}' for k, v in c.pin_hits.items() if v != 1]
    if bad:
        raise P.Untranslatable(f'{what}: pinned text changed: ' + ' | '.join(bad))
    return out, [p for p, _, _ in c.reads], [i for _, _, i in c.reads] + [i for _, i in c.writes]


def range_of(P, loop, what, pins=()):
    it = loop.iter
    if not (isinstance(it, ast.Call) and U(it.func) == 'range' and len(it.args) == 2 and not it.keywords):
        raise P.Untranslatable(f'{what}: loop header `{U(it)}` is not range(a, b)')
    if loop.orelse:
        raise P.Untranslatable(f'{what}: loop has an else clause')
    if not isinstance(loop.target, ast.Name):
        raise P.Untranslatable(f'{what}: loop target `{U(loop.target)}`')
    c = _Arrays(P, what + ' header', dict(pins))
    lo, hi = c.visit(copy.deepcopy(it.args[0])), c.visit(copy.deepcopy(it.args[1]))
    if c.reads or any(v != 1 for v in c.pin_hits.values()):
        raise P.Untranslatable(f'{what}: loop header `{U(it)}`: unexpected array read / pinned text missing')
    return [lo, hi]


def loops_of(P, stmts, what, target, n):
    hit = [(i, st) for i, st in enumerate(stmts) if isinstance(st, ast.For) and U(st.target) == target]
    if len(hit) != n:
        raise P.Untranslatable(f'{what}: {len(hit)} loops `for {target} in …` at this level (expected {n})')
    return hit


def last_assign(P, stmts, name, what):
    hits = [st for st in stmts if isinstance(st, ast.Assign) and len(st.targets) == 1 and U(st.targets[0]) == name]
    if not hits:
        raise P.Untranslatable(f'{what}: no assignment of `{name}` before the loop')
    return hits[-1]


def need(P, stmts, text, what, n=1):
    k = sum(1 for st in stmts if U(st) == text)
    if k != n:
        raise P.Untranslatable(f'{what}: statement `{text}` occurs {k} times at this level (expected {n})')


def build(P, S):
    from py2lean import FuncSpec, Translator, Dialect, NUM, INT, find_function
    consts = dict(S.module_consts(MATH_PY))
    consts.update(S.module_consts(GC1F_PY))
    tr = Translator(Dialect('real'), consts)
    tr.funcs['N'] = FuncSpec('N', 'Ncdf', [('x', NUM)], NUM)
    tr.funcs['norminvcdf'] = FuncSpec('norminvcdf', 'Ninv', [('p', NUM)], NUM)
    out = []

    def emit(name, stmts, rets, params, ret, src, doc=''):
        out.append(tr.function(_fn(name, stmts, rets), FuncSpec(src, name, params, ret, doc=doc)))

    def tup(kind, n):
        return kind if n == 1 else 'tuple:' + ','.join([kind] * n)

    def array_loop(prefix, loop, what, scalars_in, rets, ret, reads, writes, idx_params, pins=(), cur=(), range_params=(),
                   range_pins=(), doc=''):
        """emit <prefix>_range, <prefix>_step, <prefix>_idx for one innermost loop"""
        emit(prefix + '_range', [], range_of(P, loop, what, range_pins), list(range_params), 'tuple:int,int', what + '[loop header]',
             doc=f'`for {U(loop.target)} in range(lo, hi)`')
        body, rnames, idx = cut_body(P, loop.body, what + ' loop', pins=pins, reads=reads, writes=writes)
        params = list(scalars_in) + [(c, NUM) for c in cur] + [(r, NUM) for r in rnames]
        emit(prefix + '_step', body, rets, params, ret, what + '[loop body]', doc=doc)
        if idx:
            emit(prefix + '_idx', [], idx, list(idx_params), tup('int', len(idx)), what + '[loop body: array indices]',
                 doc='index expressions: reads ' + ', '.join(f'{a}[·]' for a in reads) + ' then stores ' +
                     ', '.join(f'{a}[·]' for a in writes))

    # ======================================================================= indep_loss_dbn_recursion_gcd
    w = 'indep_loss_dbn_recursion_gcd'
    f = find_function(S.parse(LDB_PY), w)
    top = f.body
    (i_size, size_loop), = loops_of(P, top, w, 'i', 1)
    (i_cred, cred_loop), = loops_of(P, top, w, 'i_credit', 1)
    if not (i_size < i_cred and i_cred == len(top) - 2 and U(top[-1]) == 'return next_dbn'):
        raise P.Untranslatable(f'{w}: expected size loop, credit loop, `return next_dbn`')
    emit('rec_size_init', [last_assign(P, top[:i_size], 'num_loss_units', w)], ['num_loss_units'], [], INT, w + '[size loop init]')
    array_loop('rec_size', size_loop, w + ' size', [('num_loss_units', INT), ('int_unit_in', INT)], ['num_loss_units'], INT,
               reads=[], writes=[], idx_params=[], pins={'int(loss_units[i])': 'int_unit_in'},
               range_params=[('n_units', INT)], range_pins={'len(loss_units)': 'n_units'},
               doc='int_unit_in = int(loss_units[i]); n_units = len(loss_units)')
    between = top[i_size + 1:i_cred]
    for t in ('prev_dbn = np.zeros(num_loss_units)', 'next_dbn = np.zeros(num_loss_units)'):
        need(P, between, t, w)
    unit = [st for st in between if isinstance(st, ast.Assign) and isinstance(st.targets[0], ast.Subscript)]
    if len(between) != 4 or len(unit) != 1:
        raise P.Untranslatable(f'{w}: expected two allocations, one store into prev_dbn and `small = …` between the size loop '
                               f'and the credit loop, got {[U(s) for s in between]}')
    body, _, idx = cut_body(P, unit, w + ' unit', writes=['prev_dbn'])
    emit('rec_unit_init', body, idx + ['prev_dbn_w'], [], 'tuple:int,num', w + '[initial distribution]',
         doc='`prev_dbn[idx] = value` on the zero array: all mass on zero loss')
    emit('rec_small', [last_assign(P, between, 'small', w)], ['small'], [], NUM, w + '[small]')
    emit('rec_credit_range', [], range_of(P, cred_loop, w + ' credit'), [('num_credits', INT)], 'tuple:int,int',
         w + '[credit loop header]')
    cb = cred_loop.body
    if len(cb) != 5 or not all(isinstance(s, ast.For) and U(s.target) == 'i_loss_unit' for s in cb[2:]):
        raise P.Untranslatable(f'{w}: credit loop body is not `p = …; loss = …;` + three loops over i_loss_unit')
    need(P, cb[:2], 'p = cond_default_probs[i_credit]', w)
    sh = cb[1]
    if not (isinstance(sh, ast.Assign) and U(sh.targets[0]) == 'loss' and isinstance(sh.value, ast.Call)
            and U(sh.value.func) == 'int' and len(sh.value.args) == 1):
        raise P.Untranslatable(f'{w}: expected `loss = int(<expr>)`, got `{U(sh)}`')
    arg, rn, idx = cut_body(P, [ast.Assign(targets=[ast.Name(id='shift_arg', ctx=ast.Store())], value=sh.value.args[0])],
                            w + ' shift', reads=['loss_units'])
    emit('rec_shift_arg', arg, ['shift_arg'], [('small', NUM)] + [(r, NUM) for r in rn], NUM, w + '[shift]',
         doc='`loss = int(rec_shift_arg small loss_units[i_credit])`')
    _, _, pidx = cut_body(P, cb[:1], w + ' p', reads=['cond_default_probs'])
    emit('rec_credit_idx', [], pidx + idx, [('i_credit', INT)], 'tuple:int,int', w + '[credit loop: array indices]',
         doc='indices of `cond_default_probs[·]` and `loss_units[·]` read for one credit')
    array_loop('rec_lower', cb[2], w + ' lower', [('p', NUM)], ['next_dbn_w'], NUM, reads=['prev_dbn'], writes=['next_dbn'],
               idx_params=[('i_loss_unit', INT)], range_params=[('loss', INT)],
               doc='buckets below the shift: no default reaches them')
    array_loop('rec_upper', cb[3], w + ' upper', [('p', NUM)], ['next_dbn_w'], NUM, reads=['prev_dbn', 'prev_dbn'],
               writes=['next_dbn'], idx_params=[('i_loss_unit', INT), ('loss', INT)],
               range_params=[('loss', INT), ('num_loss_units', INT)], doc='buckets from the shift on: shift-and-mix')
    array_loop('rec_copy', cb[4], w + ' copy', [], ['prev_dbn_w'], NUM, reads=['next_dbn'], writes=['prev_dbn'],
               idx_params=[('i_loss_unit', INT)], range_params=[('num_loss_units', INT)])

    # ======================================================================= loss_dbn_recursion_gcd
    w = 'loss_dbn_recursion_gcd'
    gtree = S.parse(GC1F_PY)
    f = find_function(gtree, w)
    top = f.body
    hit = [(i, st) for i, st in enumerate(top) if isinstance(st, ast.For)]
    if [U(st.target) for _, st in hit] != ['lu', 'i_credit', '_', 'i_unit'] or U(top[-1]) != 'return uncond_loss_dbn' \
            or hit[-1][0] != len(top) - 2:
        raise P.Untranslatable(f'{w}: top-level loops {[U(st.target) for _, st in hit]} / return changed')
    (i_sz, sz), (i_thr, thr), (i_q, quad), (i_sc, scale) = hit
    if U(sz.iter) != 'loss_units' or sz.orelse:
        raise P.Untranslatable(f'{w}: size loop header `{U(sz.iter)}` is not the element loop over loss_units')
    emit('gc_size_init', [last_assign(P, top[:i_sz], 'num_loss_units', w)], ['num_loss_units'], [], INT, w + '[size loop init]')
    body, _, _ = cut_body(P, sz.body, w + ' size', pins={'int(lu)': 'int_lu_in'})
    emit('gc_size_step', body, ['num_loss_units'], [('num_loss_units', INT), ('int_lu_in', INT)], INT, w + '[size loop body]',
         doc='`for lu in loss_units`; int_lu_in = int(lu)')
    mid = top[i_sz + 1:i_thr]
    for t in ('uncond_loss_dbn = np.zeros(num_loss_units)', 'cond_default_probs = np.zeros(num_credits)',
              'thresholds = np.zeros(num_credits)'):
        need(P, mid, t, w)
    if len(mid) != 5:
        raise P.Untranslatable(f'{w}: {len(mid)} statements between the size loop and the threshold loop (expected 5)')
    emit('gc_z_init', [last_assign(P, mid, 'z', w), last_assign(P, mid, 'dz', w)], ['z', 'dz'], [('num_integration_steps', INT)],
         'tuple:num,num', w + '[first node and spacing]')
    array_loop('gc_thr', thr, w + ' thresholds', [], ['thresholds_w'], NUM, reads=['default_probs'], writes=['thresholds'],
               idx_params=[('i_credit', INT)], range_params=[('num_credits', INT)])
    if top[i_thr + 1:i_q]:
        raise P.Untranslatable(f'{w}: statements between the threshold loop and the quadrature loop')
    emit('gc_quad_range', [], range_of(P, quad, w + ' quadrature'), [('num_integration_steps', INT)], 'tuple:int,int',
         w + '[quadrature loop header]')
    qb = quad.body
    shape = [type(s).__name__ for s in qb]
    if shape != ['For', 'Assign', 'Assign', 'For', 'AugAssign']:
        raise P.Untranslatable(f'{w}: quadrature loop body shape {shape}')
    need(P, qb, 'indep_dbn = indep_loss_dbn_recursion_gcd(num_credits, cond_default_probs, loss_units)', w)
    array_loop('gc_cond', qb[0], w + ' conditional probabilities', [('z', NUM)], ['cond_default_probs_w'], NUM,
               reads=['beta_vector', 'thresholds'], writes=['cond_default_probs'], idx_params=[('i_credit', INT)],
               range_params=[('num_credits', INT)], doc='beta_vector_r0 = beta_vector[i], thresholds_r0 = thresholds[i]')
    if U(qb[2].targets[0]) != 'gauss_wt':
        raise P.Untranslatable(f'{w}: expected `gauss_wt = …`, got `{U(qb[2])}`')
    emit('gc_weight', [qb[2]], ['gauss_wt'], [('z', NUM)], NUM, w + '[node weight]')
    array_loop('gc_acc', qb[3], w + ' accumulate', [('gauss_wt', NUM)], ['uncond_loss_dbn_w'], NUM, reads=['indep_dbn'],
               writes=['uncond_loss_dbn'], cur=['uncond_loss_dbn_cur'], idx_params=[('i_unit', INT)],
               range_params=[('num_loss_units', INT)])
    if U(qb[4].target) != 'z':
        raise P.Untranslatable(f'{w}: expected `z += dz`, got `{U(qb[4])}`')
    emit('gc_z_next', [qb[4]], ['z'], [('z', NUM), ('dz', NUM)], NUM, w + '[next node]')
    array_loop('gc_scale', scale, w + ' scale', [('dz', NUM)], ['uncond_loss_dbn_w'], NUM, reads=[], writes=['uncond_loss_dbn'],
               cur=['uncond_loss_dbn_cur'], idx_params=[('i_unit', INT)], range_params=[('num_loss_units', INT)])

    # ======================================================================= tranche expected-loss loops
    for prefix, w, gname, range_params, range_pins in (
            ('trr', 'tranche_surv_prob_recursion', 'gcd', [('m_in', INT)], {'int(num_loss_units)': 'm_in'}),
            ('tra', 'tranche_surv_prob_adj_binomial', 'avg_loss', [('num_loss_units', INT)], {})):
        f = find_function(gtree, w)
        top = f.body
        (i_el, el), = loops_of(P, top, w, 'i_loss_unit', 1)
        if i_el != len(top) - 3 or U(top[-1]) != 'return q':
            raise P.Untranslatable(f'{w}: expected the tranche loop, `q = …`, `return q` at the end')
        emit(prefix + '_el_init', [last_assign(P, top[:i_el], 'tranche_el', w)], ['tranche_el'], [], NUM, w + '[tranche loop init]')
        array_loop(prefix + '_el', el, w + ' tranche', [('k1', NUM), ('k2', NUM), (gname, NUM), ('tranche_el', NUM), ('i_loss_unit', INT)],
                   ['tranche_el'], NUM, reads=['loss_dbn'], writes=[], idx_params=[('i_loss_unit', INT)],
                   range_params=range_params, range_pins=range_pins,
                   doc='m_in = int(num_loss_units)' if range_pins else '')
        emit(prefix + '_tail', [top[-2]], ['q'], [('k1', NUM), ('k2', NUM), ('tranche_el', NUM)], NUM, w + '[after the loop]')
        # the mean-beta rule that doubles the number of quadrature steps (recursion only)
        if prefix == 'trr':
            (i_m, ml), = loops_of(P, top, w, 'i', 1)
            emit('trr_m_init', [last_assign(P, top[:i_m], 'm', w)], ['m'], [], NUM, w + '[mean beta init]')
            array_loop('trr_m', ml, w + ' mean beta', [('m', NUM)], ['m'], NUM, reads=['beta_vector'], writes=[],
                       idx_params=[('i', INT)], range_params=[('n_beta', INT)], range_pins={'len(beta_vector)': 'n_beta'})
            after = top[i_m + 1:i_m + 3]
            if U(after[0]) != 'm /= len(beta_vector)' or not isinstance(after[1], ast.If) or after[1].orelse:
                raise P.Untranslatable(f'{w}: expected `m /= len(beta_vector)` and one `if` after the mean-beta loop')
            st, _, _ = cut_body(P, after, w + ' steps', pins={'len(beta_vector)': 'n_beta'})
            emit('trr_steps', st, ['num_integration_steps'], [('m', NUM), ('n_beta', INT), ('num_integration_steps', INT)], INT,
                 w + '[number of quadrature steps]')
        else:
            emit('tra_el_size', [last_assign(P, top[:i_el], 'num_loss_units', w)], ['num_loss_units'], [('num_credits', INT)], INT,
                 w + '[tranche loop size]')

    variables = 'variable (Ncdf Ninv : ℝ → ℝ)'
    body = prelude('CreditLoopR', 'real', variables=variables) + '\n'.join(out) + '\nend FinVerif.Gen.CreditLoopR\n'
    return SOURCES, body


MODULES = {'CreditLoopR': build}
