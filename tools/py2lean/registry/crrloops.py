"""CrrLoopR — the LOOPS of `financepy/models/equity_crr_tree.py:crr_tree_val`, cut out of the source `for` statements
(ℝ / Int, for Props/C12e), and FdLoopR — the time loop of `finite_difference.py:black_scholes_fd`.

The translator takes no loops and no arrays; what it takes is every straight-line piece OF a loop:

  crr_steps                      the step-count rule (from the LAST plain `num_steps = …` up to `dt = …`)
  crr_dt, crr_ud, crr_num_nodes  `dt`, `(u, d)`, the argument of `int(·)` in `num_nodes = int(…)`
  crr_prob_range / crr_prob_step header and body of the probability / discount-factor initialisation loop
  crr_lat_init                   `stock_values[0] = …` and `s_low = …`
  crr_lat_range, crr_lat_outer_step, crr_lat_inner_range, crr_lat_store_idx, crr_lat_inner_step
                                 the nested lattice loop: headers, `s_low *= d; s = s_low`, the flat index the node is
                                 stored at (argument of `int(·)`), the stored value and the update `s = s * (u * u)`
  crr_term_base, crr_term_range, crr_term_idx, crr_term_node
                                 the expiry loop: flat base index, header, subscript used for the read of the stock value
                                 AND every store, the stored value per option type
  crr_back_range (3-argument range), crr_back_base, crr_back_inner_range, crr_back_next_base, crr_back_idx,
  crr_back_node                  the backward induction: headers, flat base of the layer and of the next layer, the
                                 subscripts (store, read of v_dn, read of v_up), and the node formula (exercise value,
                                 probability weights, discounting, early-exercise max per option type)
  crr_price_idx                  the subscript of `price = option_values[·]`

Array READS become scalar parameters, each pinned by its exact source text and count; array STORES `arr[E] = v` become
`<out> = v` and the subscript text E must be the stated one (it is generated separately as an index function); `int(E)`
is replaced by `E` only at the stated places (the theorems show E is an integer there).  Anything else raises
Untranslatable.
"""
from __future__ import annotations

import ast
import copy

from registry.bs import prelude

CRR_PY = 'financepy/models/equity_crr_tree.py'
FD_PY = 'financepy/models/finite_difference.py'
TYPES_PY = 'financepy/utils/global_types.py'
SOURCES = [CRR_PY, TYPES_PY]
FD_SOURCES = [FD_PY, TYPES_PY]


def U(n):
    return ast.unparse(n)


def _name(i, store=False):
    return ast.Name(id=i, ctx=ast.Store() if store else ast.Load())


def _assign(name, value):
    return ast.Assign(targets=[_name(name, True)], value=value)


def _fn(name, stmts, ret_names):
    elts = [_name(n) for n in ret_names]
    ret = ast.Return(value=ast.Tuple(elts=elts, ctx=ast.Load()) if len(elts) > 1 else elts[0])
    f = ast.FunctionDef(name=name, args=ast.arguments(posonlyargs=[], args=[], kwonlyargs=[], kw_defaults=[], defaults=[]),
                        body=list(stmts) + [ret], decorator_list=[], type_params=[])
    ast.fix_missing_locations(f)
    return f


class _Arr(ast.NodeTransformer):
    """reads: exact subscript text -> scalar name; stores: `arr[E] = …` -> `<out> = …` with E's text checked;
    `int(E)` -> `E`."""

    def __init__(self, P, what, reads, stores, strip_int):
        self.P, self.what = P, what
        self.reads = dict(reads)
        self.stores = dict(stores)          # array name -> (out name, expected subscript text)
        self.strip_int = strip_int
        self.nreads = {k: 0 for k in self.reads}
        self.nstores = {k: 0 for k in self.stores}
        self.nint = 0

    def visit_Call(self, node):
        if self.strip_int and isinstance(node.func, ast.Name) and node.func.id == 'int' and len(node.args) == 1 and not node.keywords:
            self.nint += 1
            return self.visit(node.args[0])
        return self.generic_visit(node)

    def visit_Subscript(self, node):
        if isinstance(node.ctx, ast.Store):
            arr = U(node.value)
            if arr not in self.stores:
                raise self.P.Untranslatable(f'{self.what}: store to unexpected array `{U(node)}`')
            out, want = self.stores[arr]
            sub = node.slice
            if self.strip_int and isinstance(sub, ast.Call) and U(sub.func) == 'int' and len(sub.args) == 1:
                sub = sub.args[0]
                self.nint += 1
            if U(sub) != want:
                raise self.P.Untranslatable(f'{self.what}: store `{U(node)}`: subscript is not `{want}`')
            self.nstores[arr] += 1
            return ast.copy_location(_name(out, True), node)
        t = U(node)
        if t in self.reads:
            self.nreads[t] += 1
            return ast.copy_location(_name(self.reads[t]), node)
        raise self.P.Untranslatable(f'{self.what}: unexpected array read `{t}`')


def _arr(P, stmts, what, reads=None, stores=None, counts=None, strip_int=0):
    a = _Arr(P, what, reads or {}, stores or {}, strip_int > 0)
    out = [a.visit(copy.deepcopy(s)) for s in stmts]
    counts = counts or {}
    bad = [f'`{k}` x{v} (expected {counts.get(k, 1)})' for k, v in list(a.nreads.items()) + list(a.nstores.items())
           if v != counts.get(k, 1)]
    if a.nint != strip_int:
        bad.append(f'int(·) x{a.nint} (expected {strip_int})')
    if bad:
        raise P.Untranslatable(f'{what}: array glue changed: ' + ' | '.join(bad))
    for s in out:
        ast.fix_missing_locations(s)
    return out


def _range_stmts(P, it, what, nargs):
    """`range(a, b)` -> `lo = a; hi = b`;  `range(a, b, c)` -> `start = a; stop = b; step = c`;  `range(b)` -> lo = 0"""
    if not (isinstance(it, ast.Call) and U(it.func) == 'range' and not it.keywords):
        raise P.Untranslatable(f'{what}: loop header `{U(it)}` is not a range')
    args = list(it.args)
    if nargs == 2 and len(args) == 1:
        args = [ast.Constant(0)] + args
    if len(args) != nargs:
        raise P.Untranslatable(f'{what}: loop header `{U(it)}` does not have {nargs} arguments')
    names = ['lo', 'hi'] if nargs == 2 else ['start', 'stop', 'step']
    return [_assign(n, a) for n, a in zip(names, args)], names


def _plain(P, loop, what, inner=0):
    """no break/continue/return/else; exactly `inner` directly nested for-loops (as the LAST statement), no deeper ones"""
    if loop.orelse:
        raise P.Untranslatable(f'{what}: loop has an else clause')
    nested = [s for s in loop.body if isinstance(s, ast.For)]
    if len(nested) != inner or (inner and loop.body[-1] is not nested[0]):
        raise P.Untranslatable(f'{what}: expected {inner} nested loop(s) at the end of the body, found {len(nested)}')
    for x in ast.walk(loop):
        if isinstance(x, (ast.Break, ast.Continue, ast.Return, ast.While)):
            raise P.Untranslatable(f'{what}: loop contains {type(x).__name__}')
        if isinstance(x, ast.For) and x is not loop and x not in nested:
            raise P.Untranslatable(f'{what}: loop nest deeper than expected')
    return nested[0] if inner else None


def _one(P, stmts, pred, what, desc):
    hits = [(i, s) for i, s in enumerate(stmts) if pred(s)]
    if len(hits) != 1:
        raise P.Untranslatable(f'{what}: expected exactly one {desc}, found {len(hits)}')
    return hits[0]


def _is_assign_to(name):
    return lambda s: isinstance(s, ast.Assign) and len(s.targets) == 1 and U(s.targets[0]) == name


def build_crr(kind):
    def build(P, S):
        from py2lean import FuncSpec, Translator, Dialect, NUM, INT, find_function
        Un = P.Untranslatable
        consts = dict(S.module_consts(TYPES_PY))
        tr = Translator(Dialect(kind), consts)
        out = []

        def emit(name, stmts, rets, params, ret, doc=''):
            out.append(tr.function(_fn(name, stmts, rets), FuncSpec(f'crr_tree_val[{name}]', name, params, ret, doc=doc)))

        w = 'crr_tree_val'
        f = find_function(S.parse(CRR_PY), w)
        body = [s for s in f.body if not (isinstance(s, ast.Expr) and isinstance(s.value, ast.Constant))]
        tops = [(i, s) for i, s in enumerate(body) if isinstance(s, ast.For)]
        if [U(s.target) for _, s in tops] != ['i_time', 'i_time', 'i_node', 'i_time']:
            raise Un(f'{w}: top-level loops are {[U(s.target) for _, s in tops]}, expected i_time, i_time, i_node, i_time')
        (i_prob, l_prob), (i_lat, l_lat), (i_term, l_term), (i_back, l_back) = tops
        pre = body[:i_prob]
        # ----------------------------------------------------------------------------- step count, dt, u, d, node count
        plain_ns = [i for i, s in enumerate(pre) if _is_assign_to('num_steps')(s)]
        i_dt, st_dt = _one(P, pre, _is_assign_to('dt'), w, '`dt = …`')
        if not plain_ns or plain_ns[-1] > i_dt:
            raise Un(f'{w}: no plain `num_steps = …` before `dt = …`')
        emit('crr_steps', pre[plain_ns[-1]:i_dt], ['num_steps'], [('num_steps_per_year', INT), ('isEven', INT)], INT,
             doc='the statements from the LAST plain assignment of num_steps up to `dt = …` (earlier assignments are dead code)')
        for s in pre[i_dt + 1:]:
            if 'num_steps' in {U(t) for t in getattr(s, 'targets', [])} or (isinstance(s, ast.AugAssign) and U(s.target) == 'num_steps'):
                raise Un(f'{w}: num_steps is changed after `dt = …`')
        emit('crr_dt', [st_dt], ['dt'], [('time_to_expiry', NUM), ('num_steps', INT)], NUM)
        _, st_u = _one(P, pre, _is_assign_to('u'), w, '`u = …`')
        _, st_d = _one(P, pre, _is_assign_to('d'), w, '`d = …`')
        emit('crr_ud', [st_u, st_d], ['u', 'd'], [('volatility', NUM), ('dt', NUM)], 'tuple:num,num')
        _, st_nn = _one(P, pre, _is_assign_to('num_nodes'), w, '`num_nodes = …`')
        emit('crr_num_nodes', _arr(P, [st_nn], w + ' num_nodes', strip_int=1), ['num_nodes'], [('num_steps', INT)], NUM,
             doc='the argument of `int(·)` in `num_nodes = int(…)`: the length of stock_values / option_values')
        for arr, ln in [('stock_values', 'num_nodes'), ('option_values', 'num_nodes'), ('probs', 'num_steps'), ('period_dfs', 'num_steps')]:
            _one(P, pre, lambda s, a=arr, n=ln: U(s) == f'{a} = np.zeros({n})', w, f'`{arr} = np.zeros({ln})`')
        # ----------------------------------------------------------------------------- probabilities / discount factors
        ww = w + ' probability loop'
        _plain(P, l_prob, ww)
        hs, hn = _range_stmts(P, l_prob.iter, ww, 2)
        emit('crr_prob_range', hs, hn, [('num_steps', INT)], 'tuple:int,int', doc='`for i_time in range(lo, hi)`')
        st = _arr(P, l_prob.body, ww, stores={'probs': ('probs_out', 'i_time'), 'period_dfs': ('period_dfs_out', 'i_time')})
        emit('crr_prob_step', st, ['probs_out', 'period_dfs_out'], [('r', NUM), ('q', NUM), ('dt', NUM), ('u', NUM), ('d', NUM)],
             'tuple:num,num', doc='one iteration: the values stored in probs[i_time], period_dfs[i_time]')
        _, st_r = _one(P, pre, _is_assign_to('r'), w, '`r = …`')
        _, st_q = _one(P, pre, _is_assign_to('q'), w, '`q = …`')
        emit('crr_rq', [st_r, st_q], ['r', 'q'], [('interest_rate', NUM), ('dividend_rate', NUM)], 'tuple:num,num')
        # ----------------------------------------------------------------------------- lattice
        ww = w + ' lattice loop'
        _, st_sv0 = _one(P, pre, lambda s: isinstance(s, ast.Assign) and U(s.targets[0]).startswith('stock_values['), w,
                         'store to stock_values before the loops')
        _, st_sl = _one(P, pre, _is_assign_to('s_low'), w, '`s_low = …`')
        emit('crr_lat_init', _arr(P, [st_sv0, st_sl], ww + ' init', stores={'stock_values': ('sv0_out', '0')}), ['sv0_out', 's_low'],
             [('stock_price', NUM)], 'tuple:num,num', doc='`stock_values[0] = sv0_out` and the initial s_low')
        inner = _plain(P, l_lat, ww, inner=1)
        _plain(P, inner, ww + ' (inner)')
        if U(inner.target) != 'i_node':
            raise Un(f'{ww}: inner loop variable is {U(inner.target)}')
        hs, hn = _range_stmts(P, l_lat.iter, ww, 2)
        emit('crr_lat_range', hs, hn, [('num_steps', INT)], 'tuple:int,int', doc='`for i_time in range(lo, hi)`')
        emit('crr_lat_outer_step', l_lat.body[:-1], ['s_low', 's'], [('s_low', NUM), ('d', NUM)], 'tuple:num,num',
             doc='the statements of one outer iteration before the inner loop')
        hs, hn = _range_stmts(P, inner.iter, ww + ' (inner)', 2)
        emit('crr_lat_inner_range', hs, hn, [('i_time', INT)], 'tuple:int,int', doc='`for i_node in range(lo, hi)`')
        i_ix, st_ix = _one(P, inner.body, _is_assign_to('index'), ww, '`index = …` in the inner loop')
        i_st, st_store = _one(P, inner.body, lambda s: isinstance(s, ast.Assign) and isinstance(s.targets[0], ast.Subscript), ww,
                              'array store in the inner loop')
        sub = st_store.targets[0].slice
        if U(st_store.targets[0].value) != 'stock_values' or not (isinstance(sub, ast.Call) and U(sub.func) == 'int' and len(sub.args) == 1):
            raise Un(f'{ww}: the store is not `stock_values[int(…)] = …`')
        emit('crr_lat_store_idx', [st_ix, _assign('idx_out', sub.args[0])], ['idx_out'], [('i_time', INT), ('i_node', INT)], NUM,
             doc='the argument of `int(·)` in `stock_values[int(·)] = s`')
        rest = [s for k, s in enumerate(inner.body) if k != i_ix]
        emit('crr_lat_inner_step', _arr(P, rest, ww + ' (inner)', stores={'stock_values': ('sv_out', U(sub.args[0]))}, strip_int=1),
             ['sv_out', 's'], [('s', NUM), ('u', NUM)], 'tuple:num,num', doc='one inner iteration: the value stored and the new s')
        # ----------------------------------------------------------------------------- expiry layer
        ww = w + ' expiry loop'
        between = body[i_lat + 1:i_term]
        if len(between) != 1 or not _is_assign_to('index')(between[0]):
            raise Un(f'{ww}: expected only `index = …` between the lattice loop and the expiry loop')
        emit('crr_term_base', _arr(P, between, ww + ' base', strip_int=1), ['index'], [('num_steps', INT)], NUM,
             doc='the argument of `int(·)` in `index = int(…)`')
        _plain(P, l_term, ww)
        hs, hn = _range_stmts(P, l_term.iter, ww, 2)
        emit('crr_term_range', hs, hn, [('i_time', INT)], 'tuple:int,int',
             doc='`for i_node in range(lo, hi)`; i_time is the LAST value of the lattice loop variable (hi - 1 of crr_lat_range)')
        subs = {U(x.slice) for s in l_term.body for x in ast.walk(s) if isinstance(x, ast.Subscript)}
        if len(subs) != 1:
            raise Un(f'{ww}: the subscripts of the body are not all the same: {sorted(subs)}')
        sub_t = ast.parse(subs.pop(), mode='eval').body
        emit('crr_term_idx', [_assign('idx_out', sub_t)], ['idx_out'], [('index', INT), ('i_node', INT)], INT,
             doc='the subscript of the read of stock_values and of every store to option_values in the body')
        st = _arr(P, l_term.body, ww, reads={f'stock_values[{U(sub_t)}]': 's_in'}, stores={'option_values': ('ov_out', U(sub_t))},
                  counts={'option_values': 4})
        emit('crr_term_node', ast.parse('ov_out = 0.0').body + st, ['ov_out'], [('option_type', INT), ('strike_price', NUM), ('s_in', NUM)], NUM,
             doc='the value stored at the node (0.0 = the np.zeros initial content when no branch stores)')
        # ----------------------------------------------------------------------------- backward induction
        ww = w + ' backward loop'
        if body[i_term + 1:i_back]:
            raise Un(f'{ww}: unexpected statements between the expiry loop and the backward loop')
        inner = _plain(P, l_back, ww, inner=1)
        _plain(P, inner, ww + ' (inner)')
        if U(inner.target) != 'i_node':
            raise Un(f'{ww}: inner loop variable is {U(inner.target)}')
        hs, hn = _range_stmts(P, l_back.iter, ww, 3)
        emit('crr_back_range', hs, hn, [('num_steps', INT)], 'tuple:int,int,int', doc='`for i_time in range(start, stop, step)`')
        if len(l_back.body) != 2 or not _is_assign_to('index')(l_back.body[0]):
            raise Un(f'{ww}: the outer body is not `index = …` followed by the inner loop')
        emit('crr_back_base', _arr(P, l_back.body[:1], ww + ' base', strip_int=1), ['index'], [('i_time', INT)], NUM,
             doc='the argument of `int(·)` in `index = int(…)`')
        hs, hn = _range_stmts(P, inner.iter, ww + ' (inner)', 2)
        emit('crr_back_inner_range', hs, hn, [('i_time', INT)], 'tuple:int,int', doc='`for i_node in range(lo, hi)`')
        ib = inner.body
        k_ni, st_ni = _one(P, ib, _is_assign_to('next_index'), ww, '`next_index = …`')
        k_dn, st_dn = _one(P, ib, _is_assign_to('next_node_dn'), ww, '`next_node_dn = …`')
        k_up, st_up = _one(P, ib, _is_assign_to('next_node_up'), ww, '`next_node_up = …`')
        k_vu, st_vu = _one(P, ib, _is_assign_to('v_up'), ww, '`v_up = …`')
        k_vd, st_vd = _one(P, ib, _is_assign_to('v_dn'), ww, '`v_dn = …`')
        for s in (st_vu, st_vd):
            if not (isinstance(s.value, ast.Subscript) and U(s.value.value) == 'option_values'):
                raise Un(f'{ww}: `{U(s)}` is not a read of option_values')
        emit('crr_back_next_base', _arr(P, [st_ni], ww + ' next base', strip_int=1), ['next_index'], [('i_time', INT)], NUM,
             doc='the argument of `int(·)` in `next_index = int(…)`')
        stores = {U(x.slice) for s in ib for x in ast.walk(s) if isinstance(x, ast.Subscript) and isinstance(x.ctx, ast.Store)}
        sreads = {U(x.slice) for s in ib for x in ast.walk(s) if isinstance(x, ast.Subscript) and isinstance(x.ctx, ast.Load)
                  and U(x.value) == 'stock_values'}
        if len(stores) != 1 or sreads != stores:
            raise Un(f'{ww}: store subscripts {sorted(stores)} / stock_values read subscripts {sorted(sreads)} are not one common text')
        sub_b = ast.parse(stores.pop(), mode='eval').body
        emit('crr_back_idx', [st_dn, st_up, _assign('store_idx', sub_b), _assign('dn_read', st_vd.value.slice), _assign('up_read', st_vu.value.slice)],
             ['store_idx', 'dn_read', 'up_read'], [('index', INT), ('next_index', INT), ('i_node', INT)], 'tuple:int,int,int',
             doc='subscripts: of the store to option_values (= of the read of stock_values), of `v_dn = option_values[·]`, of `v_up = option_values[·]`')
        rest = [s for k, s in enumerate(ib) if k not in (k_ni, k_dn, k_up, k_vu, k_vd)]
        rest = ast.parse('ov_out = 0.0\nv_up = v_up_in\nv_dn = v_dn_in').body + rest
        st = _arr(P, rest, ww, reads={f'stock_values[{U(sub_b)}]': 's_in', 'probs[i_time]': 'prob_in', 'period_dfs[i_time]': 'df_in'},
                  stores={'option_values': ('ov_out', U(sub_b))}, counts={'probs[i_time]': 2, 'option_values': 4})
        emit('crr_back_node', st, ['ov_out'],
             [('option_type', INT), ('strike_price', NUM), ('s_in', NUM), ('v_up_in', NUM), ('v_dn_in', NUM), ('prob_in', NUM), ('df_in', NUM)], NUM,
             doc='the value stored at node (i_time, i_node): s_in = stock_values[store_idx], v_up_in / v_dn_in = option_values[up_read / dn_read], '
                 'prob_in = probs[i_time], df_in = period_dfs[i_time]')
        # ----------------------------------------------------------------------------- result
        _, st_pr = _one(P, body[i_back + 1:], _is_assign_to('price'), w, '`price = …`')
        if not (isinstance(st_pr.value, ast.Subscript) and U(st_pr.value.value) == 'option_values'):
            raise Un(f'{w}: `{U(st_pr)}` is not a read of option_values')
        emit('crr_price_idx', [_assign('idx_out', st_pr.value.slice)], ['idx_out'], [], INT, doc='the subscript of `price = option_values[·]`')
        ns = 'CrrLoopR'
        text = prelude(ns, kind) + '\n'.join(out) + f'\nend FinVerif.Gen.{ns}\n'
        return SOURCES, text
    return build


MODULES = {'CrrLoopR': build_crr('real')}
