"""Generated modules for the closed forms of the rate-parameterised discount curves (property C02).

  CurvesF  Float, executable (Driver/C02 ops GNS / GNSS / GZ2D, compared with the implementation on every run)
  CurvesR  ℝ, noncomputable (Props/C02d: the hand-written model of Model/C02.lean is PROVED equal to this text, so the
           theorems about `nsRate`, `nssRate`, `zeroToDf` are theorems about what the source says now)

What is translated (name in the generated module  <-  source):

  ns_zero_rate    <- DiscountCurveNS._zero_rate     market/curves/discount_curve_ns.py   (whole method; the four parameters are object state)
  nss_zero_rate   <- DiscountCurveNSS._zero_rate    market/curves/discount_curve_nss.py  (whole method; six parameters)
  zero_to_df      <- DiscountCurve._zero_to_df      market/curves/discount_curve.py      (slice: the scalar->array wrapping is dropped,
                                                                                          `annual_frequency(freq_type)` becomes the parameter `f_in`;
                                                                                          `freq_type` is the enum value; value_dt / dc_type are unused
                                                                                          by the method and dropped)

Every statement that is dropped or whose right-hand side becomes a parameter is listed below with its exact source text
(`_astprep.slice_method`: each must occur exactly once, otherwise generation fails loudly).
The loops (`DiscountCurvePWF/PWL._zero_rate`, `DiscountCurvePoly._zero_rate`, `swap_rate`, `bump`, `_df_to_zero`) are outside the
translator's subset; they are modelled by hand in Model/C02.lean / Model/C02Ext.lean and compared with the implementation per run.
"""
from __future__ import annotations

from registry.bs import prelude, GV_PY

NS_PY = 'financepy/market/curves/discount_curve_ns.py'
NSS_PY = 'financepy/market/curves/discount_curve_nss.py'
DC_PY = 'financepy/market/curves/discount_curve.py'
FREQ_PY = 'financepy/utils/frequency.py'

SOURCES = [NS_PY, NSS_PY, DC_PY, FREQ_PY, GV_PY]

Z2D_DROP = ['if isinstance(times, float):\n    times = np.array([times])']
Z2D_SUBST = {'annual_frequency(freq_type)': 'f_in'}


def build_curves(kind):
    def build(P, S):
        from py2lean import FuncSpec, Translator, Dialect, NUM, INT, find_function
        from registry._astprep import slice_method
        consts = dict(S.module_consts(GV_PY))
        consts.update(S.module_consts(FREQ_PY))
        tr = Translator(Dialect(kind), consts)
        out = []
        # ---------------------------------------------------------------- Nelson-Siegel
        tree = S.parse(NS_PY)
        out.append(tr.function(find_function(tree, 'DiscountCurveNS._zero_rate'), FuncSpec(
            'DiscountCurveNS._zero_rate', 'ns_zero_rate', [('times', NUM)], NUM, skip_params=('self',),
            attr_map={'self._beta_0': ('beta_0', NUM), 'self._beta_1': ('beta_1', NUM), 'self._beta_2': ('beta_2', NUM),
                      'self._tau': ('tau', NUM)},
            extra_params=[('beta_0', NUM), ('beta_1', NUM), ('beta_2', NUM), ('tau', NUM)],
            doc='times = one year fraction in the curve\'s day count')))
        # ---------------------------------------------------------------- Nelson-Siegel-Svensson
        tree = S.parse(NSS_PY)
        out.append(tr.function(find_function(tree, 'DiscountCurveNSS._zero_rate'), FuncSpec(
            'DiscountCurveNSS._zero_rate', 'nss_zero_rate', [('times', NUM)], NUM, skip_params=('self',),
            attr_map={'self._beta_0': ('beta_0', NUM), 'self._beta_1': ('beta_1', NUM), 'self._beta_2': ('beta_2', NUM),
                      'self._beta_3': ('beta_3', NUM), 'self._tau_1': ('tau_1', NUM), 'self._tau_2': ('tau_2', NUM)},
            extra_params=[('beta_0', NUM), ('beta_1', NUM), ('beta_2', NUM), ('beta_3', NUM), ('tau_1', NUM), ('tau_2', NUM)],
            doc='times = one year fraction in the curve\'s day count')))
        # ---------------------------------------------------------------- DiscountCurve._zero_to_df
        tree = S.parse(DC_PY)
        fn = slice_method(find_function(tree, 'DiscountCurve._zero_to_df'), Z2D_DROP, Z2D_SUBST, 'zero_to_df')
        out.append(tr.function(fn, FuncSpec(
            'DiscountCurve._zero_to_df', 'zero_to_df', [('rates', NUM), ('times', NUM), ('freq_type', INT), ('f_in', NUM)], NUM,
            skip_params=('self', 'value_dt', 'dc_type'),
            doc='freq_type = FrequencyTypes.<member>.value; f_in = annual_frequency(freq_type) (unused for CONTINUOUS / SIMPLE)')))
        ns = 'CurvesF' if kind == 'float' else 'CurvesR'
        body = prelude(ns, kind) + '\n'.join(out) + f'\nend FinVerif.Gen.{ns}\n'
        return SOURCES, body
    return build


MODULES = {'CurvesF': build_curves('float'), 'CurvesR': build_curves('real')}
