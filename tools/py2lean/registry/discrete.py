"""Generated modules for the discrete core: date kernels, calendars, day counts."""
import ast

DATE_PY = 'financepy/utils/date.py'
CAL_PY = 'financepy/utils/calendar.py'
DC_PY = 'financepy/utils/day_count.py'
FREQ_PY = 'financepy/utils/frequency.py'
GV_PY = 'financepy/utils/global_vars.py'


def _prelude(ns, imports, opens=()):
    s = ''.join(f'import {i}\n' for i in imports)
    s += '\nset_option linter.unusedVariables false\n\nnamespace FinVerif.Gen.' + ns + '\n'
    s += 'open FinVerif\n' + ''.join(f'open {o}\n' for o in opens) + '\n'
    return s


def build_datek(P, S):
    from py2lean import FuncSpec, Translator, Dialect, INT, BOOL, find_function
    consts = S.module_consts(DATE_PY)
    tree = S.parse(DATE_PY)
    tr = Translator(Dialect('int'), consts)
    out = []
    specs = [
        FuncSpec('is_leap_year', 'is_leap_year', [('y', INT)], BOOL),
        FuncSpec('date_index', 'date_index', [('d', INT), ('m', INT), ('y', INT)], INT),
        FuncSpec('date_from_index', 'date_from_index', [('idx', INT)], 'tuple:int,int,int'),
        FuncSpec('weekday', 'weekday', [('day_count', INT)], INT),
    ]
    for sp in specs:
        out.append(tr.function(find_function(tree, sp.py_name), sp))
        tr.funcs[sp.py_name] = sp
    body = _prelude('DateK', ['FinVerif.Core.Prelude']) + '\n'.join(out)
    # month-length tables and the global year limits, as data
    body += f"\ndef month_days_not_leap_year : List Int := {consts['month_days_not_leap_year']}\n"
    body += f"def month_days_leap_year : List Int := {consts['month_days_leap_year']}\n"
    body += f"def g_start_year : Int := {consts['g_start_year']}\n"
    body += f"def g_end_year : Int := {consts['g_end_year']}\n"
    body += '\nend FinVerif.Gen.DateK\n'
    return [DATE_PY], body


HOL_ATTR = {'dt.m': ('m', 'int'), 'dt.d': ('d', 'int'), 'dt.y': ('y', 'int'),
            'self.day_in_year': ('diy', 'int'), 'self.weekday': ('wd', 'int')}
HOL_PARAMS = [('m', 'int'), ('d', 'int'), ('y', 'int'), ('wd', 'int'), ('diy', 'int')]


def build_calendar(P, S):
    from py2lean import FuncSpec, Translator, Dialect, INT, BOOL, find_function, Untranslatable
    consts = dict(S.module_consts(DATE_PY))
    consts.update(S.module_consts(CAL_PY))
    tree = S.parse(CAL_PY)
    dtree = S.parse(DATE_PY)
    tr = Translator(Dialect('int'), consts)
    out = []
    # Date.is_weekend (used by holiday_weekend and is_business_day)
    sp = FuncSpec('Date.is_weekend', 'is_weekend', [], BOOL, attr_map={'self.weekday': ('wd', INT)},
                  extra_params=[('wd', INT)], bool_chain=True)
    out.append(tr.function(find_function(dtree, 'Date.is_weekend'), sp))
    spw = FuncSpec('dt.is_weekend', 'is_weekend', [], BOOL, implicit_args=('wd',))
    tr.funcs['dt.is_weekend'] = spw
    # every holiday_* method of Calendar, discovered from the source
    cls = [x for x in tree.body if isinstance(x, ast.ClassDef) and x.name == 'Calendar'][0]
    names = [f.name for f in cls.body if isinstance(f, ast.FunctionDef) and f.name.startswith('holiday_')]
    side = {}
    for nm in names:
        sp = FuncSpec('Calendar.' + nm, nm, [], BOOL, attr_map=HOL_ATTR, extra_params=HOL_PARAMS, bool_chain=True)
        out.append(tr.function(find_function(tree, 'Calendar.' + nm), sp))
        side[nm] = sp.__dict__.get('side_errs', [])
    # the calendar enum, as data, so that the dispatch model can be checked against it
    enum = S.enum_members(CAL_PY, 'CalendarTypes')
    adj = S.enum_members(CAL_PY, 'BusDayAdjustTypes')
    body = _prelude('Calendar', ['FinVerif.Core.Prelude']) + tr.tables() + '\n' + '\n'.join(out)
    body += '\ndef holidayFunctions : List String := [' + ', '.join(f'"{n}"' for n in names) + ']\n'
    body += 'def calendarTypes : List (String × Int) := [' + ', '.join(f'("{k}", {v})' for k, v in enum.items()) + ']\n'
    body += 'def busDayAdjustTypes : List (String × Int) := [' + ', '.join(f'("{k}", {v})' for k, v in adj.items()) + ']\n'
    # dispatch table of Calendar.is_holiday, read from the if/elif chain of the source
    disp = _dispatch(find_function(tree, 'Calendar.is_holiday'), enum)
    body += 'def isHolidayDispatch : List (Int × String) := [' + ', '.join(f'({c}, "{f}")' for c, f in disp) + ']\n'
    # the dispatch itself, as a function (none = the code's final `raise FinError("Unknown calendar")`)
    body += '\n/-- generated from the if/elif chain of `Calendar.is_holiday` -/\n'
    body += 'def is_holiday_dispatch (cal m d y wd diy : Int) : Option Bool :=\n'
    for c, f in disp:
        body += f'  if cal = {c} then some ({f} m d y wd diy) else\n'
    body += '  none\n'
    body += '\nend FinVerif.Gen.Calendar\n'
    return [CAL_PY, DATE_PY], body


def _dispatch(fnode, enum):
    """`if self.cal_type == CalendarTypes.X: return self.holiday_x(dt)` chain → [(code, fn)]."""
    from py2lean import Untranslatable
    res = []
    node = None
    for st in fnode.body:
        if isinstance(st, ast.If):
            node = st
    while node is not None:
        t = node.test
        ok = isinstance(t, ast.Compare) and len(t.ops) == 1 and isinstance(t.ops[0], ast.Eq) and \
            ast.unparse(t.left) == 'self.cal_type' and ast.unparse(t.comparators[0]).startswith('CalendarTypes.')
        if not ok or len(node.body) != 1 or not isinstance(node.body[0], ast.Return):
            raise Untranslatable('is_holiday dispatch chain has an unexpected shape: ' + ast.unparse(t))
        call = node.body[0].value
        if not (isinstance(call, ast.Call) and ast.unparse(call.func).startswith('self.holiday_')
                and [ast.unparse(a) for a in call.args] == ['dt']):
            raise Untranslatable('is_holiday dispatch target: ' + ast.unparse(call))
        res.append((enum[ast.unparse(t.comparators[0]).split('.')[1]], call.func.attr))
        if len(node.orelse) == 1 and isinstance(node.orelse[0], ast.If):
            node = node.orelse[0]
        else:
            node = None
    return res


def build_daycount(P, S):
    from py2lean import FuncSpec, Translator, Dialect, INT, BOOL, NUM, DATE, ODATE, ONUM, find_function
    consts = dict(S.module_consts(DATE_PY))
    consts.update(S.module_consts(FREQ_PY))
    consts.update(S.module_consts(GV_PY))
    consts.update(S.module_consts(DC_PY))
    tree = S.parse(DC_PY)
    dtree = S.parse(DATE_PY)
    tr = Translator(Dialect('int'), consts)
    # callee signatures
    tr.funcs['is_leap_year'] = FuncSpec('is_leap_year', 'FinVerif.Gen.DateK.is_leap_year', [('y', INT)], BOOL)
    tr.funcs['annual_frequency'] = FuncSpec('annual_frequency', 'FinVerif.Model.annualFrequency', [('f', INT)], ONUM)
    out = []
    sp = FuncSpec('datediff', 'datediff', [('d1', DATE), ('d2', DATE)], INT)
    out.append(tr.function(find_function(dtree, 'datediff'), sp))
    tr.funcs['datediff'] = sp
    sp = FuncSpec('is_last_day_of_feb', 'is_last_day_of_feb', [('dt', DATE)], BOOL, fallthrough='false')
    out.append(tr.function(find_function(tree, 'is_last_day_of_feb'), sp))
    tr.funcs['is_last_day_of_feb'] = sp
    sp = FuncSpec('DayCount.year_frac', 'year_frac',
                  [('dt1', DATE), ('dt2', DATE), ('dt3', ODATE), ('freq_type', INT), ('is_termination_date', BOOL)],
                  'tuple:num,num,num', attr_map={'self._type': ('dcc', INT)}, extra_params=[('dcc', INT)])
    out.append(tr.function(find_function(tree, 'DayCount.year_frac'), sp, force_fallible=True))
    enum = S.enum_members(DC_PY, 'DayCountTypes')
    body = _prelude('DayCount', ['FinVerif.Core.Prelude', 'FinVerif.Gen.DateK', 'FinVerif.Model.Date'],
                    opens=['FinVerif.Model']) + '\n'.join(out)
    body += '\ndef dayCountTypes : List (String × Int) := [' + ', '.join(f'("{k}", {v})' for k, v in enum.items()) + ']\n'
    fe = S.enum_members(FREQ_PY, 'FrequencyTypes')
    body += 'def frequencyTypes : List (String × Int) := [' + ', '.join(f'("{k}", {v})' for k, v in fe.items()) + ']\n'
    body += '\nend FinVerif.Gen.DayCount\n'
    return [DC_PY, DATE_PY, FREQ_PY, GV_PY], body


def build_datelogic(P, S):
    from py2lean import FuncSpec, Translator, Dialect, INT, BOOL, DATE, find_function
    consts = S.module_consts(DATE_PY)
    tree = S.parse(DATE_PY)
    tr = Translator(Dialect('int'), consts)
    tr.funcs['is_leap_year'] = FuncSpec('is_leap_year', 'FinVerif.Gen.DateK.is_leap_year', [('y', INT)], BOOL)
    tr.funcs['self.add_months'] = FuncSpec('self.add_months', 'FinVerif.Model.addMonthsD', [('mm', INT)], DATE,
                                           implicit_args=())
    out = []
    selfattrs = {'self.d': ('self_.d', INT), 'self.m': ('self_.m', INT), 'self.y': ('self_.y', INT)}
    # next_cds_date(self, mm): `self.add_months(mm)` is the hand model's addMonths (total version)
    sp = FuncSpec('Date.next_cds_date', 'next_cds_date', [('self', DATE), ('mm', INT)], DATE)
    fn = find_function(tree, 'Date.next_cds_date')
    # calls are `self.add_months(mm)`: pass `self` explicitly
    tr.funcs['self.add_months'] = FuncSpec('self.add_months', 'FinVerif.Model.addMonthsD self', [('mm', INT)], DATE)
    out.append(tr.function(fn, sp))
    sp = FuncSpec('Date.is_eom', 'is_eom', [('self', DATE)], BOOL, fallthrough=None)
    out.append(tr.function(find_function(tree, 'Date.is_eom'), sp))
    sp = FuncSpec('days_in_month', 'days_in_month', [('m', INT), ('y', INT)], INT)
    out.append(tr.function(find_function(tree, 'days_in_month'), sp))
    body = _prelude('DateLogic', ['FinVerif.Core.Prelude', 'FinVerif.Gen.DateK', 'FinVerif.Model.DateArith'],
                    opens=['FinVerif.Model']) + tr.tables() + '\n' + '\n'.join(out)
    body += '\nend FinVerif.Gen.DateLogic\n'
    return [DATE_PY], body


MODULES = {'DateK': build_datek, 'DateLogic': build_datelogic, 'Calendar': build_calendar, 'DayCount': build_daycount}
