"""Generated module `Effects`: the effect summaries of tools/effects/extract.py as Lean data (C18)."""
import importlib
import os
import sys

HERE = os.path.dirname(os.path.abspath(__file__))
sys.path.insert(0, os.path.join(os.path.dirname(os.path.dirname(HERE)), 'effects'))


def _strs(xs):
    return '[' + ', '.join('"' + x.replace('\\', '\\\\').replace('"', '\\"') + '"' for x in xs) + ']'


def build_effects(P, S):
    import extract
    importlib.reload(extract)
    extract.REPO = S.REPO
    res = extract.analyse()
    aux = set(res.get('auxiliary', []))
    srcs = [rel for rel, _ in extract.ANCHORS + extract.AUXILIARY + extract.EXTENDED]
    out = ['import FinVerif.Model.C18', '', 'namespace FinVerif.Gen.Effects', 'open FinVerif.C18', '']
    names = []
    ext_names = []
    for cls, c in list(res['classes'].items()) + list(res.get('extended', {}).items()):
        ident = cls.replace('<', 'mod_').replace('>', '')
        (ext_names if cls in res.get('extended', {}) else names).append(ident)
        ms = []
        for m, s in c['methods'].items():
            ms.append('    { name := "%s", isPublic := %s,\n      rbw := %s,\n      writes := %s,\n      must := %s,\n'
                      '      pwrites := %s, pcalls := %s,\n      gwrites := %s, greads := %s, text := %s }'
                      % (m, 'true' if (s['public'] and m != '__init__') else 'false', _strs(s['rbw']), _strs(s['writes']), _strs(s['must']),
                         _strs(s['pwrites']), _strs(s['pcalls']), _strs(s['gwrites']), _strs(s['greads']),
                         'true' if s['text'] else 'false'))
        out.append(f'/-- {c["file"]} -/')
        out.append(f'def {ident} : ClassEff :=\n  {{ name := "{cls}", anchored := {"false" if (cls in aux or cls in res.get("extended", {})) else "true"},\n'
                   f'    ctor := {_strs(c["ctor"])},\n    methods := [\n' + ',\n'.join(ms) + '] }\n')
    out.append('def classes : List ClassEff := [' + ', '.join(names) + ']\n')
    out.append('def mutableGlobals : List String := ' + _strs(res['mutable_globals']) + '\n')
    out.append('/-- classes outside the property\'s anchors (never part of `classes`): judged by Props/C18c -/')
    out.append('def extendedClasses : List ClassEff := [' + ', '.join(ext_names) + ']\n')
    out.append('/-- attributes assigned in the class body (class, names), for the extended classes -/')
    out.append('def extendedClassAttrs : List (String × List String) := [' + ', '.join(
        '("%s", %s)' % (cls, _strs(c['class_attrs'])) for cls, c in res.get('extended', {}).items()) + ']\n')
    out.append('/-- EVERY place in every module under financepy/ where a function body changes state that outlives the call '
               'and belongs to no object the caller holds: (file, function, kind, name) — see `module_state` in '
               'tools/effects/extract.py -/')
    out.append('def moduleState : List (String × String × String × String) := [' + ',\n  '.join(
        '(%s, %s, %s, %s)' % tuple(_strs([x])[1:-1] for x in row) for row in res.get('module_state', [])) + ']\n')
    out.append('end FinVerif.Gen.Effects\n')
    return sorted(set(srcs)), '\n'.join(out)


MODULES = {'Effects': build_effects}
