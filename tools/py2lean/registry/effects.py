"""Generated module `Effects`: the effect summaries of tools/effects/extract.py as Lean data (C18)."""
import importlib
import os
import sys

HERE = os.path.dirname(os.path.abspath(__file__))
sys.path.insert(0, os.path.join(os.path.dirname(os.path.dirname(HERE)), 'effects'))


def _strs(xs):
    return '[' + ', '.join('"' + x.replace('\\', '\\\\').replace('"', '\\"') + '"' for x in xs) + ']'


def build_effects(P, S):
    import extract
    importlib.reload(extract)
    extract.REPO = S.REPO
    res = extract.analyse()
    aux = set(res.get('auxiliary', []))
    srcs = [rel for rel, _ in extract.ANCHORS + extract.AUXILIARY + extract.EXTENDED]
    out = ['import FinVerif.Model.C18', 'import FinVerif.Model.C18g', '', 'namespace FinVerif.Gen.Effects', 'open FinVerif.C18', '']
    names = []
    ext_names = []
    for cls, c in list(res['classes'].items()) + list(res.get('extended', {}).items()):
        ident = cls.replace('<', 'mod_').replace('>', '')
        (ext_names if cls in res.get('extended', {}) else names).append(ident)
        ms = []
        for m, s in c['methods'].items():
            ms.append('    { name := "%s", isPublic := %s,\n      rbw := %s,\n      writes := %s,\n      must := %s,\n'
                      '      pwrites := %s, pcalls := %s,\n      gwrites := %s, greads := %s, text := %s }'
                      % (m, 'true' if (s['public'] and m != '__init__') else 'false', _strs(s['rbw']), _strs(s['writes']), _strs(s['must']),
                         _strs(s['pwrites']), _strs(s['pcalls']), _strs(s['gwrites']), _strs(s['greads']),
                         'true' if s['text'] else 'false'))
        out.append(f'/-- {c["file"]} -/')
        out.append(f'def {ident} : ClassEff :=\n  {{ name := "{cls}", anchored := {"false" if (cls in aux or cls in res.get("extended", {})) else "true"},\n'
                   f'    ctor := {_strs(c["ctor"])},\n    methods := [\n' + ',\n'.join(ms) + '] }\n')
    out.append('def classes : List ClassEff := [' + ', '.join(names) + ']\n')
    out.append('def mutableGlobals : List String := ' + _strs(res['mutable_globals']) + '\n')
    out.append('/-- classes outside the property\'s anchors (never part of `classes`): judged by Props/C18c -/')
    out.append('def extendedClasses : List ClassEff := [' + ', '.join(ext_names) + ']\n')
    out.append('/-- attributes assigned in the class body (class, names), for the extended classes -/')
    out.append('def extendedClassAttrs : List (String × List String) := [' + ', '.join(
        '("%s", %s)' % (cls, _strs(c['class_attrs'])) for cls, c in res.get('extended', {}).items()) + ']\n')
    out.append('/-- EVERY place in every module under financepy/ where a function body changes state that outlives the call '
               'and belongs to no object the caller holds: (file, function, kind, name) — see `module_state` in '
               'tools/effects/extract.py -/')
    out.append('def moduleState : List (String × String × String × String) := [' + ',\n  '.join(
        '(%s, %s, %s, %s)' % tuple(_strs([x])[1:-1] for x in row) for row in res.get('module_state', [])) + ']\n')
    # ---- inter-class call graph (growth round 7b): NEW defs only, everything above is textually what it was
    cg = res.get('call_graph', {'edges': [], 'unresolved': [], 'targets': {}, 'nodes': []})
    tnames = []
    for cls, c in cg['targets'].items():
        ident = 'tgt_' + cls
        tnames.append(ident)
        ms = []
        for m, s in c['methods'].items():
            ms.append('    { name := "%s", isPublic := %s,\n      rbw := %s,\n      writes := %s,\n      must := %s,\n'
                      '      pwrites := %s, pcalls := %s,\n      gwrites := %s, greads := %s, text := %s }'
                      % (m, 'true' if (s['public'] and m != '__init__') else 'false', _strs(s['rbw']), _strs(s['writes']), _strs(s['must']),
                         _strs(s['pwrites']), _strs(s['pcalls']), _strs(s['gwrites']), _strs(s['greads']),
                         'true' if s['text'] else 'false'))
        out.append(f'/-- {c["file"]} (reached through the call graph only) -/')
        out.append(f'def {ident} : ClassEff :=\n  {{ name := "{cls}", anchored := false,\n'
                   f'    ctor := {_strs(c["ctor"])},\n    methods := [\n' + ',\n'.join(ms) + '] }\n')
    out.append('/-- classes outside `classes` / `extendedClasses` on which a resolved call lands -/')
    out.append('def callTargetClasses : List ClassEff := [' + ', '.join(tnames) + ']\n')
    idx = {(n[0], n[1]): i for i, n in enumerate(cg['nodes'])}
    pairs = sorted({(idx[(e[0], e[1])], idx[(e[3], e[4])]) for e in cg['edges']})
    out.append('/-- the edges as (source id, target id), without repetition, sorted -/')
    out.append('def callEdgeIds : List (Nat × Nat) := [' + ', '.join('(%d, %d)' % p for p in pairs) + ']\n')
    pidx = {p: i for i, p in enumerate(pairs)}
    out.append('/-- end points of the call edges with their own effect summary; position = node id -/')
    out.append('def callNodes : List CallNode := [' + ',\n  '.join(
        '{ cls := "%s", meth := "%s", writes := %s, readBack := %s, pwrites := %s, gwrites := %s }'
        % (n[0], n[1], _strs(n[2]), _strs(n[3]), _strs(n[4]), _strs(n[5])) for n in cg['nodes']) + ']\n')
    out.append('/-- method cls.meth calls targetCls.targetMeth on its argument / attribute arg (tools/effects/extract.py `call_graph`) -/')
    out.append('def callGraph : List CallEdge := [' + ',\n  '.join(
        '{ cls := "%s", meth := "%s", arg := "%s", targetCls := "%s", targetMeth := "%s", src := %d, dst := %d, pair := %d }'
        % (e[0], e[1], e[2], e[3], e[4], idx[(e[0], e[1])], idx[(e[3], e[4])], pidx[(idx[(e[0], e[1])], idx[(e[3], e[4])])]) for e in cg['edges']) + ']\n')
    out.append('/-- call sites on a parameter / attribute whose class could not be resolved: (class, method, argument, method called) -/')
    out.append('def unresolvedCalls : List (String × String × String × String) := [' + ',\n  '.join(
        '(%s, %s, %s, %s)' % tuple(_strs([x])[1:-1] for x in u) for u in cg['unresolved']) + ']\n')
    out.append('end FinVerif.Gen.Effects\n')
    return sorted(set(srcs)), '\n'.join(out)


MODULES = {'Effects': build_effects}
