"""Generated modules for the closed-form exotics (property C11), twice: Float (ExoticF) and Real (ExoticR).

What is translated (all by the ordinary T1 translator; nothing here changes `py2lean.py`):

  value_barrier                   models/equity_barrier_models.py            (whole function)
  fx_barrier_value                products/fx/fx_barrier_option.py           FXBarrierOption.value        (slice)
  eq_one_touch_value              products/equity/equity_one_touch_option.py EquityOneTouchOption.value   (slice)
  fx_one_touch_value              products/fx/fx_one_touch_option.py         FXOneTouchOption.value       (slice)
  eq_digital_value                products/equity/equity_digital_option.py   EquityDigitalOption.value    (slice)
  eq_fixed_lookback_value         products/equity/equity_fixed_lookback_option.py  .value                 (slice)
  eq_float_lookback_value         products/equity/equity_float_lookback_option.py  .value                 (slice)
  phi2, M                         utils/math.py     (constant-range loops unrolled, constant tables inlined)
  eq_compound_value               products/equity/equity_compound_option.py  closed form after the critical price
  eq_chooser_value                products/equity/equity_chooser_option.py   closed form after the Newton solve
  eq_rainbow_value                products/equity/equity_rainbow_option.py   two-asset Stulz formulas

A *slice* is the straight-line numerical part of a product method.  The statements before it (argument
guards on dates and curves, the year fraction) must match a whitelist of patterns, and the statements
dropped inside it (reads of curve objects, solver calls, debug prints) must match a second whitelist and
the names they bind become parameters of the generated function.  Anything else makes the module
Untranslatable (a broken obligation, never a silent skip).  The dropped glue is exercised by the
correspondence of the product classes against the Float model on every run.

Source-to-source rewrites applied before translation (each is semantics-preserving on the checked shape
and refuses anything else):
  * `np.any(c)` on a scalar comparison                       ->  `c`
  * `if 1 == 0: ...` (constant-false test, no else)          ->  removed
  * `if c1: x = e1  elif c2: x = e2 ... else: raise E`       ->  `if not (c1 or c2 ...): raise E` ; `x = e1 if c1 else (e2 if c2 else ...)`
    (conditions are comparisons of an integer code: no side effects; avoids duplicating the continuation 8x)
  * `x = [c, ...]`, `x[k] = c` at function top, `for i in range(a, b): body` with literal bounds
    -> table inlined, loop unrolled.
"""
from __future__ import annotations

import ast
import copy
import re

from registry.bs import prelude, math_kernels, MATH_PY, GT_PY, GV_PY

BARRIER_PY = 'financepy/models/equity_barrier_models.py'
FXBAR_PY = 'financepy/products/fx/fx_barrier_option.py'
EQOT_PY = 'financepy/products/equity/equity_one_touch_option.py'
FXOT_PY = 'financepy/products/fx/fx_one_touch_option.py'
EQDIG_PY = 'financepy/products/equity/equity_digital_option.py'
EQFIX_PY = 'financepy/products/equity/equity_fixed_lookback_option.py'
EQFLT_PY = 'financepy/products/equity/equity_float_lookback_option.py'
EQCMP_PY = 'financepy/products/equity/equity_compound_option.py'
EQCHO_PY = 'financepy/products/equity/equity_chooser_option.py'
EQRBW_PY = 'financepy/products/equity/equity_rainbow_option.py'


# ----------------------------------------------------------------------------- AST rewrites
class _StripAny(ast.NodeTransformer):
    def visit_Call(self, n):
        self.generic_visit(n)
        if isinstance(n.func, ast.Attribute) and isinstance(n.func.value, ast.Name) and n.func.value.id == 'np' \
                and n.func.attr == 'any' and len(n.args) == 1 and not n.keywords \
                and isinstance(n.args[0], ast.Compare):
            return n.args[0]
        return n


def _is_const_false(test):
    return (isinstance(test, ast.Compare) and len(test.ops) == 1 and isinstance(test.ops[0], ast.Eq)
            and isinstance(test.left, ast.Constant) and isinstance(test.comparators[0], ast.Constant)
            and type(test.left.value) is int and type(test.comparators[0].value) is int
            and test.left.value != test.comparators[0].value)


def _assign_chain(st):
    """`if c1: x = e1 elif ... else: raise` -> (var, [(c, e)], raise_stmt) or None."""
    pairs = []
    var = None
    cur = st
    while True:
        if not (isinstance(cur, ast.If) and len(cur.body) == 1 and isinstance(cur.body[0], ast.Assign)
                and len(cur.body[0].targets) == 1 and isinstance(cur.body[0].targets[0], ast.Name)):
            return None
        v = cur.body[0].targets[0].id
        if var is None:
            var = v
        elif v != var:
            return None
        pairs.append((cur.test, cur.body[0].value))
        if len(cur.orelse) == 1 and isinstance(cur.orelse[0], ast.If):
            cur = cur.orelse[0]
            continue
        if len(cur.orelse) == 1 and isinstance(cur.orelse[0], ast.Raise):
            return var, pairs, cur.orelse[0]
        return None


def _pure_code_test(test):
    """comparison `name == Enum.X(.value)` only (no calls): evaluating it twice is harmless"""
    return isinstance(test, ast.Compare) and not any(isinstance(x, ast.Call) for x in ast.walk(test))


def simplify_body(stmts):
    out = []
    for st in stmts:
        if isinstance(st, ast.If):
            if _is_const_false(st.test) and not st.orelse:
                continue
            ch = _assign_chain(st)
            if ch is not None and len(ch[1]) >= 3 and all(_pure_code_test(c) for c, _ in ch[1]):
                var, pairs, rz = ch
                guard = ast.UnaryOp(op=ast.Not(), operand=ast.BoolOp(op=ast.Or(), values=[copy.deepcopy(c) for c, _ in pairs]))
                out.append(ast.If(test=guard, body=[rz], orelse=[]))
                e = ast.Name(id=var, ctx=ast.Load())     # unreachable default: the guard above raised
                e = pairs[-1][1]
                for c, v in reversed(pairs[:-1]):
                    e = ast.IfExp(test=copy.deepcopy(c), body=v, orelse=e)
                out.append(ast.Assign(targets=[ast.Name(id=var, ctx=ast.Store())], value=e))
                continue
            st = ast.If(test=st.test, body=simplify_body(st.body), orelse=simplify_body(st.orelse))
        out.append(st)
    return out


def unroll(fnode, P):
    """Inline constant tables and unroll literal-range loops of a function (phi2)."""
    tables = {}
    body = []
    seen_ctrl = False
    for st in fnode.body:
        if isinstance(st, ast.Assign) and len(st.targets) == 1:
            tg = st.targets[0]
            if isinstance(tg, ast.Name) and isinstance(st.value, ast.List) and \
                    all(isinstance(e, ast.Constant) for e in st.value.elts):
                if seen_ctrl:
                    raise P.Untranslatable('table initialised after control flow')
                tables[tg.id] = [e.value for e in st.value.elts]
                continue
            if isinstance(tg, ast.Subscript) and isinstance(tg.value, ast.Name) and tg.value.id in tables:
                if seen_ctrl or not isinstance(tg.slice, ast.Constant) or not isinstance(st.value, ast.Constant):
                    raise P.Untranslatable('table written after control flow or with a non-literal')
                tables[tg.value.id][tg.slice.value] = st.value.value
                continue
        if isinstance(st, (ast.If, ast.For, ast.While)):
            seen_ctrl = True
        body.append(st)
    for st in body:
        for x in ast.walk(st):
            if isinstance(x, ast.Subscript) and isinstance(x.ctx, ast.Store):
                raise P.Untranslatable('subscript store outside the table prologue')

    class Sub(ast.NodeTransformer):
        def __init__(self, var, k):
            self.var, self.k = var, k

        def visit_Name(self, n):
            if n.id == self.var and isinstance(n.ctx, ast.Load):
                return ast.Constant(value=self.k)
            return n

    class Tbl(ast.NodeTransformer):
        def visit_Subscript(self, n):
            self.generic_visit(n)
            if isinstance(n.value, ast.Name) and n.value.id in tables:
                if not isinstance(n.slice, ast.Constant):
                    raise P.Untranslatable('table index is not a literal after unrolling')
                return ast.Constant(value=tables[n.value.id][n.slice.value])
            return n

    def go(stmts):
        out = []
        for st in stmts:
            if isinstance(st, ast.For):
                it = st.iter
                ok = (isinstance(st.target, ast.Name) and isinstance(it, ast.Call) and isinstance(it.func, ast.Name)
                      and it.func.id == 'range' and 1 <= len(it.args) <= 2
                      and all(isinstance(a, ast.Constant) and type(a.value) is int for a in it.args) and not st.orelse)
                if not ok:
                    raise P.Untranslatable('loop is not `for i in range(<literal>, <literal>)`')
                for x in ast.walk(st):
                    if isinstance(x, (ast.Break, ast.Continue)):
                        raise P.Untranslatable('break/continue in unrolled loop')
                lo, hi = (0, it.args[0].value) if len(it.args) == 1 else (it.args[0].value, it.args[1].value)
                if hi - lo > 16:
                    raise P.Untranslatable('loop too long to unroll')
                for k in range(lo, hi):
                    for b in go(st.body):
                        out.append(Sub(st.target.id, k).visit(copy.deepcopy(b)))
            elif isinstance(st, ast.If):
                out.append(ast.If(test=st.test, body=go(st.body), orelse=go(st.orelse)))
            else:
                out.append(st)
        return out

    new = copy.deepcopy(fnode)
    new.body = [Tbl().visit(s) for s in go(body)]
    ast.fix_missing_locations(new)
    return new


# ----------------------------------------------------------------------------- method slices
PRE_OK = [
    r'""".*"""', r"'.*'", r'".*"',                       # docstring (as unparsed)
    r"if isinstance\(value_dt, Date\) is False:\n\s+raise FinError\(.*\)",
    r"if value_dt > self\.\w+:\n\s+raise FinError\(.*\)",
    r"if \w+\.value_dt != value_dt:\n\s+raise FinError\(.*\)",
    r"DEBUG_MODE = False",
    r"(t|tc|tu|tp|t_exp) = \(self\.\w+ - value_dt\) / g_days_in_year",
]
DROP_DEBUG = r"if DEBUG_MODE:\n(\s+print\(.*\)\n?)+"


def _match(pats, txt):
    return any(re.fullmatch(p, txt, re.S) for p in pats)


def method_slice(P, tree, qualname, start, pre_ok_extra, drops, stop=None):
    """Body of `qualname` from the first statement whose text equals/matches `start`, without the statements
    matching `drops` (dict pattern -> tuple of names it binds).  Returns (FunctionDef, bound names)."""
    f = P.find_function(tree, qualname)
    f = _StripAny().visit(copy.deepcopy(f))
    body = f.body
    idx = None
    for i, st in enumerate(body):
        if re.fullmatch(start, ast.unparse(st), re.S):
            idx = i
            break
    if idx is None:
        raise P.Untranslatable(f'{qualname}: start of the numerical slice not found ({start})')
    for st in body[:idx]:
        txt = ast.unparse(st)
        if isinstance(st, ast.Expr) and isinstance(st.value, ast.Constant):
            continue
        if not _match(PRE_OK + list(pre_ok_extra), txt):
            raise P.Untranslatable(f'{qualname}: unexpected statement before the numerical slice: {txt[:80]!r}')
    kept, bound = [], []
    for st in body[idx:]:
        txt = ast.unparse(st)
        if stop is not None and re.fullmatch(stop, txt, re.S):
            break
        hit = None
        for pat, names in drops.items():
            if re.fullmatch(pat, txt, re.S):
                hit = names
                break
        if hit is not None:
            bound += list(hit)
            continue
        kept.append(st)
    g = copy.deepcopy(f)
    g.body = simplify_body(kept)
    ast.fix_missing_locations(g)
    return g


def enum_codes(S, relpath, cls):
    """member name -> integer code: the value when it is an int, else the 1-based position (used for enums whose
    values are not ints, e.g. `CASH_OR_NOTHING = (1,)`).  The harness uses the same coding."""
    members = S.enum_members(relpath, cls)
    codes = {}
    for i, (k, v) in enumerate(members.items()):
        codes[k] = v if (isinstance(v, int) and not isinstance(v, bool)) else i + 1
    if len(set(codes.values())) != len(codes):
        raise ValueError(f'enum {cls}: codes are not distinct')
    return codes


def build_exotic(kind):
    def build(P, S):
        from py2lean import FuncSpec, Translator, Dialect, INT, NUM, find_function
        consts = dict(S.module_consts(MATH_PY))
        consts.update(S.module_consts(GV_PY))
        consts.update(S.module_consts(GT_PY))
        for cls, path in [('FinFXBarrierTypes', FXBAR_PY), ('FinDigitalOptionTypes', EQDIG_PY),
                          ('EquityRainbowOptionTypes', EQRBW_PY)]:
            for k, v in enum_codes(S, path, cls).items():
                consts[f'{cls}.{k}'] = v
                consts[f'{cls}.{k}.value'] = v
        tr = Translator(Dialect(kind), consts)
        out = []
        math_kernels(tr, S, out)

        def emit(fnode, spec):
            out.append(tr.function(fnode, spec))
            tr.funcs[spec.py_name] = spec

        # ---- value_barrier (whole function)
        tree = S.parse(BARRIER_PY)
        f = copy.deepcopy(find_function(tree, 'value_barrier'))
        f.body = simplify_body(f.body)
        ast.fix_missing_locations(f)
        emit(f, FuncSpec('value_barrier', 'value_barrier',
                         [('t', NUM), ('k', NUM), ('h', NUM), ('s', NUM), ('r', NUM), ('q', NUM), ('v', NUM),
                          ('option_type', INT), ('nobs', INT)], NUM))

        # ---- FXBarrierOption.value
        tree = S.parse(FXBAR_PY)
        f = method_slice(P, tree, 'FXBarrierOption.value', r'K = self\.strike_fx_rate', [],
                         {r'dq = foreign_curve\.df_t\(t\)': ('dq',), r'df = domestic_curve\.df_t\(t\)': ('df',),
                          r't = \(self\.expiry_dt - value_dt\) / g_days_in_year': ('t',)})
        emit(f, FuncSpec('fx_barrier_value', 'fx_barrier_value',
                         [('t', NUM), ('spot_fx_rate', NUM), ('dq', NUM), ('df', NUM)], NUM,
                         attr_map={'self.strike_fx_rate': ('strike_fx_rate', NUM), 'self.barrier_level': ('barrier_level', NUM),
                                   'self.option_type': ('option_type', INT), 'self.num_obs_per_year': ('num_obs_per_year', INT),
                                   'model.volatility': ('volatility', NUM)},
                         extra_params=[('strike_fx_rate', NUM), ('barrier_level', NUM), ('volatility', NUM),
                                       ('option_type', INT), ('num_obs_per_year', INT)]))

        # ---- one-touch (equity, FX)
        for path, cls, lname, spot, attrs, drops in [
            (EQOT_PY, 'EquityOneTouchOption', 'eq_one_touch_value', 'stock_price',
             {'self.barrier_price': ('barrier', NUM)},
             {r'df = discount_curve\.df\(self\.expiry_dt\)': ('df',),
              r'r = discount_curve\.cc_rate\(self\.expiry_dt\)': ('r',),
              r'q = dividend_curve\.cc_rate\(self\.expiry_dt\)': ('q',)}),
            (FXOT_PY, 'FXOneTouchOption', 'fx_one_touch_value', 'spot_fx_rate',
             {'self.barrier_rate': ('barrier', NUM)},
             {r'df = domestic_curve\.df\(self\.expiry_dt\)': ('df',),
              r'r_d = domestic_curve\.cc_rate\(self\.expiry_dt\)': ('r_d',),
              r'r_f = foreign_curve\.cc_rate\(self\.expiry_dt\)': ('r_f',)}),
        ]:
            tree = S.parse(path)
            drops = dict(drops)
            drops[DROP_DEBUG] = ()
            f = method_slice(P, tree, cls + '.value', r't = max\(t, 1e-06\)', [], drops)
            rn, qn = ('r', 'q') if 'r' in [n for v in drops.values() for n in v] else ('r_d', 'r_f')
            am = {'self.payment_size': ('payment_size', NUM), 'self.option_type': ('option_type', INT),
                  'model.volatility': ('volatility', NUM)}
            am.update(attrs)
            emit(f, FuncSpec(cls + '.value', lname, [('t', NUM), (spot, NUM), ('df', NUM), (rn, NUM), (qn, NUM)], NUM,
                             attr_map=am,
                             extra_params=[('barrier', NUM), ('payment_size', NUM), ('volatility', NUM), ('option_type', INT)]))

        # ---- equity digital
        tree = S.parse(EQDIG_PY)
        f = method_slice(P, tree, 'EquityDigitalOption.value', r't = max\(t, 1e-06\)', [],
                         {r'df = discount_curve\.df\(self\.expiry_dt\)': ('df',),
                          r'dq = dividend_curve\.df\(self\.expiry_dt\)': ('dq',)})
        emit(f, FuncSpec('EquityDigitalOption.value', 'eq_digital_value', [('t', NUM), ('s', NUM), ('df', NUM), ('dq', NUM)], NUM,
                         attr_map={'self.barrier': ('barrier', NUM), 'model.volatility': ('volatility0', NUM),
                                   'self.call_put_type': ('call_put_type', INT), 'self.digital_type': ('digital_type', INT)},
                         extra_params=[('barrier', NUM), ('volatility0', NUM), ('call_put_type', INT), ('digital_type', INT)]))

        # ---- lookbacks (equity)
        tree = S.parse(EQFIX_PY)
        f = method_slice(P, tree, 'EquityFixedLookbackOption.value', r'r = -np\.log\(df\) / t', [r'df = discount_curve\.df\(self\.expiry_dt\)'],
                         {r'dq = dividend_curve\.df\(self\.expiry_dt\)': ('dq',)})
        emit(f, FuncSpec('EquityFixedLookbackOption.value', 'eq_fixed_lookback_value',
                         [('t', NUM), ('stock_price', NUM), ('df', NUM), ('dq', NUM), ('volatility', NUM), ('stock_min_max', NUM)], NUM,
                         attr_map={'self.strike_price': ('strike_price', NUM), 'self.option_type': ('option_type', INT)},
                         extra_params=[('strike_price', NUM), ('option_type', INT)]))
        tree = S.parse(EQFLT_PY)
        f = method_slice(P, tree, 'EquityFloatLookbackOption.value', r'v = volatility',
                         [r'df = discount_curve\.df\(self\.expiry_dt\)', r'r = discount_curve\.cc_rate\(self\.expiry_dt\)',
                          r'q = dividend_curve\.cc_rate\(self\.expiry_dt\)'], {})
        emit(f, FuncSpec('EquityFloatLookbackOption.value', 'eq_float_lookback_value',
                         [('t', NUM), ('stock_price', NUM), ('r', NUM), ('q', NUM), ('volatility', NUM), ('stock_min_max', NUM)], NUM,
                         attr_map={'self.option_type': ('option_type', INT)}, extra_params=[('option_type', INT)]))

        # ---- bivariate normal (loops unrolled)
        tree = S.parse(MATH_PY)
        f = unroll(find_function(tree, 'phi2'), P)
        emit(f, FuncSpec('phi2', 'phi2', [('h1', NUM), ('hk', NUM), ('r', NUM)], NUM))
        emit(find_function(tree, 'M'), FuncSpec('M', 'M', [('a', NUM), ('b', NUM), ('c', NUM)], NUM))

        # ---- compound (European/European closed form, given the critical price sstar)
        tree = S.parse(EQCMP_PY)
        f = method_slice(P, tree, 'EquityCompoundOption.value', r's0 = stock_price',
                         [r'if self\.c_option_type == OptionTypes\.AMERICAN_CALL or .*:\n\s+v = self\._value_tree\(.*\)\n\s+return v\[0\]',
                          r'(tc|tu) = \(self\.\w+ - value_dt\) / g_days_in_year'],
                         {r'df = discount_curve\.df\(self\.u_expiry_dt\)': ('df',),
                          r'dq = dividend_curve\.df\(self\.u_expiry_dt\)': ('dq',),
                          r'sstar = self\._implied_stock_price\(.*\)': ('sstar',)})
        emit(f, FuncSpec('EquityCompoundOption.value', 'eq_compound_value',
                         [('tc', NUM), ('tu', NUM), ('stock_price', NUM), ('df', NUM), ('dq', NUM), ('sstar', NUM)], NUM,
                         attr_map={'self.c_strike_price': ('c_strike', NUM), 'self.u_strike_price': ('u_strike', NUM),
                                   'self.c_option_type': ('c_option_type', INT), 'self.u_option_type': ('u_option_type', INT),
                                   'model.volatility': ('volatility', NUM)},
                         extra_params=[('c_strike', NUM), ('u_strike', NUM), ('volatility', NUM),
                                       ('c_option_type', INT), ('u_option_type', INT)]))

        # ---- chooser (closed form, given the critical price istar)
        tree = S.parse(EQCHO_PY)
        f = method_slice(P, tree, 'EquityChooserOption.value', r't = max\(t, g_small\)',
                         [r'(rt|rtc|rtp) = discount_curve\.cc_rate\(self\.\w+\)', r'q = dividend_curve\.cc_rate\(self\.chooseDate\)'],
                         {DROP_DEBUG: (), r'argtuple = \(.*\)': (), r'istar = optimize\.newton\(.*\)': ('istar',)})
        emit(f, FuncSpec('EquityChooserOption.value', 'eq_chooser_value',
                         [('t', NUM), ('tc', NUM), ('tp', NUM), ('rt', NUM), ('rtc', NUM), ('rtp', NUM), ('q', NUM),
                          ('stock_price', NUM), ('istar', NUM)], NUM,
                         attr_map={'self.call_strike': ('call_strike', NUM), 'self.put_strike': ('put_strike', NUM),
                                   'model.volatility': ('volatility', NUM)},
                         extra_params=[('call_strike', NUM), ('put_strike', NUM), ('volatility', NUM)]))

        # ---- two-asset rainbow (Stulz)
        tree = S.parse(EQRBW_PY)
        f = method_slice(P, tree, 'EquityRainbowOption.value', r'b1 = r - q1',
                         [r'if self\.num_assets != 2:\n\s+raise FinError\(.*\)', r'if corr_matrix\.\w+(\[\d\])? != 2:\n\s+raise FinError\(.*\)',
                          r'r = discount_curve\.zero_rate\(self\.expiry_dt\)', r'q[12] = dividend_curves\[[01]\]\.zero_rate\(self\.expiry_dt\)',
                          r'dividend_yields = \[q1, q2\]', r'self\._validate\(stock_prices, dividend_yields, volatilities, corr_matrix\)',
                          r'rho = corr_matrix\[0\]\[1\]', r's[12] = stock_prices\[[01]\]'],
                         {r'v[12] = volatilities\[[01]\]': ('v',), r'k = self\.payoff_params\[0\]': ('k',)})
        emit(f, FuncSpec('EquityRainbowOption.value', 'eq_rainbow_value',
                         [('t', NUM), ('r', NUM), ('q1', NUM), ('q2', NUM), ('rho', NUM), ('s1', NUM), ('s2', NUM),
                          ('v1', NUM), ('v2', NUM), ('k', NUM)], NUM,
                         attr_map={'self.payoff_type': ('payoff_type', INT)}, extra_params=[('payoff_type', INT)]))

        ns = 'ExoticF' if kind == 'float' else 'ExoticR'
        body = prelude(ns, kind) + '\n'.join(out) + f'\nend FinVerif.Gen.{ns}\n'
        srcs = [BARRIER_PY, FXBAR_PY, EQOT_PY, FXOT_PY, EQDIG_PY, EQFIX_PY, EQFLT_PY, EQCMP_PY, EQCHO_PY, EQRBW_PY,
                MATH_PY, GT_PY, GV_PY]
        return srcs, body
    return build


MODULES = {'ExoticF': build_exotic('float'), 'ExoticR': build_exotic('real')}
