"""Second batch of generated models for the closed-form exotics (property C11): Float (Exotic2F) and Real (Exotic2R).

  eq_asian_geometric_value   products/equity/equity_asian_option.py     EquityAsianOption._value_geometric  (slice)
  fx_double_digital_value    products/fx/fx_double_digital_option.py    FXDoubleDigitalOption.value         (slice)
  fx_digital_value           products/fx/fx_digital_option.py           FXDigitalOption.value               (slice)
  fx_fixed_lookback_value    products/fx/fx_fixed_lookback_option.py    FXFixedLookbackOption.value         (slice)
  fx_float_lookback_value    products/fx/fx_float_lookback_option.py    FXFloatLookbackOption.value         (slice)

Same machinery as registry/exotics.py (method slices with whitelisted prologue / dropped curve reads; nothing here changes
`py2lean.py`).  Two more source-to-source rewrites, each refusing any other shape:
  * `if isinstance(model, BlackScholes): <body>` (no else)  ->  `<body>`   (the model IS a BlackScholes object: precondition,
    exercised by the product-class correspondence which only passes BlackScholes models);
  * the string comparisons `self.prem_currency == self.for_name` / `self.prem_currency == self.dom_name` (either order)
    ->  `prem_is_for == 1` / `prem_is_dom == 1` (two integer flags computed by the harness from the same attributes).
`accrued_average` is declared a number, so `accrued_average is None` is `false` in the model (the harness passes a number
whenever the averaging period has started)."""
from __future__ import annotations

import ast
import copy

from registry.bs import prelude, math_kernels, MATH_PY, GT_PY, GV_PY
from registry.exotics import method_slice, simplify_body

ASIAN_PY = 'financepy/products/equity/equity_asian_option.py'
FXDD_PY = 'financepy/products/fx/fx_double_digital_option.py'
FXDIG_PY = 'financepy/products/fx/fx_digital_option.py'
FXFIX_PY = 'financepy/products/fx/fx_fixed_lookback_option.py'
FXFLT_PY = 'financepy/products/fx/fx_float_lookback_option.py'


class _PremFlags(ast.NodeTransformer):
    """self.prem_currency == self.for_name  ->  prem_is_for == 1   (and dom)"""

    def visit_Compare(self, n):
        self.generic_visit(n)
        if len(n.ops) == 1 and isinstance(n.ops[0], ast.Eq):
            txt = {ast.unparse(n.left), ast.unparse(n.comparators[0])}
            for other, flag in (('self.for_name', 'prem_is_for'), ('self.dom_name', 'prem_is_dom')):
                if txt == {'self.prem_currency', other}:
                    return ast.Compare(left=ast.Name(id=flag, ctx=ast.Load()), ops=[ast.Eq()], comparators=[ast.Constant(value=1)])
        return n


def unwrap_model_test(P, stmts):
    out = []
    for st in stmts:
        if isinstance(st, ast.If) and ast.unparse(st.test) == 'isinstance(model, BlackScholes)':
            if st.orelse:
                raise P.Untranslatable('isinstance(model, BlackScholes) with an else branch')
            out += st.body
        else:
            out.append(st)
    for st in out:
        for x in ast.walk(st):
            if isinstance(x, ast.Call) and ast.unparse(x.func) == 'isinstance':
                raise P.Untranslatable('unexpected isinstance test inside the numerical slice')
    return out


FX_PRE = [
    r"if isinstance\(value_dt, Date\):\n\s+spot_dt = value_dt\.add_weekdays\(self\.spot_days\)\n\s+t_del = \(self\.delivery_dt - spot_dt\) / g_days_in_year\n"
    r"\s+t_exp = \(self\.expiry_dt - value_dt\) / g_days_in_year\nelse:\n\s+t_del = value_dt\n\s+t_exp = t_del",
    r"if np\.any\(spot_fx_rate <= 0\.0\):\n\s+raise FinError\(.*\)",
    r"if np\.any\(t_del < 0\.0\):\n\s+raise FinError\(.*\)",
    r"if spot_fx_rate <= 0\.0:\n\s+raise FinError\(.*\)",
    r"if t_del < 0\.0:\n\s+raise FinError\(.*\)",
]


def build_exotic2(kind):
    def build(P, S):
        from py2lean import FuncSpec, Translator, Dialect, INT, NUM
        consts = dict(S.module_consts(MATH_PY))
        consts.update(S.module_consts(GV_PY))
        consts.update(S.module_consts(GT_PY))
        tr = Translator(Dialect(kind), consts)
        out = []
        math_kernels(tr, S, out)

        def emit(fnode, spec):
            out.append(tr.function(fnode, spec))
            tr.funcs[spec.py_name] = spec

        # ---- geometric Asian (Kemna-Vorst)
        tree = S.parse(ASIAN_PY)
        f = method_slice(P, tree, 'EquityAsianOption._value_geometric', r'volatility = model\.volatility',
                         [r't0 = \(self\.start_averaging_date - value_dt\) / g_days_in_year',
                          r'tau = \(self\.expiry_dt - self\.start_averaging_date\) / g_days_in_year',
                          r'r = discount_curve\.cc_rate\(self\.expiry_dt\)', r'q = dividend_curve\.cc_rate\(self\.expiry_dt\)'], {})
        emit(f, FuncSpec('EquityAsianOption._value_geometric', 'eq_asian_geometric_value',
                         [('t0', NUM), ('t_exp', NUM), ('tau', NUM), ('r', NUM), ('q', NUM), ('stock_price', NUM), ('accrued_average', NUM)], NUM,
                         attr_map={'model.volatility': ('volatility0', NUM), 'self.strike_price': ('strike_price', NUM),
                                   'self.num_observations': ('num_observations', NUM), 'self.option_type': ('option_type', INT)},
                         extra_params=[('volatility0', NUM), ('strike_price', NUM), ('num_observations', NUM), ('option_type', INT)]))

        # ---- FX double digital, FX digital
        for path, cls, lname, am, extra in [
            (FXDD_PY, 'FXDoubleDigitalOption', 'fx_double_digital_value',
             {'self.lower_strike': ('lower_strike', NUM), 'self.upper_strike': ('upper_strike', NUM)},
             [('lower_strike', NUM), ('upper_strike', NUM)]),
            (FXDIG_PY, 'FXDigitalOption', 'fx_digital_value',
             {'self.strike_fx_rate': ('strike_fx_rate', NUM), 'self.option_type': ('option_type', INT)},
             [('strike_fx_rate', NUM), ('option_type', INT)]),
        ]:
            tree = S.parse(path)
            f = method_slice(P, tree, cls + '.value', r't_del = np\.maximum\(t_del, 1e-10\)', FX_PRE,
                             {r'dom_df = domestic_curve\.df_t\(t_del\)': ('dom_df',), r'for_df = foreign_curve\.df_t\(t_del\)': ('for_df',)})
            f.body = unwrap_model_test(P, f.body)
            f = _PremFlags().visit(f)
            ast.fix_missing_locations(f)
            am = dict(am)
            am.update({'model.volatility': ('volatility0', NUM), 'self.notional': ('notional', NUM)})
            emit(f, FuncSpec(cls + '.value', lname,
                             [('t_del', NUM), ('t_exp', NUM), ('spot_fx_rate', NUM), ('dom_df', NUM), ('for_df', NUM),
                              ('prem_is_for', INT), ('prem_is_dom', INT)], NUM,
                             attr_map=am, extra_params=[('volatility0', NUM), ('notional', NUM)] + extra))

        # ---- FX lookbacks (own copies of the Goldman-Sosin-Gatto / Conze-Viswanathan formulas)
        tree = S.parse(FXFIX_PY)
        f = method_slice(P, tree, 'FXFixedLookbackOption.value', r'r = -np\.log\(df\) / t', [r'df = domestic_curve\.df\(self\.expiry_dt\)'],
                         {r'dq = foreign_curve\.df\(self\.expiry_dt\)': ('dq',)})
        emit(f, FuncSpec('FXFixedLookbackOption.value', 'fx_fixed_lookback_value',
                         [('t', NUM), ('stock_price', NUM), ('df', NUM), ('dq', NUM), ('volatility', NUM), ('stock_min_max', NUM)], NUM,
                         attr_map={'self.option_strike': ('option_strike', NUM), 'self.option_type': ('option_type', INT)},
                         extra_params=[('option_strike', NUM), ('option_type', INT)]))
        tree = S.parse(FXFLT_PY)
        f = method_slice(P, tree, 'FXFloatLookbackOption.value', r'r = -np\.log\(df\) / t', [r'df = domestic_curve\.df_t\(t\)'],
                         {r'dq = foreign_curve\.df_t\(t\)': ('dq',)})
        emit(f, FuncSpec('FXFloatLookbackOption.value', 'fx_float_lookback_value',
                         [('t', NUM), ('stock_price', NUM), ('df', NUM), ('dq', NUM), ('volatility', NUM), ('stock_min_max', NUM)], NUM,
                         attr_map={'self.option_type': ('option_type', INT)}, extra_params=[('option_type', INT)]))

        ns = 'Exotic2F' if kind == 'float' else 'Exotic2R'
        body = prelude(ns, kind) + '\n'.join(out) + f'\nend FinVerif.Gen.{ns}\n'
        srcs = [ASIAN_PY, FXDD_PY, FXDIG_PY, FXFIX_PY, FXFLT_PY, MATH_PY, GT_PY, GV_PY]
        return srcs, body
    return build


MODULES = {'Exotic2F': build_exotic2('float'), 'Exotic2R': build_exotic2('real')}
