"""FdLoopR — `financepy/models/finite_difference.py` read ROW-WISE and loop-wise (ℝ / Int, for Props/C12f).

The source is vectorised NumPy; the translator takes neither arrays nor loops.  What is cut out here:

  dx, dxx            the array expressions are read per row: `x` -> the node, `np.roll(x, 1)` -> the previous node `xm`,
                     `np.roll(x, -1)` -> the next node `xp`; `np.array((e0, e1, e2)) / DEN` followed by `.T` -> the three
                     bands `(e0 / DEN, e1 / DEN, e2 / DEN)` of one row (fd_dx_row, fd_dxx_row); the overwritten first and
                     last rows `out[0] = (…); out[0] /= DEN` (fd_dx_first, fd_dx_last, fd_dxx_first, fd_dxx_last); the
                     `wind` tests that select the branches (fd_dx_sel)
  calculate_fd_matrix  `A = …(mu.T * Dx + 0.5 * var.T * Dxx)` per band (fd_matrix_band), `mm = Dx.shape[1] // 2` with the
                     band count 3 (fd_matrix_mm), the term of `A[:, mm] += …` (fd_matrix_diag_add)
  fd_roll_backwards  the two `theta` guards, their order (explicit product first), `mm`, the `range(num_vectors)` headers
  black_scholes_fd   node count, step count and dt, the header of `for h in range(num_steps)`, the rebuild guard
                     `update or h == 0`, the theta guards, the (dt, theta) arguments of the two calculate_fd_matrix calls,
                     the American test, the projection `idx = res[0] < payoff[0]; res[0][idx] = payoff[0][idx]` per node
                     (fd_project), the subscript of the returned node (fd_result_idx)

Every glue statement that is not translated is pinned by its exact source text; anything else raises Untranslatable.
"""
from __future__ import annotations

import ast
import copy

from registry.bs import prelude
from registry.crrloops import U, _name, _assign, _fn, _range_stmts, _plain, _one, _is_assign_to

FD_PY = 'financepy/models/finite_difference.py'
TYPES_PY = 'financepy/utils/global_types.py'
SOURCES = [FD_PY, TYPES_PY]


class _Sub(ast.NodeTransformer):
    """replace sub-expressions by exact source text; any np.* call / subscript / attribute left over is an error"""

    def __init__(self, P, what, table):
        self.P, self.what, self.table = P, what, table
        self.n = {k: 0 for k in table}

    def visit(self, node):
        if isinstance(node, ast.expr):
            t = U(node)
            if t in self.table:
                self.n[t] += 1
                return ast.copy_location(_name(self.table[t]), node)
            if isinstance(node, (ast.Subscript, ast.Attribute, ast.Call)):
                raise self.P.Untranslatable(f'{self.what}: unexpected array expression `{t}`')
        return super().visit(node)


def _sub(P, node, what, table, need=()):
    s = _Sub(P, what, table)
    out = s.visit(copy.deepcopy(node))
    miss = [k for k in need if s.n[k] == 0]
    if miss:
        raise P.Untranslatable(f'{what}: expected sub-expression(s) {miss} not found in `{U(node)}`')
    ast.fix_missing_locations(out)
    return out


def _body(f):
    return [s for s in f.body if not (isinstance(s, ast.Expr) and isinstance(s.value, ast.Constant))]


def _text(P, stmts, text, what):
    hits = [i for i, s in enumerate(stmts) if U(s) == text]
    if len(hits) != 1:
        raise P.Untranslatable(f'{what}: expected exactly one statement `{text}`, found {len(hits)}')
    return hits[0]


def _triple_over(P, value, what):
    """`np.array((e0, e1, e2)) / DEN` (tuple or list) -> ([e0, e1, e2], DEN)"""
    if not (isinstance(value, ast.BinOp) and isinstance(value.op, ast.Div) and isinstance(value.left, ast.Call)
            and U(value.left.func) == 'np.array' and len(value.left.args) == 1 and not value.left.keywords
            and isinstance(value.left.args[0], (ast.Tuple, ast.List)) and len(value.left.args[0].elts) == 3):
        raise P.Untranslatable(f'{what}: `{U(value)}` is not `np.array((e0, e1, e2)) / DEN`')
    return list(value.left.args[0].elts), value.right


def _edge_row(P, stmts, row, what):
    """`out[row] = (c0, c1, c2)` optionally followed by `out[row] /= DEN` -> ([c0, c1, c2], DEN or None)"""
    tgt = f'out[{row}]'
    if not stmts or not (isinstance(stmts[0], ast.Assign) and U(stmts[0].targets[0]) == tgt
                         and isinstance(stmts[0].value, ast.Tuple) and len(stmts[0].value.elts) == 3):
        raise P.Untranslatable(f'{what}: expected `{tgt} = (c0, c1, c2)`')
    if len(stmts) == 1:
        return list(stmts[0].value.elts), None
    if len(stmts) == 2 and isinstance(stmts[1], ast.AugAssign) and U(stmts[1].target) == tgt and isinstance(stmts[1].op, ast.Div):
        return list(stmts[0].value.elts), stmts[1].value
    raise P.Untranslatable(f'{what}: unexpected statements after `{tgt} = …`')


def _bands(elts, den):
    return [_assign(n, ast.BinOp(left=e, op=ast.Div(), right=copy.deepcopy(den)) if den is not None else e)
            for n, e in zip(['a', 'b', 'c'], elts)]


def _sel(P, ifnode, var, what):
    """an if / elif / else chain on `var`: the tests are kept, every body becomes `sel = k` (k = branch number)"""
    k, node, root = 0, ifnode, None
    cur = None
    while True:
        new = ast.If(test=copy.deepcopy(node.test), body=[_assign('sel', ast.Constant(k))], orelse=[])
        names = {x.id for x in ast.walk(node.test) if isinstance(x, ast.Name)}
        if names != {var}:
            raise P.Untranslatable(f'{what}: test `{U(node.test)}` is not a test of `{var}` only')
        if root is None:
            root = new
        else:
            cur.orelse = [new]
        cur = new
        k += 1
        if len(node.orelse) == 1 and isinstance(node.orelse[0], ast.If):
            node = node.orelse[0]
        else:
            cur.orelse = [_assign('sel', ast.Constant(k))]
            return root, k + 1


def _branches(ifnode):
    out, node = [], ifnode
    while True:
        out.append(node.body)
        if len(node.orelse) == 1 and isinstance(node.orelse[0], ast.If):
            node = node.orelse[0]
        else:
            out.append(node.orelse)
            return out


class _InSet(ast.NodeTransformer):
    """`x in {a, b}` -> `x == a or x == b`;  `a or b` on integers (`num_time_steps or …`) is handled by the caller"""

    def visit_Compare(self, node):
        if len(node.ops) == 1 and isinstance(node.ops[0], ast.In) and isinstance(node.comparators[0], ast.Set):
            return ast.BoolOp(op=ast.Or(), values=[ast.Compare(left=copy.deepcopy(node.left), ops=[ast.Eq()], comparators=[e])
                                                  for e in node.comparators[0].elts])
        return node


def build_fd(kind):
    def build(P, S):
        from py2lean import FuncSpec, Translator, Dialect, NUM, INT, BOOL, find_function
        Un = P.Untranslatable
        consts = dict(S.module_consts(TYPES_PY))
        tr = Translator(Dialect(kind), consts)
        out = []
        tree = S.parse(FD_PY)

        def emit(name, stmts, rets, params, ret, doc=''):
            out.append(tr.function(_fn(name, stmts, rets), FuncSpec(f'finite_difference[{name}]', name, params, ret, doc=doc)))

        T3 = 'tuple:num,num,num'
        # ------------------------------------------------------------------------------------------------------- dx
        w = 'dx'
        b = _body(find_function(tree, w))
        roll = {'x': 'x', 'np.roll(x, 1)': 'xm', 'np.roll(x, -1)': 'xp'}
        i_l, st_l = _one(P, b, _is_assign_to('dxl'), w, '`dxl = …`')
        i_u, st_u = _one(P, b, _is_assign_to('dxu'), w, '`dxu = …`')
        if (i_l, i_u) != (0, 1):
            raise Un(f'{w}: dxl / dxu are not the first two statements')
        dxl = _sub(P, st_l, w, roll, need=['x', 'np.roll(x, 1)'])
        dxu = _sub(P, st_u, w, roll, need=['x', 'np.roll(x, -1)'])
        ifs = [s for s in b if isinstance(s, ast.If)]
        if len(ifs) != 3 or [type(s) for s in b[2:]] != [ast.If, ast.If, ast.If, ast.Return] or U(b[-1]) != 'return out':
            raise Un(f'{w}: expected dxl, dxu, three `if wind …` statements, `return out`')
        sel_mid, n_mid = _sel(P, ifs[0], 'wind', w)
        sel_first, n_first = _sel(P, ifs[1], 'wind', w)
        sel_last, n_last = _sel(P, ifs[2], 'wind', w)
        if (n_mid, n_first, n_last) != (3, 2, 2):
            raise Un(f'{w}: branch counts {(n_mid, n_first, n_last)} are not (3, 2, 2)')
        sel_stmts = []
        for nm, s in [('mid', sel_mid), ('first', sel_first), ('last', sel_last)]:
            sel_stmts += [s, _assign(nm, _name('sel'))]
        emit('fd_dx_sel', sel_stmts, ['mid', 'first', 'last'], [('wind', INT)], 'tuple:int,int,int',
             doc='which branch of the three `if wind …` statements of dx is taken (branch numbers from 0, in source order)')
        mid = _branches(ifs[0])[1]
        if len(mid) != 2 or not _is_assign_to('intermediate_rows')(mid[0]) or U(mid[1]) != 'out = intermediate_rows.T':
            raise Un(f'{w}: the second branch is not `intermediate_rows = …; out = intermediate_rows.T`')
        elts, den = _triple_over(P, mid[0].value, w)
        nosub = {}
        emit('fd_dx_row', [dxl, dxu] + [_sub(P, s, w, nosub) for s in _bands(elts, den)], ['a', 'b', 'c'],
             [('xm', NUM), ('x', NUM), ('xp', NUM)], T3,
             doc='one INTERIOR row (sub, diag, super) of dx(x, wind) in branch 1 of the first `if`: xm = np.roll(x, 1), xp = np.roll(x, -1) at that row')
        elts, den = _edge_row(P, _branches(ifs[1])[0], '0', w + ' first row')
        emit('fd_dx_first', [_sub(P, s, w + ' first row', {'x[0]': 'x0', 'x[1]': 'x1'}, need=['x[0]', 'x[1]']) for s in _bands(elts, den)],
             ['a', 'b', 'c'], [('x0', NUM), ('x1', NUM)], T3, doc='row 0 of dx in branch 0 of the second `if`')
        elts, den = _edge_row(P, _branches(ifs[2])[0], '-1', w + ' last row')
        emit('fd_dx_last', [_sub(P, s, w + ' last row', {'x[-1]': 'xlast', 'x[-2]': 'xprev'}, need=['x[-1]', 'x[-2]']) for s in _bands(elts, den)],
             ['a', 'b', 'c'], [('xprev', NUM), ('xlast', NUM)], T3, doc='row -1 of dx in branch 0 of the third `if`')
        # ------------------------------------------------------------------------------------------------------ dxx
        w = 'dxx'
        b = _body(find_function(tree, w))
        if len(b) != 7 or not _is_assign_to('dxl')(b[0]) or not _is_assign_to('dxu')(b[1]) or not _is_assign_to('intermediate_rows')(b[2]) \
                or U(b[3]) != 'out = intermediate_rows.T' or U(b[6]) != 'return out':
            raise Un(f'{w}: statement frame changed')
        dxl2 = _sub(P, b[0], w, roll, need=['x', 'np.roll(x, 1)'])
        dxu2 = _sub(P, b[1], w, roll, need=['x', 'np.roll(x, -1)'])
        elts, den = _triple_over(P, b[2].value, w)
        emit('fd_dxx_row', [dxl2, dxu2] + [_sub(P, s, w, nosub) for s in _bands(elts, den)], ['a', 'b', 'c'],
             [('xm', NUM), ('x', NUM), ('xp', NUM)], T3, doc='one INTERIOR row (sub, diag, super) of dxx(x)')
        for k, row, nm in [(4, '0', 'fd_dxx_first'), (5, '-1', 'fd_dxx_last')]:
            elts, den = _edge_row(P, [b[k]], row, w)
            emit(nm, [_sub(P, s, w, nosub) for s in _bands(elts, den)], ['a', 'b', 'c'], [], 'tuple:int,int,int', doc=f'row {row} of dxx')
        # -------------------------------------------------------------------------------------- calculate_fd_matrix
        w = 'calculate_fd_matrix'
        b = _body(find_function(tree, w))
        _text(P, b, 'Dxx = dxx(x)', w)
        _text(P, b, 'mu = np.atleast_2d(mu)', w)
        _text(P, b, 'var = np.atleast_2d(var)', w)
        i_if = [i for i, s in enumerate(b) if isinstance(s, ast.If) and U(s.test) == 'wind == 0']
        if len(i_if) != 1 or [U(s) for s in b[i_if[0]].body] != ['Dx = dx(x, 0)']:
            raise Un(f'{w}: `if wind == 0: Dx = dx(x, 0)` not found')
        i_A, st_A = _one(P, b, _is_assign_to('A'), w, '`A = …`')
        i_mm, st_mm = _one(P, b, _is_assign_to('mm'), w, '`mm = …`')
        if [type(s) for s in b[i_A:]] != [ast.Assign, ast.AugAssign, ast.Return] or U(b[-1]) != 'return A' or i_mm != i_A - 1:
            raise Un(f'{w}: expected `mm = …; A = …; A[:, mm] += …; return A` at the end')
        aug = b[i_A + 1]
        if U(aug.target) != 'A[:, mm]' or not isinstance(aug.op, ast.Add):
            raise Un(f'{w}: `{U(aug)}` is not `A[:, mm] += …`')
        band = {'mu.T': 'mu', 'var.T': 'var', 'Dx': 'd1', 'Dxx': 'd2', 'dt': 'dt', 'theta': 'theta'}
        emit('fd_matrix_band', [_sub(P, st_A, w, band, need=['mu.T', 'var.T', 'Dx', 'Dxx'])], ['A'],
             [('dt', NUM), ('theta', NUM), ('mu', NUM), ('var', NUM), ('d1', NUM), ('d2', NUM)], NUM,
             doc='one entry of `A = …`: mu / var = the coefficients of the row, d1 / d2 = the entries of Dx / Dxx in the same row and band')
        emit('fd_matrix_mm', [_sub(P, st_mm, w, {'Dx.shape[1]': 'nbands'}, need=['Dx.shape[1]'])], ['mm'], [('nbands', INT)], INT,
             doc='the column that receives `1 - dt theta r` (nbands = Dx.shape[1] = 3)')
        emit('fd_matrix_diag_add', [_assign('add', _sub(P, aug.value, w, {'r': 'r', 'dt': 'dt', 'theta': 'theta'}, need=['r']))], ['add'],
             [('dt', NUM), ('theta', NUM), ('r', NUM)], NUM, doc='the term of `A[:, mm] += …` in one row')
        # ---------------------------------------------------------------------------------------- fd_roll_backwards
        w = 'fd_roll_backwards'
        b = _body(find_function(tree, w))
        ifs = [s for s in b if isinstance(s, ast.If)]
        _, st_mm = _one(P, b, _is_assign_to('mm'), w, '`mm = …`')
        _text(P, b, 'num_vectors = len(res)', w)
        if len(ifs) != 2 or b[-3:] != ifs + [b[-1]] or U(b[-1]) != 'return res' or any(s.orelse for s in ifs):
            raise Un(f'{w}: expected two `if theta …` statements then `return res`')
        want = ['res[k] = band_matrix_multiplication(Ae, mm, mm, res[k])', 'res[k] = solve_tridiagonal_matrix(Ai, res[k])']
        hs = []
        for s, wt in zip(ifs, want):
            if len(s.body) != 1 or not isinstance(s.body[0], ast.For) or U(s.body[0].target) != 'k' or [U(x) for x in s.body[0].body] != [wt]:
                raise Un(f'{w}: the body of `if {U(s.test)}` is not `for k in …: {wt}`')
            _plain(P, s.body[0], w)
            hs.append(_range_stmts(P, s.body[0].iter, w, 2))
        emit('fd_roll_guards', [_assign('explicit_on', ifs[0].test), _assign('implicit_on', ifs[1].test), st_mm], ['explicit_on', 'implicit_on', 'mm'],
             [('theta', NUM)], 'tuple:bool,bool,int',
             doc='guards of the band product (FIRST) and of the tridiagonal solve (SECOND) in fd_roll_backwards, and the band half-width mm')
        emit('fd_roll_ranges', [_assign('lo1', hs[0][0][0].value), _assign('hi1', hs[0][0][1].value), _assign('lo2', hs[1][0][0].value),
                                _assign('hi2', hs[1][0][1].value)], ['lo1', 'hi1', 'lo2', 'hi2'], [('num_vectors', INT)], 'tuple:int,int,int,int',
             doc='`for k in range(lo, hi)` of the two vector loops')
        # ----------------------------------------------------------------------------------------- black_scholes_fd
        w = 'black_scholes_fd'
        b = _body(find_function(tree, w))
        loops = [(i, s) for i, s in enumerate(b) if isinstance(s, ast.For)]
        if len(loops) != 1 or U(loops[0][1].target) != 'h':
            raise Un(f'{w}: expected exactly one top-level loop `for h in …`')
        i_loop, loop = loops[0]
        _plain(P, loop, w)
        pre = b[:i_loop]
        ns = [s for s in pre if _is_assign_to('num_samples')(s)]
        if len(ns) != 1:
            raise Un(f'{w}: expected one `num_samples = …`')
        emit('fd_num_nodes', [_assign('n_out', ns[0].value)], ['n_out'], [('num_samples', INT), ('xl', NUM), ('xu', NUM)], INT,
             doc='the node count: the value assigned by `num_samples = …`')
        _, st_ns = _one(P, pre, _is_assign_to('num_steps'), w, '`num_steps = …`')
        v = st_ns.value
        if not (isinstance(v, ast.BoolOp) and isinstance(v.op, ast.Or) and len(v.values) == 2 and U(v.values[0]) == 'num_time_steps'):
            raise Un(f'{w}: `{U(st_ns)}` is not `num_time_steps or …`')
        st_ns2 = _assign('num_steps', ast.IfExp(test=ast.Compare(left=_name('num_time_steps'), ops=[ast.NotEq()], comparators=[ast.Constant(0)]),
                                                body=_name('num_time_steps'), orelse=v.values[1]))
        _, st_dt = _one(P, pre, _is_assign_to('dt'), w, '`dt = …`')
        emit('fd_num_steps', [st_ns2], ['num_steps'], [('num_time_steps', INT), ('num_samples', INT)], INT,
             doc='`num_time_steps or E` on integers = `num_time_steps if num_time_steps != 0 else E` (None is passed as 0); num_samples = the node count')
        emit('fd_dt', [st_dt], ['dt'], [('time_to_expiry', NUM), ('num_steps', INT)], NUM)
        i_res = _text(P, pre, 'res = deepcopy(payoff)', w)
        if i_res != len(pre) - 1:
            raise Un(f'{w}: `res = deepcopy(payoff)` is not the last statement before the loop')
        hs, hn = _range_stmts(P, loop.iter, w, 2)
        emit('fd_time_range', hs, hn, [('num_steps', INT)], 'tuple:int,int', doc='`for h in range(lo, hi)`')
        lb = loop.body
        if len(lb) != 3 or not isinstance(lb[0], ast.If) or not isinstance(lb[2], ast.If) or lb[0].orelse or lb[2].orelse \
                or U(lb[1]) != 'res = fd_roll_backwards(res, theta, Ai=Ai, Ae=Ae)':
            raise Un(f'{w}: loop body is not `if …: (matrices)`, `res = fd_roll_backwards(res, theta, Ai=Ai, Ae=Ae)`, `if …: (projection)`')
        emit('fd_rebuild', [_assign('rebuild', lb[0].test)], ['rebuild'], [('update', BOOL), ('h', INT)], BOOL,
             doc='guard of the (re)computation of Ae / Ai in iteration h')
        mb = lb[0].body
        if len(mb) != 2 or not all(isinstance(s, ast.If) and not s.orelse and len(s.body) == 1 and isinstance(s.body[0], ast.Assign) for s in mb) \
                or [U(s.body[0].targets[0]) for s in mb] != ['Ae', 'Ai']:
            raise Un(f'{w}: matrices are not built by `if …: Ae = …` then `if …: Ai = …`')
        args = []
        for s in mb:
            c = s.body[0].value
            if not (isinstance(c, ast.Call) and U(c.func) == 'calculate_fd_matrix' and not c.keywords and len(c.args) == 7
                    and [U(a) for a in c.args[:4]] == ['s', 'r_', 'mu_', 'var_'] and U(c.args[6]) == 'wind'):
                raise Un(f'{w}: `{U(c)}` is not `calculate_fd_matrix(s, r_, mu_, var_, DT, THETA, wind)`')
            args += [c.args[4], c.args[5]]
        emit('fd_matrix_args', [_assign('explicit_on', mb[0].test), _assign('implicit_on', mb[1].test)] +
             [_assign(n, a) for n, a in zip(['ae_dt', 'ae_theta', 'ai_dt', 'ai_theta'], args)],
             ['explicit_on', 'implicit_on', 'ae_dt', 'ae_theta', 'ai_dt', 'ai_theta'], [('dt', NUM), ('theta', NUM)], 'tuple:bool,bool,num,num,num,num',
             doc='guards of `Ae = …` / `Ai = …` and the (dt, theta) arguments of the two calculate_fd_matrix calls')
        amer = _InSet().visit(copy.deepcopy(lb[2].test))
        ast.fix_missing_locations(amer)
        emit('fd_is_american', [_assign('amer', amer)], ['amer'], [('option_type', INT)], BOOL, doc='guard of the projection')
        pb = lb[2].body
        if len(pb) != 2 or not _is_assign_to('idx')(pb[0]) or U(pb[1]) != 'res[0][idx] = payoff[0][idx]':
            raise Un(f'{w}: projection is not `idx = …; res[0][idx] = payoff[0][idx]`')
        cmp_ = _sub(P, pb[0].value, w + ' projection', {'res[0]': 'res_in', 'payoff[0]': 'payoff_in'}, need=['res[0]', 'payoff[0]'])
        if not isinstance(cmp_, ast.Compare):
            raise Un(f'{w}: `{U(pb[0])}` is not a comparison')
        proj = [_assign('res_out', _name('res_in')), ast.If(test=cmp_, body=[_assign('res_out', _name('payoff_in'))], orelse=[])]
        emit('fd_project', proj, ['res_out'], [('res_in', NUM), ('payoff_in', NUM)], NUM,
             doc='`idx = res[0] ◇ payoff[0]; res[0][idx] = payoff[0][idx]` at one node')
        post = b[i_loop + 1:]
        if len(post) != 1 or not isinstance(post[0], ast.Return) or not isinstance(post[0].value, ast.Subscript) or U(post[0].value.value) != 'res[0]':
            raise Un(f'{w}: the statement after the loop is not `return res[0][…]`')
        emit('fd_result_idx', [_assign('idx_out', post[0].value.slice)], ['idx_out'], [('num_samples', INT)], INT,
             doc='the subscript of the returned node (num_samples = the node count)')
        ns_ = 'FdLoopR'
        text = prelude(ns_, kind) + '\n'.join(out) + f'\nend FinVerif.Gen.{ns_}\n'
        return SOURCES, text
    return build


MODULES = {'FdLoopR': build_fd('real')}
