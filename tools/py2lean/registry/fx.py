"""Generated modules for the FX products (property C10).

  FXF  Float, executable (driver / correspondence); calls the generated `Gen/BSF` kernels
  FXR  ℝ, the code's own N (Hull polynomial) via `Gen/BSR`                — algebra: CIP, parity, symmetry, premium views
  FXP  ℝ, the SAME source text over `Gen/BSP` (normal cdf abstracted to `Ncdf`, `norminvcdf` to `Ninv`)
       — deltas = derivatives and strike-from-delta under hypotheses on (Ncdf, Ninv).
       `Props/C10a` proves `FXP.f BSR.N … = FXR.f …` by `rfl`, so FXP is the generated code, not a copy.

What is translated (name in the generated module  <-  source):

  fx_forward            <- FXForward.forward           products/fx/fx_forward.py          (slice: after the year fraction)
  fx_forward_value      <- FXForward.value                                                 (slice; `self.forward(...)` becomes a call
                                                                                            of the generated `fx_forward`)
  fx_vanilla_value      <- FXVanillaOption.value        products/fx/fx_vanilla_option.py   (slice; model assumed `BlackScholes`)
  fx_vanilla_delta      <- FXVanillaOption.delta                                           (slice; model assumed `BlackScholes`)
  fx_fast_delta_dict    <- FXVanillaOption.fast_delta                                      (whole method)
  fast_delta            <- fast_delta (module level)                                       (whole function)
  strike_objective      <- g                            market/volatility/fx_vol_surface.py (`x = args[i]` unpacked to parameters)
  norminvcdf            <- norminvcdf                   utils/math.py                      (FXF/FXR; parameter `Ninv` in FXP)
  solve_for_strike      <- solve_for_strike             market/volatility/fx_vol_surface.py (the `newton_secant(g, …)` result is the
                                                                                            parameter `k_solver`: solver = parameter
                                                                                            with a postcondition, DESIGN §3.1)
  fx_vanilla_gamma      <- FXVanillaOption.gamma        products/fx/fx_vanilla_option.py   (slice; inline closed form with `nprime`)
  fx_vanilla_vega       <- FXVanillaOption.vega                                            (slice)
  fx_vanilla_theta      <- FXVanillaOption.theta                                           (slice; `N`, `nprime`)
  fx_digital_value      <- FXDigitalOption.value        products/fx/fx_digital_option.py   (slice; `n_vect`)

In the three Greek methods the guard `if np.any(volatility) < 0.0: raise …` is DEAD code (`np.any(x)` is a bool, a bool is
never < 0.0): it is dropped by exact text (a change of that text makes the module Untranslatable); a negative volatility
is therefore NOT rejected by gamma / vega / theta — it is clamped to 1e-10 like 0 (recorded in notes/C10.md).
In FXP the density `nprime` is the parameter `Npdf` (third section variable; definitions that do not use it are unchanged).

Dictionaries returned by the methods become tuples of their numeric entries in the order of `*_KEYS` below
(the key list of the source must equal the list here, otherwise the module is Untranslatable); the two
currency-name strings are not numeric and are checked directly by the harness.

Source-to-source steps before translation (each refuses anything it does not recognise):
  * slices: the statements before the numerical part must match a whitelist (guards on dates/curves, the
    year-fraction block); statements reading curve objects are dropped and the names they bind become
    parameters (`registry.exotics.method_slice`);
  * `isinstance(model, BlackScholes)` := True, `isinstance(model, SABR)` := False, constant tests folded
    (the generated kernel is the Black–Scholes-model path);
  * branches whose body calls `crr_tree_val_avg` (American exercise, a tree) are replaced by `raise ValueError`
    (`.error .other`): the generated kernel covers the European types only and says so;
  * `self.<state> = e` for the result-caching attributes of FXForward.value becomes a local assignment;
  * string comparisons `self.prem_currency == self.dom_name` are comparisons of integer codes (any injective
    coding of the three-letter names; the harness uses DOM = 1, FOR = 2);
  * calls of kernels that can raise (`bs_value`, `bs_delta`, `fast_delta`, `norminvcdf`, `fx_forward`) are bound with
    `match … with | .error e => .error e | .ok c => …` (class `FxTranslator`, a subclass — `py2lean.py` is unchanged).
"""
from __future__ import annotations

import ast
import copy
import re

from registry.bs import prelude, MATH_PY, GT_PY, GV_PY, BSA_PY

FWD_PY = 'financepy/products/fx/fx_forward.py'
VAN_PY = 'financepy/products/fx/fx_vanilla_option.py'
CONV_PY = 'financepy/products/fx/fx_mkt_conventions.py'
SURF_PY = 'financepy/market/volatility/fx_vol_surface.py'
DIG_PY = 'financepy/products/fx/fx_digital_option.py'

SOURCES = [FWD_PY, VAN_PY, CONV_PY, SURF_PY, MATH_PY, GT_PY, GV_PY, BSA_PY, DIG_PY]

VALUE_KEYS = ['v', 'cash_dom', 'cash_for', 'pips_dom', 'pips_for', 'pct_dom', 'pct_for', 'not_dom', 'not_for']
FWD_VALUE_KEYS = ['value', 'cash_dom', 'cash_for', 'not_dom', 'not_for']
DELTA_KEYS = ['pips_spot_delta', 'pips_fwd_delta', 'pct_spot_delta_prem_adj', 'pct_fwd_delta_prem_adj']
STRING_KEYS = ['ccy_dom', 'ccy_for']


# ----------------------------------------------------------------------------- AST preparation
def _dotted(node):
    parts = []
    while isinstance(node, ast.Attribute):
        parts.append(node.attr)
        node = node.value
    if isinstance(node, ast.Name):
        parts.append(node.id)
        return '.'.join(reversed(parts))
    return None


class _Specialise(ast.NodeTransformer):
    """isinstance(model, BlackScholes) -> True, isinstance(model, SABR) -> False; fold `or` / `and`."""

    def __init__(self, P):
        self.P = P

    def visit_Call(self, n):
        self.generic_visit(n)
        if isinstance(n.func, ast.Name) and n.func.id == 'isinstance':
            if len(n.args) == 2 and isinstance(n.args[0], ast.Name) and n.args[0].id == 'model' \
                    and isinstance(n.args[1], ast.Name) and n.args[1].id in ('BlackScholes', 'SABR'):
                return ast.Constant(value=(n.args[1].id == 'BlackScholes'))
            raise self.P.Untranslatable('isinstance test other than model/BlackScholes|SABR: ' + ast.unparse(n))
        return n

    def visit_BoolOp(self, n):
        self.generic_visit(n)
        is_or = isinstance(n.op, ast.Or)
        vals = []
        for v in n.values:
            if isinstance(v, ast.Constant) and isinstance(v.value, bool):
                if v.value == is_or:
                    return ast.Constant(value=is_or)      # True in an `or`, False in an `and`
                continue
            vals.append(v)
        if not vals:
            return ast.Constant(value=not is_or)
        if len(vals) == 1:
            return vals[0]
        return ast.BoolOp(op=n.op, values=vals)


class _StripAll(ast.NodeTransformer):
    """`np.all(<comparison>)` on the scalar inputs of the kernels is the comparison itself (as `np.any`, which
    `registry.exotics._StripAny` handles the same way)."""

    def visit_Call(self, n):
        self.generic_visit(n)
        if _dotted(n.func) == 'np.all' and len(n.args) == 1 and not n.keywords and isinstance(n.args[0], ast.Compare):
            return n.args[0]
        return n


def _fold_const_ifs(stmts):
    out = []
    for st in stmts:
        if isinstance(st, ast.If):
            body, orelse = _fold_const_ifs(st.body), _fold_const_ifs(st.orelse)
            if isinstance(st.test, ast.Constant) and isinstance(st.test.value, bool):
                out.extend(body if st.test.value else orelse)
                continue
            st = ast.If(test=st.test, body=body, orelse=orelse)
        out.append(st)
    return out


def _cut_tree_branches(stmts, P):
    """a branch that prices with the CRR tree is outside the generated (closed-form) kernel"""
    out = []
    for st in stmts:
        if isinstance(st, ast.If):
            def cut(body):
                if len(body) == 1 and isinstance(body[0], ast.If):       # `elif`: look at its own branches
                    return _cut_tree_branches(body, P)
                if any(isinstance(x, ast.Call) and _dotted(x.func) == 'crr_tree_val_avg' for b in body for x in ast.walk(b)):
                    return [ast.Raise(exc=ast.Call(func=ast.Name(id='ValueError', ctx=ast.Load()),
                                                   args=[ast.Constant(value='tree branch: not in the generated kernel')],
                                                   keywords=[]), cause=None)]
                return _cut_tree_branches(body, P)
            st = ast.If(test=st.test, body=cut(st.body), orelse=cut(st.orelse) if st.orelse else [])
        out.append(st)
    return out


class _StateToLocal(ast.NodeTransformer):
    def __init__(self, attrs):
        self.attrs = attrs

    def visit_Attribute(self, n):
        if isinstance(n.value, ast.Name) and n.value.id == 'self' and n.attr in self.attrs:
            return ast.copy_location(ast.Name(id='st_' + n.attr, ctx=n.ctx), n)
        return self.generic_visit(n)


def _dict_return_to_tuple(stmts, keys, P, what):
    """`return {"k1": e1, ...}` (last statement) -> `return (e1, ...)` for the numeric keys, in the order of `keys`."""
    if not stmts or not isinstance(stmts[-1], ast.Return) or not isinstance(stmts[-1].value, ast.Dict):
        raise P.Untranslatable(f'{what}: last statement is not `return {{...}}`')
    d = stmts[-1].value
    got = {}
    for k, v in zip(d.keys, d.values):
        if not (isinstance(k, ast.Constant) and isinstance(k.value, str)):
            raise P.Untranslatable(f'{what}: dictionary key is not a string literal')
        got[k.value] = v
    numeric = [k for k in got if k not in STRING_KEYS]
    if numeric != keys:
        raise P.Untranslatable(f'{what}: the keys of the returned dictionary changed: {numeric} (model has {keys})')
    return stmts[:-1] + [ast.Return(value=ast.Tuple(elts=[got[k] for k in keys], ctx=ast.Load()))]


def _rewrite(stmts, drops, substs, seen, P):
    """recursive: drop statements whose text matches a pattern of `drops`; replace the right-hand side of
    assignments whose RHS text matches a pattern of `substs` by the given expression"""
    out = []
    for st in stmts:
        txt = ast.unparse(st)
        hit = next((p for p in drops if re.fullmatch(p, txt, re.S)), None)
        if hit is not None:
            seen[hit] = seen.get(hit, 0) + 1
            continue
        if isinstance(st, ast.Assign):
            rhs = ast.unparse(st.value)
            hit = next((p for p in substs if re.fullmatch(p, rhs, re.S)), None)
            if hit is not None:
                seen[hit] = seen.get(hit, 0) + 1
                st = ast.Assign(targets=st.targets, value=ast.parse(substs[hit], mode='eval').body)
        if isinstance(st, ast.If):
            st = ast.If(test=st.test, body=_rewrite(st.body, drops, substs, seen, P),
                        orelse=_rewrite(st.orelse, drops, substs, seen, P))
        out.append(st)
    return out


def rewrite(fnode, drops, substs, P, what, counts=None):
    seen = {}
    g = copy.deepcopy(fnode)
    g.body = _rewrite(g.body, list(drops), dict(substs), seen, P)
    for p in list(drops) + list(substs):
        want = (counts or {}).get(p, 1)
        if seen.get(p, 0) != want:
            raise P.Untranslatable(f'{what}: glue statement expected {want}x, found {seen.get(p, 0)}x: {p}')
    ast.fix_missing_locations(g)
    return g


def unpack_args(fnode, P):
    """`x0 = args[0]; x1 = args[1]; …` at the top of a `(k, *args)` function -> parameter names"""
    names = []
    body = [s for s in fnode.body if not (isinstance(s, ast.Expr) and isinstance(s.value, ast.Constant))]
    i = 0
    while i < len(body):
        st = body[i]
        if isinstance(st, ast.Assign) and len(st.targets) == 1 and isinstance(st.targets[0], ast.Name) \
                and isinstance(st.value, ast.Subscript) and isinstance(st.value.value, ast.Name) \
                and st.value.value.id == 'args' and isinstance(st.value.slice, ast.Constant) \
                and st.value.slice.value == len(names):
            names.append(st.targets[0].id)
            i += 1
        else:
            break
    rest = body[i:]
    for s in rest:
        for x in ast.walk(s):
            if isinstance(x, ast.Name) and x.id == 'args':
                raise P.Untranslatable(f'{fnode.name}: `args` used after the unpacking prologue')
    g = copy.deepcopy(fnode)
    g.body = rest
    return g, names


# ----------------------------------------------------------------------------- translator with fallible calls
def make_translator(P):
    class FxTranslator(P.Translator):
        """Adds one thing: a call of an already translated kernel that can raise is bound before the statement
        that contains it (Python evaluates it there and propagates the exception)."""

        _allow = False

        def call(self, n, env):
            fn = self.dotted(n.func)
            sp = self.funcs.get(fn)
            if sp is not None and getattr(sp, 'fallible', False) and not self._allow:
                raise P.Untranslatable(f'call of the fallible kernel {fn} in an unsupported position')
            return super().call(n, env)

        def block(self, stmts, env, spec, fallible):
            if stmts:
                st = stmts[0]
                holder = None
                if isinstance(st, (ast.Assign, ast.AnnAssign, ast.AugAssign, ast.Return)) and st.value is not None:
                    holder = 'value'
                elif isinstance(st, ast.If):
                    holder = 'test'
                if holder is not None:
                    binds = []
                    tr = self
                    env2 = dict(env)

                    class Hoist(ast.NodeTransformer):
                        def visit_IfExp(self, n):
                            return guard(n)

                        def visit_BoolOp(self, n):
                            return guard(n)

                        def visit_Call(self, n):
                            fn = tr.dotted(n.func)
                            sp = tr.funcs.get(fn) if fn else None
                            if sp is not None and getattr(sp, 'fallible', False):
                                for a in n.args:
                                    for x in ast.walk(a):
                                        if isinstance(x, ast.Call) and getattr(tr.funcs.get(tr.dotted(x.func) or ''), 'fallible', False):
                                            raise P.Untranslatable('nested calls of fallible kernels')
                                tr._allow = True
                                try:
                                    v = P.Translator.call(tr, n, env2)
                                finally:
                                    tr._allow = False
                                if v.errs:
                                    raise P.Untranslatable('error conditions in the arguments of a fallible call')
                                name = tr.fresh('c', env2)
                                env2[name] = P.Val(name, v.t)
                                binds.append((name, v.s))
                                return ast.copy_location(ast.Name(id=name, ctx=ast.Load()), n)
                            return self.generic_visit(n)

                    def guard(n):
                        for x in ast.walk(n):
                            if isinstance(x, ast.Call) and getattr(tr.funcs.get(tr.dotted(x.func) or ''), 'fallible', False):
                                raise P.Untranslatable('fallible call inside a conditional expression')
                        return n

                    st2 = copy.copy(st)
                    setattr(st2, holder, Hoist().visit(copy.deepcopy(getattr(st, holder))))
                    if binds:
                        if not fallible:
                            raise P.Untranslatable('call of a fallible kernel in a function declared infallible')
                        ast.fix_missing_locations(st2)
                        body = super().block([st2] + list(stmts[1:]), env2, spec, fallible)
                        import textwrap
                        for name, callee in reversed(binds):
                            body = (f'(match {callee} with\n | .error e => .error e\n | .ok {name} =>\n'
                                    + textwrap.indent(body, '   ') + ')')
                        return body
            return super().block(stmts, env, spec, fallible)

    return FxTranslator


# ----------------------------------------------------------------------------- the module builder
YEARFRAC_FWD = (r"if isinstance\(value_dt, Date\):\n\s+t = \(self\.(delivery_dt|expiry_dt) - value_dt\) / g_days_in_year\n"
                r"else:\n\s+t = value_dt")
YEARFRAC_OPT = (r"if isinstance\(value_dt, Date\):\n\s+spot_dt = value_dt\.add_weekdays\(self\.spot_days\)\n"
                r"\s+t_del = \(self\.delivery_dt - spot_dt\) / g_days_in_year\n"
                r"\s+t_exp = \(self\.expiry_dt - value_dt\) / g_days_in_year\n"
                r"else:\n\s+t_del = value_dt\n\s+t_exp = t_del")
START_SPOT = r"if spot_fx_rate <= 0\.0:\n\s+raise FinError\(.*\)"


def build_fx(kind):
    """kind: 'float' (FXF), 'real' (FXR), 'param' (FXP: real with Ncdf / Ninv parameters)"""
    def build(P, S):
        from py2lean import FuncSpec, Dialect, INT, NUM, find_function
        from registry.exotics import method_slice, _StripAny
        dialect = 'float' if kind == 'float' else 'real'
        ns, bsns = {'float': ('FXF', 'BSF'), 'real': ('FXR', 'BSR'), 'param': ('FXP', 'BSP')}[kind]
        consts = dict(S.module_consts(MATH_PY))
        consts.update(S.module_consts(GV_PY))
        consts.update(S.module_consts(GT_PY))
        consts.update({k: v for k, v in S.module_consts(CONV_PY).items() if k.startswith('FinFXDeltaMethod.')})
        tr = make_translator(P)(Dialect(dialect), consts)
        out = []
        seven = [('s', NUM), ('t', NUM), ('k', NUM), ('r', NUM), ('q', NUM), ('v', NUM), ('option_type_value', INT)]
        for nm in ('bs_value', 'bs_delta'):
            ln = f'{bsns}.{nm}' + (' Ncdf' if kind == 'param' else '')
            sp = FuncSpec(nm, ln, seven, NUM)
            sp.fallible = True          # both end in `else: raise FinError(...)` (checked by Props/C10a: shape lemmas)
            tr.funcs[nm] = sp
        # the normal cdf / density called directly by gamma / vega / theta / the digital: the code's own functions of
        # utils/math.py as generated in Gen/BS*, or the parameters Ncdf / Npdf in FXP
        for nm, par in (('N', 'Ncdf'), ('n_vect', 'Ncdf'), ('nprime', 'Npdf')):
            sp = FuncSpec(nm, par if kind == 'param' else f'{bsns}.{nm}', [('x', NUM)], NUM)
            sp.fallible = False
            tr.funcs[nm] = sp

        def emit(fnode, spec, force_fallible=None):
            txt = tr.function(fnode, spec, force_fallible=force_fallible)
            spec.fallible = ': Except PyErr' in txt.split(':=')[0]
            out.append(txt)
            callspec = spec
            if kind == 'param':
                # section variables used by a definition are its leading explicit arguments at later call sites
                uses = [v for v in ('Ncdf', 'Ninv', 'Npdf') if re.search(r'\b' + v + r'\b', txt.split(':=', 1)[1])]
                if uses:
                    callspec = copy.copy(spec)
                    callspec.lean_name = spec.lean_name + ''.join(' ' + u for u in uses)
                    callspec.fallible = spec.fallible
            tr.funcs[spec.py_name] = callspec
            return spec

        def prep(f, keys=None, what=''):
            f = _StripAll().visit(_Specialise(P).visit(copy.deepcopy(f)))
            f.body = _cut_tree_branches(_fold_const_ifs(f.body), P)
            if keys is not None:
                f.body = _dict_return_to_tuple(f.body, keys, P, what)
            ast.fix_missing_locations(f)
            return f

        def tup(n):
            return 'tuple:' + ','.join(['num'] * n)

        # ---- FXForward.forward
        tree = S.parse(FWD_PY)
        f = method_slice(P, tree, 'FXForward.forward', START_SPOT, [YEARFRAC_FWD],
                         {r'for_df = foreign_curve\.df_t\(t\)': ('for_df',), r'dom_df = domestic_curve\.df_t\(t\)': ('dom_df',)})
        emit(prep(f), FuncSpec('fx_forward', 'fx_forward', [('t', NUM), ('spot_fx_rate', NUM), ('for_df', NUM), ('dom_df', NUM)], NUM,
                               doc='t = (delivery date - value date)/365 as computed by the method; for_df / dom_df = '
                                   'foreign / domestic curve df_t at max(t, 1e-10)'))

        # ---- FXForward.value
        f = method_slice(P, tree, 'FXForward.value', START_SPOT, [YEARFRAC_FWD],
                         {r'dom_df = domestic_curve\.df_t\(t\)': ('dom_df',)})
        f = rewrite(f, [], {r'self\.forward\(value_dt, spot_fx_rate, domestic_curve, foreign_curve\)':
                            'fx_forward(t_fwd, spot_fx_rate, for_df_fwd, dom_df_fwd)'}, P, 'FXForward.value')
        f = _StateToLocal({'notional_dom', 'notional_for', 'cash_dom', 'cash_for'}).visit(f)
        f = prep(f, FWD_VALUE_KEYS, 'FXForward.value')
        emit(f, FuncSpec('FXForward.value', 'fx_forward_value',
                         [('t', NUM), ('spot_fx_rate', NUM), ('dom_df', NUM), ('t_fwd', NUM), ('for_df_fwd', NUM), ('dom_df_fwd', NUM)],
                         tup(5),
                         attr_map={'self.strike_fx_rate': ('strike_fx_rate', NUM), 'self.notional': ('notional', NUM),
                                   'self.notional_currency': ('notional_currency', INT), 'self.dom_name': ('dom_name', INT),
                                   'self.for_name': ('for_name', INT)},
                         extra_params=[('strike_fx_rate', NUM), ('notional', NUM), ('notional_currency', INT),
                                       ('dom_name', INT), ('for_name', INT)],
                         doc='result = (value, cash_dom, cash_for, not_dom, not_for); t = (expiry - value date)/365, dom_df = '
                             'domestic df_t at max(t,1e-10); t_fwd, for_df_fwd, dom_df_fwd = the inputs of the inner '
                             '`self.forward(...)` call (delivery date); currency names as integer codes'))

        # ---- FXVanillaOption.value
        tree = S.parse(VAN_PY)
        opt_attrs = {'self.strike_fx_rate': ('strike_fx_rate', NUM), 'self.notional': ('notional', NUM),
                     'model.volatility': ('vol', NUM), 'self.option_type': ('option_type', INT),
                     'self.option_type.value': ('option_type', INT),
                     'self.prem_currency': ('prem_currency', INT), 'self.dom_name': ('dom_name', INT),
                     'self.for_name': ('for_name', INT)}
        df_drops = {r'dom_df = domestic_curve\.df_t\(t_del\)': ('dom_df',), r'for_df = foreign_curve\.df_t\(t_del\)': ('for_df',)}
        f = method_slice(P, tree, 'FXVanillaOption.value', START_SPOT, [YEARFRAC_OPT], dict(df_drops))
        f = prep(f, VALUE_KEYS, 'FXVanillaOption.value')
        emit(f, FuncSpec('FXVanillaOption.value', 'fx_vanilla_value',
                         [('t_del', NUM), ('t_exp', NUM), ('spot_fx_rate', NUM), ('dom_df', NUM), ('for_df', NUM)], tup(9),
                         attr_map=opt_attrs,
                         extra_params=[('strike_fx_rate', NUM), ('notional', NUM), ('vol', NUM), ('option_type', INT),
                                       ('prem_currency', INT), ('dom_name', INT), ('for_name', INT)],
                         doc='result = (v, cash_dom, cash_for, pips_dom, pips_for, pct_dom, pct_for, not_dom, not_for); '
                             't_del = (delivery - spot date)/365, t_exp = (expiry - value date)/365 as computed by the method; '
                             'dom_df / for_df = curve df_t at max(t_del, 1e-10); BlackScholes model; European types only'))

        # ---- FXVanillaOption.delta
        f = method_slice(P, tree, 'FXVanillaOption.delta', START_SPOT, [YEARFRAC_OPT], dict(df_drops))
        f = prep(f, DELTA_KEYS, 'FXVanillaOption.delta')
        emit(f, FuncSpec('FXVanillaOption.delta', 'fx_vanilla_delta',
                         [('t_del', NUM), ('t_exp', NUM), ('spot_fx_rate', NUM), ('dom_df', NUM), ('for_df', NUM)], tup(4),
                         attr_map=opt_attrs, extra_params=[('strike_fx_rate', NUM), ('vol', NUM), ('option_type', INT)],
                         doc='result = (pips_spot_delta, pips_fwd_delta, pct_spot_delta_prem_adj, pct_fwd_delta_prem_adj)'))

        # ---- FXVanillaOption.fast_delta (method)
        f = copy.deepcopy(find_function(tree, 'FXVanillaOption.fast_delta'))
        f = prep(f, DELTA_KEYS, 'FXVanillaOption.fast_delta')
        emit(f, FuncSpec('FXVanillaOption.fast_delta', 'fx_fast_delta_dict',
                         [('t', NUM), ('s', NUM), ('rd', NUM), ('rf', NUM), ('vol', NUM)], tup(4),
                         attr_map={'self.strike_fx_rate': ('strike_fx_rate', NUM), 'self.option_type.value': ('option_type', INT)},
                         extra_params=[('strike_fx_rate', NUM), ('option_type', INT)], skip_params=('self',)),
             force_fallible=True)

        # ---- fast_delta (module level)
        f = prep(find_function(tree, 'fast_delta'))
        emit(f, FuncSpec('fast_delta', 'fast_delta',
                         [('s', NUM), ('t', NUM), ('k', NUM), ('rd', NUM), ('rf', NUM), ('vol', NUM),
                          ('deltaTypeValue', INT), ('option_type_value', INT)], NUM))

        # ---- strike objective g(k, *args)
        tree = S.parse(SURF_PY)
        f, names = unpack_args(find_function(tree, 'g'), P)
        want = ['s', 't', 'r_d', 'r_f', 'volatility', 'delta_method_value', 'option_type_value', 'delta_target']
        if names != want:
            raise P.Untranslatable(f'g: argument tuple changed: {names}')
        emit(f, FuncSpec('g', 'strike_objective',
                         [('k', NUM), ('s', NUM), ('t', NUM), ('r_d', NUM), ('r_f', NUM), ('volatility', NUM),
                          ('delta_method_value', INT), ('option_type_value', INT), ('delta_target', NUM)], NUM),
             force_fallible=True)

        # ---- norminvcdf and the closed-form / solver strike
        if kind == 'param':
            sp = FuncSpec('norminvcdf', 'Ninv', [('p', NUM)], NUM)
            sp.fallible = False
            tr.funcs['norminvcdf'] = sp
        else:
            mtree = S.parse(MATH_PY)
            emit(find_function(mtree, 'norminvcdf'), FuncSpec('norminvcdf', 'norminvcdf', [('p', NUM)], NUM))
        f = _StripAny().visit(copy.deepcopy(find_function(tree, 'solve_for_strike')))
        f = rewrite(f, [r'argtuple = \(spot_fx_rate, t_del, rd, rf, volatility, delta_method_value, option_type_value, delta_target\)'],
                    {r'newton_secant\(g, x0=spot_fx_rate, args=argtuple, tol=1e-07, maxiter=50\)': 'k_solver'},
                    P, 'solve_for_strike',
                    counts={r'argtuple = \(spot_fx_rate, t_del, rd, rf, volatility, delta_method_value, option_type_value, delta_target\)': 2,
                            r'newton_secant\(g, x0=spot_fx_rate, args=argtuple, tol=1e-07, maxiter=50\)': 2})
        emit(f, FuncSpec('solve_for_strike', 'solve_for_strike',
                         [('spot_fx_rate', NUM), ('t_del', NUM), ('rd', NUM), ('rf', NUM), ('option_type_value', INT),
                          ('delta_target', NUM), ('delta_method_value', INT), ('volatility', NUM), ('k_solver', NUM)], NUM,
                         doc='k_solver = the value returned by newton_secant(g, x0=spot, args=…, tol=1e-7, maxiter=50) '
                             '(used by the two premium-adjusted conventions only)'))


        # ---- FXVanillaOption.gamma / vega / theta (inline closed forms; one time t = (expiry - value date)/365)
        tree = S.parse(VAN_PY)
        DEAD_VOL_GUARD = r"if np\.any\((volatility|vol)\) < 0\.0:\n\s+raise FinError\('Volatility should not be negative\.'\)"
        t_drops = {r'dom_df = domestic_curve\.df_t\(t\)': ('dom_df',), r'for_df = foreign_curve\.df_t\(t\)': ('for_df',)}
        for meth, lname, attrs, extra in (
                ('gamma', 'fx_vanilla_gamma', ('self.strike_fx_rate', 'model.volatility'), [('strike_fx_rate', NUM), ('vol', NUM)]),
                ('vega', 'fx_vanilla_vega', ('self.strike_fx_rate', 'model.volatility'), [('strike_fx_rate', NUM), ('vol', NUM)]),
                ('theta', 'fx_vanilla_theta', ('self.strike_fx_rate', 'model.volatility', 'self.option_type'),
                 [('strike_fx_rate', NUM), ('vol', NUM), ('option_type', INT)])):
            f = method_slice(P, tree, 'FXVanillaOption.' + meth, START_SPOT, [YEARFRAC_FWD], dict(t_drops))
            f = rewrite(f, [DEAD_VOL_GUARD], {}, P, 'FXVanillaOption.' + meth)
            f = prep(f)
            emit(f, FuncSpec('FXVanillaOption.' + meth, lname, [('t', NUM), ('spot_fx_rate', NUM), ('dom_df', NUM), ('for_df', NUM)], NUM,
                             attr_map={k: opt_attrs[k] for k in attrs}, extra_params=extra,
                             doc='t = (expiry - value date)/365 as computed by the method; dom_df / for_df = curve df_t at '
                                 'max(t, 1e-10); BlackScholes model; the dead guard `np.any(vol) < 0.0` is dropped'),
                 force_fallible=True)

        # ---- FXDigitalOption.value
        dtree = S.parse(DIG_PY)
        f = method_slice(P, dtree, 'FXDigitalOption.value', START_SPOT, [YEARFRAC_OPT], dict(df_drops))
        f = prep(f)
        emit(f, FuncSpec('FXDigitalOption.value', 'fx_digital_value',
                         [('t_del', NUM), ('t_exp', NUM), ('spot_fx_rate', NUM), ('dom_df', NUM), ('for_df', NUM)], NUM,
                         attr_map=opt_attrs,
                         extra_params=[('strike_fx_rate', NUM), ('notional', NUM), ('vol', NUM), ('option_type', INT),
                                       ('prem_currency', INT), ('dom_name', INT), ('for_name', INT)],
                         doc='option_type 5 = DIGITAL_CALL, 6 = DIGITAL_PUT; t_del / t_exp / dfs as for fx_vanilla_value'),
             force_fallible=True)

        variables = 'variable (Ncdf Ninv Npdf : ℝ → ℝ)' if kind == 'param' else ''
        body = prelude(ns, dialect, (f'FinVerif.Gen.{bsns}',), variables=variables) + '\n'.join(out) + f'\nend FinVerif.Gen.{ns}\n'
        return SOURCES, body
    return build


MODULES = {'FXF': build_fx('float'), 'FXR': build_fx('real'), 'FXP': build_fx('param')}
