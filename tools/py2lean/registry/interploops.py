"""InterpLoopR — the LOOPS and the branch structure of the local interpolation kernels (property C02), cut out of the source
of `financepy/market/curves/interpolator.py` on every run (ℝ / Int, for Props/C02g.lean).

The translator takes no loops and no arrays; what it takes is every straight-line piece of `_uinterpolate` / `_vinterpolate`:

  uinterp_first            the test of `if t == times[0]: return dfs[0]` (comparison operator generated)
  uinterp_first_reads      the indices of `times[..]` in the test and of `dfs[..]` in the returned value
  uinterp_search_init      `i = 0` — the initial value of the search index
  uinterp_search_guard     the `while` condition (both comparison operators, the `- 1` of the bound, the `and`)
  uinterp_search_guard_reads   the index of the `times[..]` read of the condition
  uinterp_search_step      the `while` body (`i = i + 1`)
  uinterp_locate           `if t > times[i]: i = num_points` (operator, the index read, the value assigned)
  uinterp_locate_reads
  uinterp_dispatch         the chain `if method == InterpTypes.X.value … elif … else raise`: which kernel a method code
                           selects (1, 2, 3 = position of the branch in the source; the enum values are read from the
                           `class InterpTypes(Enum)` statement of the same file), FinError otherwise
  uinterp_k1 / _k2 / _k3   the body of the 1st / 2nd / 3rd branch of that chain with its `i == 1` / `i < num_points` /
                           else sub-branches: tests, knot offsets, factors, signs, the `small` guard — array elements are
                           scalars `times_k` / `dfs_k` (k = ordinal of the distinct text `arr[E]`)
  uinterp_k1_reads / …     the INDEX expression `E` of every such scalar (so `dfs[i - 1]` → `dfs[i]` is generated text)
  uinterp_k1_method / …    the enum value tested by that branch
  vinterp_range            header of `for i in range(0, n)` as (start, stop, step)
  vinterp_reads            indices of the store `yvalues[..]` and of the read `xValues[..]` of the loop body; the body itself
                           must be exactly one store of `_uinterpolate(<that read>, xvector, dfs, method)`

Anything else (another statement between the pieces, a second loop, a branch that does not end in the shared `return yvalue`,
an enum member that is not an integer literal) raises `Untranslatable` (=> broken obligation); nothing is skipped.
"""
from __future__ import annotations

import ast
import copy

from registry.bs import prelude
from registry.kernloops import _name, _assign, _mkfn, _strip, _range3, _scalarise

INTERP_PY = 'financepy/market/curves/interpolator.py'
SOURCES = [INTERP_PY]
ARR = ['times', 'dfs']


def _U(n):
    return ast.unparse(ast.fix_missing_locations(copy.deepcopy(n)))

# the scalars of each kernel branch, in order of first occurrence of the distinct text (pinned: a new / vanished distinct
# access changes the parameter list the theorems are stated with, so it must fail here, loudly)
EXPECT = {
    4: ['dfs_0', 'times_0', 'times_1', 'dfs_1', 'times_2'],
    1: ['dfs_0', 'dfs_1', 'times_0', 'times_1', 'dfs_2', 'times_2'],
    2: ['dfs_0', 'times_0', 'dfs_1', 'dfs_2', 'times_1', 'times_2'],
}


def _enum_values(P, tree):
    cls = [st for st in tree.body if isinstance(st, ast.ClassDef) and st.name == 'InterpTypes']
    if len(cls) != 1:
        raise P.Untranslatable('InterpTypes: class statement not found exactly once')
    vals = {}
    for st in cls[0].body:
        if isinstance(st, ast.Expr) and isinstance(st.value, ast.Constant):
            continue
        if not (isinstance(st, ast.Assign) and len(st.targets) == 1 and isinstance(st.targets[0], ast.Name)
                and isinstance(st.value, ast.Constant) and type(st.value.value) is int):
            raise P.Untranslatable(f'InterpTypes: member `{_U(st)}` is not NAME = <int literal>')
        vals[f'InterpTypes.{st.targets[0].id}.value'] = st.value.value
    return vals


class _Enum(ast.NodeTransformer):
    def __init__(self, vals):
        self.vals, self.hits = vals, []

    def visit_Attribute(self, node):
        t = _U(node)
        if t in self.vals:
            self.hits.append(t)
            return ast.copy_location(ast.Constant(self.vals[t]), node)
        return self.generic_visit(node)


def _chain(P, st, what):
    """`if a: A elif b: B … else: Z` -> ([(test, body)], else body)"""
    arms = []
    while True:
        if not isinstance(st, ast.If):
            raise P.Untranslatable(f'{what}: expected an if/elif chain')
        arms.append((st.test, _strip(st.body)))
        if len(st.orelse) == 1 and isinstance(st.orelse[0], ast.If):
            st = st.orelse[0]
        else:
            return arms, _strip(st.orelse)


def build_interp_loops(kind):
    def build(P, S):
        from py2lean import FuncSpec, Translator, Dialect, NUM, INT, BOOL, find_function
        tr = Translator(Dialect(kind), {})
        out = []

        def emit(fn, spec, **kw):
            out.append(tr.function(fn, spec, **kw))

        tree = S.parse(INTERP_PY)
        enum = _enum_values(P, tree)
        # ===================================================================== _uinterpolate
        w = '_uinterpolate'
        f = find_function(tree, w)
        if [a.arg for a in f.args.args] != ['t', 'times', 'dfs', 'method']:
            raise P.Untranslatable(f'{w}: parameters changed')
        body = _strip(f.body)
        kinds = [type(st).__name__ for st in body]
        if kinds != ['Assign', 'Assign', 'If', 'Assign', 'While', 'If', 'Assign', 'If']:
            raise P.Untranslatable(f'{w}: statement sequence {kinds} (expected small, num_points, first-knot test, i = …, '
                                   f'while, right-of-knot test, yvalue = …, method chain)')
        s_small, s_np, s_first, s_i, s_while, s_loc, s_y0, s_meth = body
        if _U(s_np) != 'num_points = times.size':
            raise P.Untranslatable(f'{w}: `{_U(s_np)}` (expected `num_points = times.size`)')
        if _U(s_small.targets[0]) != 'small' or _U(s_i.targets[0]) != 'i' or _U(s_y0.targets[0]) != 'yvalue':
            raise P.Untranslatable(f'{w}: assignment targets changed')
        # ---- first-knot test
        if s_first.orelse or len(s_first.body) != 1 or not isinstance(s_first.body[0], ast.Return):
            raise P.Untranslatable(f'{w}: first-knot statement is not `if …: return …`')
        st, ist, inames = _scalarise(P, [_assign('hit', s_first.test), _assign('val', s_first.body[0].value)], ARR,
                                     w + ' first-knot test', ['times_0', 'dfs_0'])
        if _U(st[1]) != 'val = dfs_0':
            raise P.Untranslatable(f'{w}: first-knot return value `{_U(s_first.body[0].value)}` is not one element of dfs')
        emit(_mkfn('uinterp_first', st[:1], ['hit']),
             FuncSpec(w + '[first-knot test]', 'uinterp_first', [('t', NUM), ('times_0', NUM)], BOOL,
                      doc='the test of `if t == times[0]: return dfs[0]`; times_0 / the returned dfs element = the elements at uinterp_first_reads'))
        emit(_mkfn('uinterp_first_reads', ist, inames),
             FuncSpec(w + '[first-knot test, indices]', 'uinterp_first_reads', [], 'tuple:int,int', doc='indices of times_0, dfs_0'))
        # ---- search loop
        emit(_mkfn('uinterp_search_init', [s_i], ['i']), FuncSpec(w + '[search loop, initial index]', 'uinterp_search_init', [], INT))
        if s_while.orelse:
            raise P.Untranslatable(f'{w}: while has an else clause')
        for x in ast.walk(s_while):
            if isinstance(x, (ast.Break, ast.Continue, ast.Return, ast.For, ast.Raise)) or (isinstance(x, ast.While) and x is not s_while):
                raise P.Untranslatable(f'{w}: while body contains {type(x).__name__}')
        st, ist, inames = _scalarise(P, [_assign('go', s_while.test)], ARR, w + ' while condition', ['times_0'])
        emit(_mkfn('uinterp_search_guard', st, ['go']),
             FuncSpec(w + '[search loop condition]', 'uinterp_search_guard', [('times_0', NUM), ('t', NUM), ('i', INT), ('num_points', INT)], BOOL,
                      doc='`while <this>`; times_0 = the element at uinterp_search_guard_reads'))
        emit(_mkfn('uinterp_search_guard_reads', ist, inames),
             FuncSpec(w + '[search loop condition, index]', 'uinterp_search_guard_reads', [('i', INT)], INT))
        st, _, _ = _scalarise(P, _strip(s_while.body), ARR, w + ' while body', [])
        emit(_mkfn('uinterp_search_step', st, ['i']), FuncSpec(w + '[search loop body]', 'uinterp_search_step', [('i', INT)], INT))
        # ---- right of the located knot
        st, ist, inames = _scalarise(P, [s_loc], ARR, w + ' right-of-knot test', ['times_0'])
        emit(_mkfn('uinterp_locate', st, ['i']),
             FuncSpec(w + '[after the loop]', 'uinterp_locate', [('times_0', NUM), ('t', NUM), ('i', INT), ('num_points', INT)], INT,
                      doc='the index the kernels use; times_0 = the element at uinterp_locate_reads'))
        emit(_mkfn('uinterp_locate_reads', ist, inames),
             FuncSpec(w + '[after the loop, index]', 'uinterp_locate_reads', [('i', INT)], INT))
        # ---- method chain
        arms, orelse = _chain(P, s_meth, w + ' method chain')
        if len(arms) != 3 or not orelse or not isinstance(orelse[-1], ast.Raise):
            raise P.Untranslatable(f'{w}: method chain has {len(arms)} branches / no final raise (expected 3 + raise)')
        disp = None
        tests = []
        for k, (test, _) in enumerate(arms):
            e = _Enum(enum)
            t2 = e.visit(copy.deepcopy(test))
            if len(e.hits) != 1 or not (isinstance(t2, ast.Compare) and _U(t2.left) == 'method'):
                raise P.Untranslatable(f'{w}: branch test `{_U(test)}` is not `method <op> InterpTypes.<member>.value`')
            tests.append((t2, enum[e.hits[0]]))
        node = [orelse[-1]]
        for k in (2, 1, 0):
            node = [ast.If(test=tests[k][0], body=ast.parse(f'return {k + 1}').body, orelse=node)]
        emit(_mkfn('uinterp_dispatch', node),
             FuncSpec(w + '[method chain]', 'uinterp_dispatch', [('method', INT)], INT,
                      doc='position (1, 2, 3) of the branch of the chain taken for this InterpTypes value, FinError otherwise'))
        for k, (_, bodyk) in enumerate(arms):
            code = tests[k][1]
            nm = f'uinterp_k{k + 1}'
            emit(_mkfn(nm + '_method', [_assign('m', ast.Constant(code))], ['m']),
                 FuncSpec(w + f'[branch {k + 1}, enum value]', nm + '_method', [], INT))
            if code not in EXPECT:
                raise P.Untranslatable(f'{w}: branch {k + 1} tests enum value {code}: no pinned access list')
            if not bodyk or _U(bodyk[-1]) != 'return yvalue' or len(bodyk) != 2 or not isinstance(bodyk[0], ast.If):
                raise P.Untranslatable(f'{w}: branch {k + 1} is not `if …/elif …/else …; return yvalue`')
            for x in ast.walk(bodyk[0]):
                if isinstance(x, (ast.Return, ast.Raise, ast.For, ast.While)):
                    raise P.Untranslatable(f'{w}: branch {k + 1} contains {type(x).__name__}')
            st, ist, inames = _scalarise(P, [s_small, s_y0] + bodyk[:1], ARR, w + f' branch {k + 1}', EXPECT[code])
            params = [('i', INT), ('num_points', INT), ('t', NUM)] + [(n, NUM) for n in EXPECT[code]]
            emit(_mkfn(nm, st, ['yvalue']),
                 FuncSpec(w + f'[branch {k + 1} of the method chain]', nm, params, NUM,
                          doc=f'`small = …; yvalue = …; if i == 1 … elif i < num_points … else …; return yvalue`; the scalars are the '
                              f'elements at {nm}_reads'))
            emit(_mkfn(nm + '_reads', ist, inames),
                 FuncSpec(w + f'[branch {k + 1}, indices]', nm + '_reads', [('i', INT)], 'tuple:' + ','.join(['int'] * len(inames)),
                          doc='indices of ' + ', '.join(EXPECT[code])))
        # ===================================================================== _vinterpolate
        w = '_vinterpolate'
        f = find_function(tree, w)
        body = _strip(f.body)
        texts = [_U(s) for s in body]
        loops = [s for s in body if isinstance(s, ast.For)]
        if len(body) != 4 or len(loops) != 1 or texts[0] != 'n = xValues.size' or texts[1] != 'yvalues = np.empty(n)' \
                or body[2] is not loops[0] or texts[3] != 'return yvalues':
            raise P.Untranslatable(f'{w}: expected `n = xValues.size; yvalues = np.empty(n); for …; return yvalues`')
        loop = loops[0]
        if _U(loop.target) != 'i' or loop.orelse or len(loop.body) != 1:
            raise P.Untranslatable(f'{w}: loop target / shape changed')
        emit(_mkfn('vinterp_range', _range3(P, loop.iter, w), ['start', 'stop', 'step']),
             FuncSpec(w + '[loop header]', 'vinterp_range', [('n', INT)], 'tuple:int,int,int', doc='n = xValues.size'))
        st, ist, inames = _scalarise(P, loop.body, ['yvalues', 'xValues'], w + ' loop body', ['yvalues_0', 'xValues_0'])
        if _U(st[0]) != 'yvalues_0 = _uinterpolate(xValues_0, xvector, dfs, method)':
            raise P.Untranslatable(f'{w}: loop body `{_U(loop.body[0])}` is not one store of _uinterpolate(<one element>, xvector, dfs, method)')
        emit(_mkfn('vinterp_reads', ist, inames),
             FuncSpec(w + '[loop body, indices]', 'vinterp_reads', [('i', INT)], 'tuple:int,int',
                      doc='index of the store into yvalues and of the read of xValues; the stored value is '
                          '_uinterpolate(xValues[<that>], xvector, dfs, method)'))
        ns = 'InterpLoopR'
        text = prelude(ns, kind) + '\n'.join(out) + f'\nend FinVerif.Gen.{ns}\n'
        return SOURCES, text
    return build


MODULES = {'InterpLoopR': build_interp_loops('real')}
