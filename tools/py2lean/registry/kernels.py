"""Generated modules for C20: the loop-free numerical kernels of utils/math.py, twice (Float and Real).

Translated: nprime, normpdf, heaviside, N (Hull polynomial, recursion unrolled), n_vect, n_prime_vect,
norminvcdf (Acklam rational approximation, all four branches and the p==0 / p==1 clamps, FinError outside
[0,1]).  Not translatable (loops / arrays) and therefore hand-modelled in Model/C20*.lean:
pair_gcd (while), accrued_interpolator, npv, phi2 / M, phi3, normcdf_slow, cholesky, band_matrix_multiplication,
solve_tridiagonal_matrix, and the root finders of solver_1d.py.
"""
from registry.bs import MATH_PY, prelude, math_kernels


def build_kern(kind):
    def build(P, S):
        from py2lean import FuncSpec, Translator, Dialect, NUM, find_function
        consts = dict(S.module_consts(MATH_PY))
        tr = Translator(Dialect(kind), consts)
        out = []
        math_kernels(tr, S, out)
        tree = S.parse(MATH_PY)
        for nm in ['heaviside', 'norminvcdf']:
            sp = FuncSpec(nm, nm, [('x', NUM)] if nm == 'heaviside' else [('p', NUM)], NUM)
            out.append(tr.function(find_function(tree, nm), sp))
            tr.funcs[nm] = sp
        ns = 'KernF' if kind == 'float' else 'KernR'
        body = prelude(ns, kind) + '\n'.join(out) + f'\nend FinVerif.Gen.{ns}\n'
        return [MATH_PY], body
    return build


MODULES = {'KernF': build_kern('float'), 'KernR': build_kern('real')}
