"""KernLoopR — the LOOPS of the numerical kernels (property C20), cut out of the source `for` statements (ℝ / Int, for
Props/C20p.lean).  Regenerated from `financepy/utils/math.py` and `financepy/utils/solver_1d.py` on every run.

The translator takes no loops, arrays or callables; what it takes is every straight-line piece OF a loop:

  <loop>_range    the header `range(a)` / `range(a, b)` / `range(a, b, c)` as the triple (start, stop, step)
  <loop>_init     initial values of the loop-carried variables
  <loop>_step     the BODY as one function `state -> reads -> state`; comparison operators, factors, the order of the
                  updates and the `raise` statements are the translator's reading of the source text
  <loop>_reads    the INDEX expression of every array read / store of the piece, in order of first occurrence: an array
                  element `arr[E]` becomes the scalar `arr_k` (k = ordinal of the distinct text `arr[E]` per array) and `E` is
                  emitted here, so an index offset (`c[j - 1]`, `gam[j + 1]`) is generated text, not pinned text
  <loop>_tail     the statements after the loop

Calls of the objective (`func(xmid, args)`, `func(p1, *args)`) become parameters, each by its exact source text; early exits
(`return x`, `break`) become exit codes by exact text of the statement.  A listed text that no longer occurs exactly as
often as stated, an unexpected statement, a loop with another target / header shape raise `Untranslatable` (=> broken
obligation), nothing is skipped.

  solve_tridiagonal_matrix   tri_head, tri_head_reads, tri_fwd_range, tri_fwd_reads, tri_fwd_step, tri_back_range,
                             tri_back_reads, tri_back_step
  band_matrix_multiplication band_jl, band_ju (the two numpy clamp statements read element-wise), band_outer_range,
                             band_inner_range, band_inner_range_reads, band_step, band_step_reads
  npv                        npv_init, npv_step (loop over the whole list `times_cfs`, target `t, c`)
  bisection                  bisect_head (exit taken before the loop), bisect_range, bisect_mid, bisect_step
  newton_secant              nsec_guard, nsec_start, nsec_status_init, nsec_swap, nsec_range, nsec_step (exit tests),
                             nsec_shift, nsec_tail
  newton (Newton-Raphson)    newton_guard, newton_range, newton_step
"""
from __future__ import annotations

import ast
import copy

from registry.bs import MATH_PY, prelude
from registry.swaps import _cut

SOLVER_PY = 'financepy/utils/solver_1d.py'
SOURCES = [MATH_PY, SOLVER_PY]


def _U(n):
    return ast.unparse(n)


def _name(i, ctx=None):
    return ast.Name(id=i, ctx=ctx or ast.Load())


def _assign(nm, value):
    return ast.Assign(targets=[_name(nm, ast.Store())], value=value)


def _mkfn(name, stmts, ret_names=None):
    body = list(copy.deepcopy(stmts))
    if ret_names is not None:
        elts = [_name(n) for n in ret_names]
        body.append(ast.Return(value=ast.Tuple(elts=elts, ctx=ast.Load()) if len(elts) > 1 else elts[0]))
    f = ast.FunctionDef(name=name, args=ast.arguments(posonlyargs=[], args=[], kwonlyargs=[], kw_defaults=[], defaults=[]),
                        body=body, decorator_list=[], type_params=[])
    ast.fix_missing_locations(f)
    return f


def _strip(stmts):
    """without docstrings / print calls"""
    return [st for st in stmts if not (isinstance(st, ast.Expr) and (isinstance(st.value, ast.Constant) or
                                                                       (isinstance(st.value, ast.Call) and _U(st.value.func) == 'print')))]


def _top_loops(P, fnode, what, n):
    body = _strip(fnode.body)
    found = [(i, st) for i, st in enumerate(body) if isinstance(st, ast.For)]
    if len(found) != n:
        raise P.Untranslatable(f'{what}: {len(found)} top-level `for` loops (expected {n})')
    if any(isinstance(st, ast.While) for st in body):
        raise P.Untranslatable(f'{what}: unexpected `while`')
    return body, found


def _plain(P, loop, what, target, allow=()):
    if _U(loop.target) != target:
        raise P.Untranslatable(f'{what}: loop target `{_U(loop.target)}` (expected `{target}`)')
    if loop.orelse:
        raise P.Untranslatable(f'{what}: loop has an else clause')
    for x in ast.walk(loop):
        if isinstance(x, (ast.Break, ast.Continue, ast.Return, ast.For, ast.While, ast.Raise)) and x is not loop \
                and not isinstance(x, allow):
            raise P.Untranslatable(f'{what}: loop body contains {type(x).__name__}')


def _range3(P, it, what):
    """`range(a)` / `range(a, b)` / `range(a, b, c)` -> statements start/stop/step"""
    if not (isinstance(it, ast.Call) and _U(it.func) == 'range' and 1 <= len(it.args) <= 3 and not it.keywords):
        raise P.Untranslatable(f'{what}: loop header `{_U(it)}` is not a range(...)')
    a = list(it.args)
    if len(a) == 1:
        a = [ast.Constant(0), a[0], ast.Constant(1)]
    elif len(a) == 2:
        a = [a[0], a[1], ast.Constant(1)]
    return [_assign('start', a[0]), _assign('stop', a[1]), _assign('step', a[2])]


class _Reads(ast.NodeTransformer):
    """`arr[E]` / `arr[E1, E2]` (arr in `arrays`) -> scalar `arr_k`; collects the index expressions."""

    def __init__(self, P, arrays, what):
        self.P, self.arrays, self.what = P, arrays, what
        self.names = {}          # text -> scalar name
        self.order = []          # [(scalar name, [index expr])]
        self.per = {}

    def visit_Subscript(self, node):
        if isinstance(node.value, ast.Name) and node.value.id in self.arrays:
            if isinstance(node.slice, ast.Slice):
                raise self.P.Untranslatable(f'{self.what}: slice `{_U(node)}`')
            t = _U(node)
            if t not in self.names:
                k = self.per.get(node.value.id, 0)
                self.per[node.value.id] = k + 1
                self.names[t] = f'{node.value.id}_{k}'
                idx = list(node.slice.elts) if isinstance(node.slice, ast.Tuple) else [node.slice]
                for e in idx:
                    for x in ast.walk(e):
                        if isinstance(x, ast.Subscript):
                            raise self.P.Untranslatable(f'{self.what}: nested subscript `{t}`')
                self.order.append((self.names[t], idx))
            ctx = ast.Store() if isinstance(node.ctx, ast.Store) else ast.Load()
            return ast.copy_location(ast.Name(id=self.names[t], ctx=ctx), node)
        return self.generic_visit(node)


def _scalarise(P, stmts, arrays, what, expect):
    """-> (statements over scalars, statements `i0 = E0; i1 = E1; …` + names for the reads function)"""
    r = _Reads(P, set(arrays), what)
    out = [r.visit(copy.deepcopy(st)) for st in stmts]
    got = [n for n, _ in r.order]
    if got != list(expect):
        raise P.Untranslatable(f'{what}: array accesses {got} (expected {list(expect)})')
    idx_stmts, idx_names = [], []
    for n, idx in r.order:
        for m, e in enumerate(idx):
            nm = f'i_{n}' + (f'_{m}' if len(idx) > 1 else '')
            idx_stmts.append(_assign(nm, e))
            idx_names.append(nm)
    return out, idx_stmts, idx_names


def _detuple(P, stmts, what):
    """`a, b = x, y` -> `t_0 = x; t_1 = y; a = t_0; b = t_1` (Python evaluates the right side first), recursively in `if`s"""
    out = []
    for st in stmts:
        if isinstance(st, ast.Assign) and len(st.targets) == 1 and isinstance(st.targets[0], ast.Tuple):
            tg = st.targets[0].elts
            if not (isinstance(st.value, ast.Tuple) and len(st.value.elts) == len(tg) and all(isinstance(t, ast.Name) for t in tg)):
                raise P.Untranslatable(f'{what}: tuple assignment `{_U(st)}`')
            for k, v in enumerate(st.value.elts):
                out.append(_assign(f'swap_tmp_{k}', v))
            for k, t in enumerate(tg):
                out.append(_assign(t.id, _name(f'swap_tmp_{k}')))
        elif isinstance(st, ast.If):
            out.append(ast.If(test=st.test, body=_detuple(P, st.body, what), orelse=_detuple(P, st.orelse, what)))
        else:
            out.append(st)
    return out


def _clamp(P, body, var, what):
    """`var = np.arange(n) OP E` followed by `var[var CMP E2] = E3` -> element-wise statements on `v` for element `i`"""
    hits = [k for k, st in enumerate(body) if isinstance(st, ast.Assign) and _U(st.targets[0]) == var]
    if len(hits) != 1 or hits[0] + 1 >= len(body):
        raise P.Untranslatable(f'{what}: expected exactly one `{var} = …`')
    s0, s1 = body[hits[0]], body[hits[0] + 1]
    ok0 = isinstance(s0.value, ast.BinOp) and _U(s0.value.left) == 'np.arange(n)'
    ok1 = (isinstance(s1, ast.Assign) and isinstance(s1.targets[0], ast.Subscript) and _U(s1.targets[0].value) == var
           and isinstance(s1.targets[0].slice, ast.Compare) and _U(s1.targets[0].slice.left) == var
           and len(s1.targets[0].slice.ops) == 1)
    if not (ok0 and ok1):
        raise P.Untranslatable(f'{what}: `{_U(s0)}` / `{_U(s1)}` is not `{var} = np.arange(n) ± e; {var}[{var} < e2] = e3`')
    cmp_ = s1.targets[0].slice
    st0 = _assign('v', ast.BinOp(left=_name('i'), op=s0.value.op, right=s0.value.right))
    st1 = ast.If(test=ast.Compare(left=_name('v'), ops=cmp_.ops, comparators=cmp_.comparators),
                 body=[_assign('v', s1.value)], orelse=[])
    return [st0, st1], [_U(s0), _U(s1)]


def build_kern_loops(kind):
    def build(P, S):
        from py2lean import FuncSpec, Translator, Dialect, NUM, INT, BOOL, find_function
        consts = dict(S.module_consts(MATH_PY))
        consts.update(S.module_consts(SOLVER_PY))
        tr = Translator(Dialect(kind), consts)
        out = []

        def emit(fn, spec, **kw):
            out.append(tr.function(fn, spec, **kw))

        mtree = S.parse(MATH_PY)
        stree = S.parse(SOLVER_PY)
        # ===================================================================== solve_tridiagonal_matrix
        w = 'solve_tridiagonal_matrix'
        f = find_function(mtree, w)
        body, ((i1, fwd), (i2, back)) = _top_loops(P, f, w, 2)
        _plain(P, fwd, w + ' forward loop', 'j', allow=(ast.Raise,))
        _plain(P, back, w + ' back substitution', 'j')
        if i2 != i1 + 1 or _U(body[i2 + 1:][0] if body[i2 + 1:] else ast.Pass()) != 'return u' or len(body[i2 + 1:]) != 1:
            raise P.Untranslatable(f'{w}: expected the two loops back to back followed by `return u`')
        head, _ = _cut(P, body[:i1], w + ' head',
                       drop=['a, b, c = a_matrix.T', 'n = len(a)', 'u = np.zeros(n)', 'gam = np.zeros(n)'])
        ARR = ['a', 'b', 'c', 'r', 'u', 'gam']
        hs, hi_, hn = _scalarise(P, head, ARR, w + ' head', ['b_0', 'u_0', 'r_0'])
        emit(_mkfn('tri_head', hs, ['bet', 'u_0']),
             FuncSpec(w + '[before the loops]', 'tri_head', [('b_0', NUM), ('r_0', NUM)], 'tuple:num,num',
                      doc='(bet, u[0]) or the ValueError of a zero first pivot; b_0 / r_0 / u_0 = the elements at tri_head_reads'))
        emit(_mkfn('tri_head_reads', hi_, hn),
             FuncSpec(w + '[before the loops, indices]', 'tri_head_reads', [], 'tuple:int,int,int', doc='indices of b_0, u_0, r_0'))
        emit(_mkfn('tri_fwd_range', _range3(P, fwd.iter, w), ['start', 'stop', 'step']),
             FuncSpec(w + '[forward loop header]', 'tri_fwd_range', [('n', INT)], 'tuple:int,int,int',
                      doc='`for j in range(start, stop, step)`; n = len(a)'))
        fs, fi, fn_ = _scalarise(P, fwd.body, ARR, w + ' forward loop', ['gam_0', 'c_0', 'b_0', 'a_0', 'u_0', 'r_0', 'u_1'])
        emit(_mkfn('tri_fwd_step', fs, ['gam_0', 'bet', 'u_0']),
             FuncSpec(w + '[forward loop body]', 'tri_fwd_step',
                      [('bet', NUM), ('c_0', NUM), ('b_0', NUM), ('a_0', NUM), ('r_0', NUM), ('u_1', NUM)], 'tuple:num,num,num',
                      doc='one elimination step: returns (gam[j], bet, u[j]) or the ValueError of a zero pivot; the scalars are the '
                          'array elements at the indices of tri_fwd_reads'))
        emit(_mkfn('tri_fwd_reads', fi, fn_),
             FuncSpec(w + '[forward loop body, indices]', 'tri_fwd_reads', [('j', INT)], 'tuple:' + ','.join(['int'] * len(fn_)),
                      doc='indices of gam_0, c_0, b_0, a_0, u_0, r_0, u_1'))
        emit(_mkfn('tri_back_range', _range3(P, back.iter, w), ['start', 'stop', 'step']),
             FuncSpec(w + '[back substitution header]', 'tri_back_range', [('n', INT)], 'tuple:int,int,int'))
        bs_, bi, bn = _scalarise(P, back.body, ARR, w + ' back substitution', ['u_0', 'gam_0', 'u_1'])
        emit(_mkfn('tri_back_step', bs_, ['u_0']),
             FuncSpec(w + '[back substitution body]', 'tri_back_step', [('u_0', NUM), ('gam_0', NUM), ('u_1', NUM)], NUM,
                      doc='new u[j]; scalars = elements at tri_back_reads'))
        emit(_mkfn('tri_back_reads', bi, bn),
             FuncSpec(w + '[back substitution body, indices]', 'tri_back_reads', [('j', INT)], 'tuple:int,int,int',
                      doc='indices of u_0, gam_0, u_1'))
        # ===================================================================== band_matrix_multiplication
        w = 'band_matrix_multiplication'
        f = find_function(mtree, w)
        body, ((i1, outer),) = _top_loops(P, f, w, 1)
        if _U(outer.target) != 'i' or outer.orelse or len(outer.body) != 1 or not isinstance(outer.body[0], ast.For):
            raise P.Untranslatable(f'{w}: expected `for i in …:` with a single inner `for`')
        inner = outer.body[0]
        _plain(P, inner, w + ' inner loop', 'j')
        if [_U(s) for s in body[i1 + 1:]] != ['return x']:
            raise P.Untranslatable(f'{w}: expected `return x` after the loops')
        jl, tjl = _clamp(P, body[:i1], 'jl', w)
        ju, tju = _clamp(P, body[:i1], 'ju', w)
        _cut(P, body[:i1], w + ' head', drop=['n = a.shape[0]', 'x = np.zeros(n)'] + tjl + tju)
        emit(_mkfn('band_jl', jl, ['v']), FuncSpec(w + '[jl, element i]', 'band_jl', [('i', INT), ('n', INT), ('m1', INT)], INT,
                                                   doc='`jl = np.arange(n) - m1; jl[jl < 0] = 0` read element-wise'))
        emit(_mkfn('band_ju', ju, ['v']), FuncSpec(w + '[ju, element i]', 'band_ju', [('i', INT), ('n', INT), ('m2', INT)], INT,
                                                   doc='`ju = np.arange(n) + m2; ju[ju > n - 1] = n - 1` read element-wise'))
        emit(_mkfn('band_outer_range', _range3(P, outer.iter, w), ['start', 'stop', 'step']),
             FuncSpec(w + '[outer loop header]', 'band_outer_range', [('n', INT)], 'tuple:int,int,int'))
        BARR = ['a', 'b', 'x', 'jl', 'ju']
        hdr = _range3(P, inner.iter, w)
        hs, hi_, hn = _scalarise(P, hdr, BARR, w + ' inner header', ['jl_0', 'ju_0'])
        emit(_mkfn('band_inner_range', hs, ['start', 'stop', 'step']),
             FuncSpec(w + '[inner loop header]', 'band_inner_range', [('jl_0', INT), ('ju_0', INT)], 'tuple:int,int,int',
                      doc='jl_0 / ju_0 = the elements at band_inner_range_reads'))
        emit(_mkfn('band_inner_range_reads', hi_, hn),
             FuncSpec(w + '[inner loop header, indices]', 'band_inner_range_reads', [('i', INT)], 'tuple:int,int'))
        bs_, bi, bn = _scalarise(P, inner.body, BARR, w + ' inner loop', ['x_0', 'a_0', 'b_0'])
        pre = [st for st in bs_ if isinstance(st, ast.Assign) and isinstance(st.targets[0], ast.Name)
               and not any(isinstance(x, ast.Name) and x.id in ('x_0', 'a_0', 'b_0') for x in ast.walk(st))]
        emit(_mkfn('band_step', bs_, ['x_0']),
             FuncSpec(w + '[inner loop body]', 'band_step', [('i', INT), ('j', INT), ('m1', INT), ('x_0', NUM), ('a_0', NUM), ('b_0', NUM)], NUM,
                      doc='new x[i]; scalars = elements at band_step_reads'))
        emit(_mkfn('band_step_reads', pre + bi, bn),
             FuncSpec(w + '[inner loop body, indices]', 'band_step_reads', [('i', INT), ('j', INT), ('m1', INT)],
                      'tuple:' + ','.join(['int'] * len(bn)), doc='indices of x_0, a_0 (row, band column), b_0'))
        # ===================================================================== npv
        w = 'npv'
        f = find_function(mtree, w)
        body, ((i1, loop),) = _top_loops(P, f, w, 1)
        _plain(P, loop, w, '(t, c)')
        if _U(loop.iter) != 'times_cfs':
            raise P.Untranslatable(f'{w}: loop over `{_U(loop.iter)}` (expected the whole list `times_cfs`)')
        if [_U(s) for s in body[i1 + 1:]] != ['return _npv'] or [_U(s.targets[0]) for s in body[:i1] if isinstance(s, ast.Assign)] != ['_npv'] \
                or len(body[:i1]) != 1:
            raise P.Untranslatable(f'{w}: expected `_npv = …; for …; return _npv`')
        emit(_mkfn('npv_init', body[:i1], ['_npv']), FuncSpec(w + '[loop init]', 'npv_init', [], NUM))
        emit(_mkfn('npv_step', loop.body, ['_npv']),
             FuncSpec(w + '[loop body]', 'npv_step', [('irr', NUM), ('_npv', NUM), ('t', NUM), ('c', NUM)], NUM,
                      doc='one cash flow (t, c) of `for t, c in times_cfs`'))
        # ===================================================================== bisection
        w = 'bisection'
        f = find_function(stree, w)
        body, ((i1, loop),) = _top_loops(P, f, w, 1)
        _plain(P, loop, w, 'i', allow=(ast.Return,))
        if [_U(s) for s in body[i1 + 1:]] != ['return None']:
            raise P.Untranslatable(f'{w}: expected `return None` after the loop')
        head, _ = _cut(P, body[:i1], w + ' head',
                       subst={'func(x1, args)': 'f1_in', 'func(x2, args)': 'f2_in'},
                       replace={'return x1': 'return 1', 'return x2': 'return 2', 'return None': 'return 3'})
        emit(_mkfn('bisect_head', head + ast.parse('return 0').body),
             FuncSpec(w + '[before the loop]', 'bisect_head', [('x1', NUM), ('x2', NUM), ('f1_in', NUM), ('f2_in', NUM), ('xtol', NUM)], INT,
                      doc='which exit is taken before the loop: FinError, 1 = `return x1`, 2 = `return x2`, 3 = `return None` (root not '
                          'bracketed), 0 = the loop is entered; f1_in = func(x1, args), f2_in = func(x2, args)'))
        emit(_mkfn('bisect_range', _range3(P, loop.iter, w), ['start', 'stop', 'step']),
             FuncSpec(w + '[loop header]', 'bisect_range', [('maxiter', INT)], 'tuple:int,int,int'))
        lb = _strip(loop.body)
        if len(lb) < 3 or _U(lb[0].targets[0] if isinstance(lb[0], ast.Assign) else lb[0]) != 'xmid' or _U(lb[1]) != 'fmid = func(xmid, args)':
            raise P.Untranslatable(f'{w}: the loop body does not start with `xmid = …; fmid = func(xmid, args)`')
        emit(_mkfn('bisect_mid', lb[:1], ['xmid']), FuncSpec(w + '[loop body, abscissa]', 'bisect_mid', [('x1', NUM), ('x2', NUM)], NUM))
        rest, _ = _cut(P, lb[2:], w + ' loop', replace={'return xmid': 'done = True'})
        emit(_mkfn('bisect_step', ast.parse('done = False').body + rest, ['x1', 'x2', 'done']),
             FuncSpec(w + '[loop body after the evaluation]', 'bisect_step',
                      [('f1', NUM), ('x1', NUM), ('x2', NUM), ('xmid', NUM), ('fmid', NUM), ('xtol', NUM)], 'tuple:num,num,bool',
                      doc='the new bracket and done = `return xmid` is taken; fmid = func(xmid, args)'))
        # ===================================================================== newton_secant
        w = 'newton_secant'
        f = find_function(stree, w)
        body, ((i1, loop),) = _top_loops(P, f, w, 1)
        _plain(P, loop, w, '_', allow=(ast.Return, ast.Break, ast.Raise))
        texts = [_U(s) for s in body]
        eps_at = [k for k, st in enumerate(body) if isinstance(st, ast.Assign) and _U(st.targets[0]) == 'eps']
        if len(eps_at) != 1 or 'q0 = func(p0, *args)' not in texts:
            raise P.Untranslatable(f'{w}: expected one top-level `eps = …` and `q0 = func(p0, *args)`')
        k_eps, k_q0 = eps_at[0], texts.index('q0 = func(p0, *args)')
        emit(_mkfn('nsec_guard', body[:k_eps] + ast.parse('return 0').body),
             FuncSpec(w + '[argument checks]', 'nsec_guard', [('tol', NUM), ('maxiter', INT)], INT, doc='FinError or 0'))
        start, _ = _cut(P, body[k_eps:k_q0], w + ' start', drop=['fun_calls = 0', 'status = _ECONVERR'])
        emit(_mkfn('nsec_start', start, ['p0', 'p1']), FuncSpec(w + '[starting abscissae]', 'nsec_start', [('x0', NUM)], 'tuple:num,num'))
        emit(_mkfn('nsec_status_init', ast.parse('status = _ECONVERR').body, ['status']),
             FuncSpec(w + '[status]', 'nsec_status_init', [], INT))
        mid, _ = _cut(P, body[k_q0:i1], w + ' evaluations',
                      drop=['q0 = func(p0, *args)', 'q1 = func(p1, *args)', 'fun_calls += 1'], counts={'fun_calls += 1': 2})
        emit(_mkfn('nsec_swap', _detuple(P, mid, w), ['p0', 'p1', 'q0', 'q1']),
             FuncSpec(w + '[ordering of the start]', 'nsec_swap', [('p0', NUM), ('p1', NUM), ('q0', NUM), ('q1', NUM)],
                      'tuple:num,num,num,num', doc='q0 = func(p0, *args), q1 = func(p1, *args)'))
        emit(_mkfn('nsec_range', _range3(P, loop.iter, w), ['start', 'stop', 'step']),
             FuncSpec(w + '[loop header]', 'nsec_range', [('maxiter', INT)], 'tuple:int,int,int'))
        lb = _strip(loop.body)
        ltexts = [_U(s) for s in lb]
        if 'p0, q0 = (p1, q1)' not in ltexts:
            raise P.Untranslatable(f'{w}: `p0, q0 = p1, q1` not found in the loop body')
        k_sh = ltexts.index('p0, q0 = (p1, q1)')
        tests, _ = _cut(P, lb[:k_sh], w + ' exit tests', replace={'break': 'return (p, 1)', 'return p': 'return (p, 2)'})
        emit(_mkfn('nsec_step', tests + ast.parse('return (p, 0)').body),
             FuncSpec(w + '[loop body, update and exit tests]', 'nsec_step',
                      [('p0', NUM), ('p1', NUM), ('q0', NUM), ('q1', NUM), ('tol', NUM)], 'tuple:num,int',
                      doc='(p, exit): exit 1 = `break` with status converged (coinciding abscissae), 2 = `return p` (step below tol), '
                          '0 = next iteration; FinError = flat secant through distinct abscissae'))
        shift, _ = _cut(P, lb[k_sh:], w + ' shift', subst={'func(p1, *args)': 'q_in'}, drop=['fun_calls += 1'])
        emit(_mkfn('nsec_shift', _detuple(P, shift, w), ['p0', 'p1', 'q0', 'q1']),
             FuncSpec(w + '[loop body, shift]', 'nsec_shift', [('p0', NUM), ('p1', NUM), ('q0', NUM), ('q1', NUM), ('p', NUM), ('q_in', NUM)],
                      'tuple:num,num,num,num', doc='q_in = func(p, *args)'))
        tail, _ = _cut(P, body[i1 + 1:], w + ' tail', drop=["msg = 'Failed to converge'"])
        emit(_mkfn('nsec_tail', tail),
             FuncSpec(w + '[after the loop]', 'nsec_tail', [('disp', BOOL), ('status', INT), ('p', NUM)], NUM))
        # ===================================================================== newton (Newton-Raphson path)
        w = 'newton'
        f = find_function(stree, w)
        body = _strip(f.body)
        branch = [st for st in body if isinstance(st, ast.If) and _U(st.test) == 'fprime is not None']
        if len(branch) != 1:
            raise P.Untranslatable(f'{w}: expected exactly one `if fprime is not None:`')
        k_br = body.index(branch[0])
        guard, _ = _cut(P, body[:k_br], w + ' guard', drop=['maxiter = operator.index(maxiter)', 'fun_calls = 0'])
        emit(_mkfn('newton_guard', guard, ['p0']),
             FuncSpec(w + '[argument checks]', 'newton_guard', [('x0', NUM), ('tol', NUM), ('maxiter', INT)], NUM,
                      doc='FinError or the starting point p0'))
        nb = _strip(branch[0].body)
        if len(nb) != 1 or not isinstance(nb[0], ast.For):
            raise P.Untranslatable(f'{w}: the Newton-Raphson branch is not a single `for`')
        loop = nb[0]
        _plain(P, loop, w, 'itr', allow=(ast.Return,))
        emit(_mkfn('newton_range', _range3(P, loop.iter, w), ['start', 'stop', 'step']),
             FuncSpec(w + '[Newton-Raphson loop header]', 'newton_range', [('maxiter', INT)], 'tuple:int,int,int'))
        lb = _strip(loop.body)
        hall = [st for st in lb if isinstance(st, ast.If) and _U(st.test) == 'fprime2']
        if len(hall) != 1:
            raise P.Untranslatable(f'{w}: expected exactly one `if fprime2:` in the loop body')
        hbody, _ = _cut(P, _strip(hall[0].body), w + ' Halley', subst={'fprime2(p0, args)': 'fder2_in'}, drop=['fun_calls += 1'])
        k_h = lb.index(hall[0])
        lb2 = lb[:k_h] + [ast.If(test=_name('has_fprime2'), body=hbody, orelse=[])] + lb[k_h + 1:]
        zero_der = [st for st in lb2 if isinstance(st, ast.If) and _U(st.test) == 'fder == 0']
        if len(zero_der) != 1 or _U(_strip(zero_der[0].body)[-1]) != 'return None':
            raise P.Untranslatable(f'{w}: expected `if fder == 0: … return None`')
        zero_der[0].body = ast.parse('return (p0, 3)').body
        stepb, _ = _cut(P, lb2, w + ' loop',
                        subst={'func(p0, args)': 'fval_in', 'fprime(p0, args)': 'fder_in'},
                        drop=['fun_calls += 1'], counts={'fun_calls += 1': 2},
                        replace={'return p0': 'return (p0, 1)', 'p0 = p': 'return (p, 0)',
                                 'if np.isclose(p, p0, rtol=rtol, atol=tol):\n    return p':
                                     'if abs(p - p0) <= tol + rtol * abs(p0):\n    return (p, 2)'})
        emit(_mkfn('newton_step', stepb),
             FuncSpec(w + '[Newton-Raphson / Halley loop body]', 'newton_step',
                      [('p0', NUM), ('fval_in', NUM), ('fder_in', NUM), ('has_fprime2', BOOL), ('fder2_in', NUM), ('tol', NUM), ('rtol', NUM)],
                      'tuple:num,int',
                      doc='(p, exit): 1 = `return p0` (fval == 0), 3 = `return None` (zero derivative), 2 = `return p` (np.isclose, read as '
                          '|p - p0| <= tol + rtol |p0| on finite scalars), 0 = `p0 = p`, next iteration; fval_in = func(p0, args), '
                          'fder_in = fprime(p0, args), fder2_in = fprime2(p0, args) (read only when has_fprime2)'))
        ns = 'KernLoopR' if kind == 'real' else 'KernLoopF'
        text = prelude(ns, kind) + '\n'.join(out) + f'\nend FinVerif.Gen.{ns}\n'
        return SOURCES, text
    return build


MODULES = {'KernLoopR': build_kern_loops('real')}
