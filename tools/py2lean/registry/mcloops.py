"""McLoopR — the LOOPS of `financepy/models/process_simulator.py:get_gbm_paths` (NORMAL and ANTITHETIC branches), cut out
of the source `for` statements (ℝ / Int, for Props/C19j).

The translator takes no loops and no arrays; what it takes is every straight-line piece OF the loops:

  gbm_dt, gbm_steps_arg        `dt = …` and the ARGUMENT of `int(·)` in `num_time_steps = int(…)`
  gbm_consts                   `(vsqrt_dt, m)`
  per branch X in {n (NORMAL), a (ANTITHETIC)}:
  gbm_X_shape                  the two extents of `s_all = np.empty((rows, cols))`
  gbm_X_init                   the value of `s_all[:, 0] = …` (the store target text must be exactly `s_all[:, 0]`)
  gbm_X_time_range             `for it in range(lo, hi)`
  gbm_X_path_range             `for ip in range(lo, hi)`
  gbm_X_idx                    the subscripts (row, column) of every store and of every read of s_all in the inner body,
                               and the subscript of the read of g1D
  gbm_X_step                   the inner body: reads become scalar parameters (pinned by their exact text and count),
                               stores become outputs
The statement between the two loop headers must be exactly `g1D = np.random.standard_normal(num_paths)` (one vector of
num_paths draws per time step: the draw ORDER the correspondence relies on) and `np.random.seed(seed)` must be the first
statement.  The branch tests must be `scheme == FinGBMNumericalScheme.NORMAL.value` / `.ANTITHETIC.value`, in this order,
and the else branch must raise.  Anything else raises Untranslatable.
"""
from __future__ import annotations

import ast
import copy

from registry.bs import prelude
from registry.crrloops import U, _name, _assign, _fn, _range_stmts, _plain, _one, _is_assign_to

PS_PY = 'financepy/models/process_simulator.py'
SOURCES = [PS_PY]


class _Cut(ast.NodeTransformer):
    """reads: exact subscript text -> scalar name; stores: exact target text -> output name"""

    def __init__(self, P, what, reads, stores):
        self.P, self.what, self.reads, self.stores = P, what, dict(reads), dict(stores)
        self.n = {k: 0 for k in list(self.reads) + list(self.stores)}

    def visit_Subscript(self, node):
        t = U(node)
        if isinstance(node.ctx, ast.Store):
            if t not in self.stores:
                raise self.P.Untranslatable(f'{self.what}: unexpected array store `{t}`')
            self.n[t] += 1
            return ast.copy_location(_name(self.stores[t], True), node)
        if t not in self.reads:
            raise self.P.Untranslatable(f'{self.what}: unexpected array read `{t}`')
        self.n[t] += 1
        return ast.copy_location(_name(self.reads[t]), node)


def _cut(P, stmts, what, reads, stores, counts=None):
    c = _Cut(P, what, reads, stores)
    out = [c.visit(copy.deepcopy(s)) for s in stmts]
    counts = counts or {}
    bad = [f'`{k}` x{v} (expected {counts.get(k, 1)})' for k, v in c.n.items() if v != counts.get(k, 1)]
    if bad:
        raise P.Untranslatable(f'{what}: array glue changed: ' + ' | '.join(bad))
    for s in out:
        ast.fix_missing_locations(s)
    return out


def _sub2(P, text, what):
    """`arr[r, c]` -> (r, c) expression nodes"""
    n = ast.parse(text, mode='eval').body
    if not (isinstance(n, ast.Subscript) and isinstance(n.slice, ast.Tuple) and len(n.slice.elts) == 2):
        raise P.Untranslatable(f'{what}: `{text}` is not a 2-d subscript')
    return n.slice.elts


def build_mc(kind):
    def build(P, S):
        from py2lean import FuncSpec, Translator, Dialect, NUM, INT, find_function
        Un = P.Untranslatable
        tr = Translator(Dialect(kind), {})
        out = []

        def emit(name, stmts, rets, params, ret, doc=''):
            out.append(tr.function(_fn(name, stmts, rets), FuncSpec(f'get_gbm_paths[{name}]', name, params, ret, doc=doc)))

        w = 'get_gbm_paths'
        f = find_function(S.parse(PS_PY), w)
        if [a.arg for a in f.args.args] != ['num_paths', 'num_annual_steps', 't', 'mu', 'stock_price', 'sigma', 'scheme', 'seed']:
            raise Un(f'{w}: parameter list changed')
        body = [s for s in f.body if not (isinstance(s, ast.Expr) and isinstance(s.value, ast.Constant))]
        if U(body[0]) != 'np.random.seed(seed)':
            raise Un(f'{w}: the first statement is not `np.random.seed(seed)`')
        i_if, st_if = _one(P, body, lambda s: isinstance(s, ast.If), w, 'top-level if')
        pre = body[1:i_if]
        if [U(s.targets[0]) if isinstance(s, ast.Assign) else '?' for s in pre] != ['dt', 'num_time_steps', 'vsqrt_dt', 'm']:
            raise Un(f'{w}: the statements before the branch are not dt, num_time_steps, vsqrt_dt, m')
        post = body[i_if + 1:]
        if [U(s) for s in post] != ['return s_all']:
            raise Un(f'{w}: the statements after the branch are not just `return s_all`')
        st_dt, st_ns, st_vs, st_m = pre
        emit('gbm_dt', [st_dt], ['dt'], [('num_annual_steps', INT)], NUM)
        v = st_ns.value
        if not (isinstance(v, ast.Call) and U(v.func) == 'int' and len(v.args) == 1 and not v.keywords):
            raise Un(f'{w}: `{U(st_ns)}` is not `num_time_steps = int(…)`')
        emit('gbm_steps_arg', [_assign('arg', v.args[0])], ['arg'], [('t', NUM), ('dt', NUM)], NUM,
             doc='the argument of `int(·)` in `num_time_steps = int(…)` (int truncates toward zero)')
        emit('gbm_consts', [st_vs, st_m], ['vsqrt_dt', 'm'], [('mu', NUM), ('sigma', NUM), ('dt', NUM)], 'tuple:num,num')
        # ----------------------------------------------------------------------------- the two branches
        if U(st_if.test) != 'scheme == FinGBMNumericalScheme.NORMAL.value':
            raise Un(f'{w}: first branch test is `{U(st_if.test)}`')
        if len(st_if.orelse) != 1 or not isinstance(st_if.orelse[0], ast.If):
            raise Un(f'{w}: no elif branch')
        st_el = st_if.orelse[0]
        if U(st_el.test) != 'scheme == FinGBMNumericalScheme.ANTITHETIC.value':
            raise Un(f'{w}: second branch test is `{U(st_el.test)}`')
        if len(st_el.orelse) != 1 or not isinstance(st_el.orelse[0], ast.Raise):
            raise Un(f'{w}: the else branch does not raise')

        def branch(x, stmts, reads, stores):
            ww = f'{w} {"NORMAL" if x == "n" else "ANTITHETIC"} branch'
            if len(stmts) != 3 or not isinstance(stmts[2], ast.For):
                raise Un(f'{ww}: expected alloc, init, time loop')
            al, ini, lt = stmts
            if not (_is_assign_to('s_all')(al) and isinstance(al.value, ast.Call) and U(al.value.func) == 'np.empty'
                    and len(al.value.args) == 1 and not al.value.keywords and isinstance(al.value.args[0], ast.Tuple)
                    and len(al.value.args[0].elts) == 2):
                raise Un(f'{ww}: `{U(al)}` is not `s_all = np.empty((rows, cols))`')
            r, c = al.value.args[0].elts
            emit(f'gbm_{x}_shape', [_assign('rows', r), _assign('cols', c)], ['rows', 'cols'],
                 [('num_paths', INT), ('num_time_steps', INT)], 'tuple:int,int', doc='extents of `s_all = np.empty((rows, cols))`')
            if not (isinstance(ini, ast.Assign) and len(ini.targets) == 1 and U(ini.targets[0]) == 's_all[:, 0]'):
                raise Un(f'{ww}: `{U(ini)}` is not `s_all[:, 0] = …`')
            emit(f'gbm_{x}_init', [_assign('s0', ini.value)], ['s0'], [('stock_price', NUM)], NUM, doc='`s_all[:, 0] = s0`: column 0 of every row')
            if U(lt.target) != 'it':
                raise Un(f'{ww}: outer loop variable is {U(lt.target)}')
            inner = _plain(P, lt, ww, inner=1)
            _plain(P, inner, ww + ' (inner)')
            if U(inner.target) != 'ip':
                raise Un(f'{ww}: inner loop variable is {U(inner.target)}')
            hs, hn = _range_stmts(P, lt.iter, ww, 2)
            emit(f'gbm_{x}_time_range', hs, hn, [('num_time_steps', INT)], 'tuple:int,int', doc='`for it in range(lo, hi)`')
            if [U(s) for s in lt.body[:-1]] != ['g1D = np.random.standard_normal(num_paths)']:
                raise Un(f'{ww}: the draw statement is not `g1D = np.random.standard_normal(num_paths)`: {[U(s) for s in lt.body[:-1]]}')
            hs, hn = _range_stmts(P, inner.iter, ww + ' (inner)', 2)
            emit(f'gbm_{x}_path_range', hs, hn, [('num_paths', INT)], 'tuple:int,int', doc='`for ip in range(lo, hi)`')
            idx, names = [], []
            for text, nm in list(stores.items()) + [(k, v) for k, v in reads.items() if k.startswith('s_all[')]:
                rr, cc = _sub2(P, text, ww)
                idx += [_assign(nm + '_row', rr), _assign(nm + '_col', cc)]
                names += [nm + '_row', nm + '_col']
            gtxt = [k for k in reads if k.startswith('g1D[')]
            if len(gtxt) != 1:
                raise Un(f'{ww}: g1D read')
            idx.append(_assign('g_idx', ast.parse(gtxt[0], mode='eval').body.slice))
            names.append('g_idx')
            emit(f'gbm_{x}_idx', idx, names, [('ip', INT), ('it', INT), ('num_paths', INT)], 'tuple:' + ','.join(['int'] * len(names)),
                 doc='subscripts of the inner body, in order: ' + ', '.join(names))
            st = _cut(P, inner.body, ww, reads, stores)
            emit(f'gbm_{x}_step', st, list(stores.values()), [(v, NUM) for v in reads.values()] + [('m', NUM), ('vsqrt_dt', NUM)],
                 'tuple:' + ','.join(['num'] * len(stores)) if len(stores) > 1 else NUM,
                 doc='one inner iteration; reads: ' + ', '.join(f'{v} = {k}' for k, v in reads.items())
                     + '; stores: ' + ', '.join(f'{k} = {v}' for k, v in stores.items()))

        branch('n', st_if.body, {'s_all[ip, it - 1]': 's_prev', 'g1D[ip]': 'g_in'}, {'s_all[ip, it]': 's_out'})
        branch('a', st_el.body, {'s_all[ip, it - 1]': 's_prev', 's_all[ip + num_paths, it - 1]': 's_prev2', 'g1D[ip]': 'g_in'},
               {'s_all[ip, it]': 's_out', 's_all[ip + num_paths, it]': 's_out2'})
        ns = 'McLoopR'
        text = prelude(ns, kind) + '\n'.join(out) + f'\nend FinVerif.Gen.{ns}\n'
        return SOURCES, text
    return build


MODULES = {'McLoopR': build_mc('real')}
