"""Generated modules for the rate-option price functions that are not part of the Black-Scholes family registry
(property C08).

  RateOptF  Float, executable (Driver/C08: ops SABRGEN / HWZCBGEN; correspondence with the implementation and with the
            hand model `Model/C08.sabrValue` / `hwZcb` on the same inputs)
  RateOptP  ℝ, the same source text with the normal cdf abstracted to the parameter `Ncdf` (Props/C08c: the hand model
            functions `sabrValue`, `hwZcb` ARE these generated functions — `sabrValue_is_generated`, `hwZcb_is_generated`)

What is translated (name in the generated module  <-  source):

  sabr_value           <- SABR.value            models/sabr.py          (slice: `vol = self.black_vol(f, k, t)` — the njit
                                                                         Hagan formula — becomes the parameter black_vol_in)
  sabr_shifted_value   <- SABRShifted.value     models/sabr_shifted.py  (same slice)
  hw_option_on_zcb     <- HWTree.option_on_zcb  models/hw_tree.py       (slice: the two curve reads `_uinterpolate(t, df_times,
                                                                         df_values, INTERP)` become the parameters pt_exp_in,
                                                                         pt_mat_in; `return {'call': c, 'put': p}` is read as
                                                                         the pair (c, p); self.sigma, self.a are parameters)

Every statement whose right-hand side becomes a parameter is listed below with its exact source text
(`_astprep.slice_method`: each must occur exactly once, otherwise generation fails loudly).
"""
from __future__ import annotations

import ast
import copy

from registry.bs import prelude, all_consts, MATH_PY, GT_PY, GV_PY

SABR_PY = 'financepy/models/sabr.py'
SABRS_PY = 'financepy/models/sabr_shifted.py'
HW_PY = 'financepy/models/hw_tree.py'

SOURCES = [SABR_PY, SABRS_PY, HW_PY, MATH_PY, GT_PY, GV_PY]

SABR_SUBST = {'self.black_vol(f, k, t)': 'black_vol_in'}
HW_SUBST = {
    '_uinterpolate(t_exp, df_times, df_values, INTERP)': 'pt_exp_in',
    '_uinterpolate(t_mat, df_times, df_values, INTERP)': 'pt_mat_in',
}


def _dict_return_to_pair(fnode, keys, P):
    """`return {'call': a, 'put': b}` (the LAST statement, the only return) -> `return (a, b)`."""
    fnode = copy.deepcopy(fnode)
    rets = [x for x in ast.walk(fnode) if isinstance(x, ast.Return)]
    last = fnode.body[-1]
    if len(rets) != 1 or rets[0] is not last or not isinstance(last.value, ast.Dict):
        raise P.Untranslatable(f'{fnode.name}: expected exactly one final `return {{...}}`')
    got = [k.value if isinstance(k, ast.Constant) else None for k in last.value.keys]
    if got != list(keys):
        raise P.Untranslatable(f'{fnode.name}: returned dict keys {got} (expected {list(keys)})')
    last.value = ast.Tuple(elts=list(last.value.values), ctx=ast.Load())
    ast.fix_missing_locations(fnode)
    return fnode


def _kernels(tr, S, P, out):
    from py2lean import FuncSpec, INT, NUM, find_function
    from registry._astprep import slice_method
    five = [('forward_rate', NUM), ('strike_rate', NUM), ('time_to_expiry', NUM), ('df', NUM), ('call_or_put', INT),
            ('black_vol_in', NUM)]
    fn = slice_method(find_function(S.parse(SABR_PY), 'SABR.value'), [], SABR_SUBST, 'sabr_value')
    out.append(tr.function(fn, FuncSpec('SABR.value', 'sabr_value', five, NUM,
                                        doc='black_vol_in = self.black_vol(f, k, t) (Hagan formula, njit)')))
    fn = slice_method(find_function(S.parse(SABRS_PY), 'SABRShifted.value'), [], SABR_SUBST, 'sabr_shifted_value')
    out.append(tr.function(fn, FuncSpec('SABRShifted.value', 'sabr_shifted_value', five, NUM,
                                        doc='black_vol_in = self.black_vol(f, k, t) (shifted Hagan formula, njit)')))
    fn = _dict_return_to_pair(find_function(S.parse(HW_PY), 'HWTree.option_on_zcb'), ('call', 'put'), P)
    fn = slice_method(fn, [], HW_SUBST, 'hw_option_on_zcb')
    out.append(tr.function(fn, FuncSpec(
        'HWTree.option_on_zcb', 'hw_option_on_zcb',
        [('t_exp', NUM), ('t_mat', NUM), ('strike', NUM), ('face_amount', NUM), ('pt_exp_in', NUM), ('pt_mat_in', NUM)],
        'tuple:num,num',
        attr_map={'self.sigma': ('sigma', NUM), 'self.a': ('a', NUM)},
        extra_params=[('sigma', NUM), ('a', NUM)],
        doc='returns (call, put); pt_exp_in / pt_mat_in = the curve knots interpolated at t_exp / t_mat')))


def _consts(S):
    consts = all_consts(S)
    hw = S.module_consts(HW_PY)
    consts['SMALL'] = hw['SMALL']
    return consts


def build_float(P, S):
    from py2lean import Translator, Dialect, FuncSpec, NUM
    tr = Translator(Dialect('float'), _consts(S))
    tr.funcs['N'] = FuncSpec('N', 'FinVerif.Gen.BSF.N', [('x', NUM)], NUM)     # utils.math.N as generated in Gen/BSF
    out = []
    _kernels(tr, S, P, out)
    body = prelude('RateOptF', 'float', ('FinVerif.Gen.BSF',)) + '\n'.join(out) + '\nend FinVerif.Gen.RateOptF\n'
    return SOURCES, body


def build_param(P, S):
    from py2lean import Translator, Dialect, FuncSpec, NUM
    tr = Translator(Dialect('real'), _consts(S))
    tr.funcs['N'] = FuncSpec('N', 'Ncdf', [('x', NUM)], NUM)
    out = []
    _kernels(tr, S, P, out)
    body = prelude('RateOptP', 'real', variables='variable (Ncdf : ℝ → ℝ)') + '\n'.join(out) + '\nend FinVerif.Gen.RateOptP\n'
    return SOURCES, body


MODULES = {'RateOptF': build_float, 'RateOptP': build_param}
