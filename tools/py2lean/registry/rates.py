"""Generated modules for the bootstrap's closed forms and objectives (property C01).

  RatesF  Float, executable (Driver/C01, correspondence with the implementation)
  RatesR  ℝ, noncomputable (Props/C01b: knot repricing identities, root = closed form, sign / monotonicity facts)

What is translated (name in the generated module  <-  source):

  deposit_maturity_df   <- IborDeposit._maturity_df      products/rates/ibor_deposit.py  (slice: the year fraction is a parameter)
  deposit_value         <- IborDeposit.value                                              (slice: year fraction and the two curve reads are parameters;
                                                                                           dates are serial day numbers)
  fra_value             <- IborFRA.value                  products/rates/ibor_fra.py      (slice, `pv_only` := True: the cash-flow-report branch is not
                                                                                           translated; year fraction and the four curve reads are parameters)
  fra_maturity_df       <- IborFRA.maturity_df                                            (slice)
  futures_rate          <- IborFuture.futures_rate        products/rates/ibor_future.py   (whole method)
  futures_fra_rate      <- IborFuture.fra_rate                                            (whole method)
  futures_convexity     <- IborFuture.convexity                                           (slice: the two date differences are parameters)

Every statement that is dropped or whose right-hand side becomes a parameter is listed below with its exact
source text (`_astprep.slice_method`: each must occur exactly once, otherwise generation fails loudly).
The objective functions `_g` / `_f` of the three curve classes are `instrument.value(...) / notional` with the last
knot overwritten — object state; they are modelled by hand (Props/C01*.lean) on top of these kernels and of C06's
swap model, and the solver is a parameter with its postcondition.
"""
from __future__ import annotations

import ast
import copy

from registry.bs import prelude, GV_PY

DEPO_PY = 'financepy/products/rates/ibor_deposit.py'
FRA_PY = 'financepy/products/rates/ibor_fra.py'
FUT_PY = 'financepy/products/rates/ibor_future.py'

SOURCES = [DEPO_PY, FRA_PY, FUT_PY, GV_PY]

DC_STMT = 'dc = DayCount(self.dc_type)'
ACC_RHS = 'dc.year_frac(self.start_dt, self.maturity_dt)[0]'

DEPO_VALUE_SUBST = {
    ACC_RHS: 'acc_in',
    'libor_curve.df(self.start_dt)': 'df_settle_in',
    'libor_curve.df(self.maturity_dt)': 'df_maturity_in',
}
FRA_VALUE_DROP = [DC_STMT, 'if index_curve is None:\n    index_curve = discount_curve']
FRA_VALUE_SUBST = {
    ACC_RHS: 'acc_in',
    'index_curve.df(self.start_dt)': 'df_index1_in',
    'index_curve.df(self.maturity_dt)': 'df_index2_in',
    'discount_curve.df(self.maturity_dt)': 'df_mat_in',
    'discount_curve.df(value_dt)': 'df_value_in',
}
FRA_KNOT_SUBST = {ACC_RHS: 'acc_in', 'index_curve.df(self.start_dt)': 'df1_in'}
CONVEXITY_SUBST = {
    '(self.last_trading_dt - value__dt) / g_days_in_year': 't1_in',
    '(self.end_of_interest_period - value__dt) / g_days_in_year': 't2_in',
}


def _pv_only_true(fnode, P):
    """`if pv_only: return v  else: <cash-flow report>`  ->  `return v` (the report branch builds a pandas frame).
    Refuses anything but exactly one top-level `if pv_only:` whose body is a single return."""
    fnode = copy.deepcopy(fnode)
    out, n = [], 0
    for st in fnode.body:
        if isinstance(st, ast.If) and isinstance(st.test, ast.Name) and st.test.id == 'pv_only':
            if len(st.body) != 1 or not isinstance(st.body[0], ast.Return):
                raise P.Untranslatable('IborFRA.value: the pv_only branch is not a single return')
            out.append(st.body[0])
            n += 1
        else:
            out.append(st)
    if n != 1:
        raise P.Untranslatable(f'IborFRA.value: {n} top-level `if pv_only:` statements (expected 1)')
    fnode.body = out
    return fnode


def build_rates(kind):
    def build(P, S):
        from py2lean import FuncSpec, Translator, Dialect, NUM, INT, BOOL, find_function
        from registry._astprep import slice_method
        consts = dict(S.module_consts(GV_PY))
        tr = Translator(Dialect(kind), consts)
        out = []
        # ---------------------------------------------------------------- IborDeposit
        tree = S.parse(DEPO_PY)
        fn = slice_method(find_function(tree, 'IborDeposit._maturity_df'), [DC_STMT], {ACC_RHS: 'acc_in'},
                          'deposit_maturity_df')
        out.append(tr.function(fn, FuncSpec(
            'IborDeposit._maturity_df', 'deposit_maturity_df', [('acc_in', NUM)], NUM,
            attr_map={'self.deposit_rate': ('deposit_rate', NUM)}, extra_params=[('deposit_rate', NUM)],
            doc='acc_in = DayCount(dc_type).year_frac(start_dt, maturity_dt)[0]')))
        fn = slice_method(find_function(tree, 'IborDeposit.value'), [DC_STMT], DEPO_VALUE_SUBST, 'deposit_value')
        out.append(tr.function(fn, FuncSpec(
            'IborDeposit.value', 'deposit_value',
            [('value_dt', INT), ('acc_in', NUM), ('df_settle_in', NUM), ('df_maturity_in', NUM)], NUM,
            attr_map={'self.deposit_rate': ('deposit_rate', NUM), 'self.notional': ('notional', NUM),
                      'self.maturity_dt': ('maturity_dt', INT)},
            extra_params=[('deposit_rate', NUM), ('notional', NUM), ('maturity_dt', INT)],
            doc='dates are serial day numbers; df_settle_in = libor_curve.df(start_dt), df_maturity_in = libor_curve.df(maturity_dt)')))
        # ---------------------------------------------------------------- IborFRA
        tree = S.parse(FRA_PY)
        fn = _pv_only_true(find_function(tree, 'IborFRA.value'), P)
        fn = slice_method(fn, FRA_VALUE_DROP, FRA_VALUE_SUBST, 'fra_value')
        out.append(tr.function(fn, FuncSpec(
            'IborFRA.value', 'fra_value',
            [('acc_in', NUM), ('df_index1_in', NUM), ('df_index2_in', NUM), ('df_mat_in', NUM), ('df_value_in', NUM)], NUM,
            attr_map={'self.fra_rate': ('fra_rate', NUM), 'self.notional': ('notional', NUM),
                      'self.pay_fixed_rate': ('pay_fixed_rate', BOOL)},
            extra_params=[('fra_rate', NUM), ('notional', NUM), ('pay_fixed_rate', BOOL)],
            doc='pv_only = True; df_index1/2_in = index_curve.df(start_dt / maturity_dt), df_mat_in = discount_curve.df(maturity_dt), '
                'df_value_in = discount_curve.df(value_dt)')))
        fn = slice_method(find_function(tree, 'IborFRA.maturity_df'), [DC_STMT], FRA_KNOT_SUBST, 'fra_maturity_df')
        out.append(tr.function(fn, FuncSpec(
            'IborFRA.maturity_df', 'fra_maturity_df', [('df1_in', NUM), ('acc_in', NUM)], NUM,
            attr_map={'self.fra_rate': ('fra_rate', NUM)}, extra_params=[('fra_rate', NUM)],
            doc='df1_in = index_curve.df(start_dt)')))
        # ---------------------------------------------------------------- IborFuture
        tree = S.parse(FUT_PY)
        out.append(tr.function(find_function(tree, 'IborFuture.futures_rate'), FuncSpec(
            'IborFuture.futures_rate', 'futures_rate', [('futures_price', NUM)], NUM, skip_params=('self',))))
        out.append(tr.function(find_function(tree, 'IborFuture.fra_rate'), FuncSpec(
            'IborFuture.fra_rate', 'futures_fra_rate', [('futures_price', NUM), ('convexity', NUM)], NUM,
            skip_params=('self',))))
        fn = slice_method(find_function(tree, 'IborFuture.convexity'), [], CONVEXITY_SUBST, 'futures_convexity')
        out.append(tr.function(fn, FuncSpec(
            'IborFuture.convexity', 'futures_convexity',
            [('t1_in', NUM), ('t2_in', NUM), ('volatility', NUM), ('mean_reversion', NUM)], NUM, skip_params=('self',),
            doc='t1_in = (last_trading_dt - value_dt)/365, t2_in = (end_of_interest_period - value_dt)/365')))
        ns = 'RatesF' if kind == 'float' else 'RatesR'
        body = prelude(ns, kind) + '\n'.join(out) + f'\nend FinVerif.Gen.{ns}\n'
        return SOURCES, body
    return build


MODULES = {'RatesF': build_rates('float'), 'RatesR': build_rates('real')}
