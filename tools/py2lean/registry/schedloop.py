"""SchedLoop — the LOOPS of `Schedule.generate` (financepy/utils/schedule.py) and of
`CDS._generate_adjusted_cds_payment_dts` (financepy/products/credit/cds.py), cut out of the source statements
(Int / PyDate dialect, Mathlib-free; for Props/C16l).

The translator takes no loops and no method calls on dates; what it takes is every straight-line piece OF a loop:

  <loop>_init     the statements before the `while` inside the branch (start date, flow counter, an initial append)
  <loop>_guard    the `while` test (comparison operator and both operands are the translator's reading)
  <loop>_pre      the body up to the ONE `X.add_months(A)` call: returns (X, A) = the anchor date and the month offset
  <loop>_post     the WHOLE body with the date-method calls replaced by their results (`am_in` = X.add_months(A),
                  `eom_in` = am_in.eom()): returns the new loop state and the element appended in this iteration
  <loop>_eom_flag the test of the `if` that guards the `.eom()` call (when there is one)
  <loop>_tail     the statements after the loop that touch the state
  *_range / *_idx / *_slice   headers of the `for` loops / index expressions of table reads / slice bounds
                  (`xs[a:b]` -> `(a, b)`, 0 = bound absent)

Date operations are NOT translated: `add_months`, `eom`, `calendar.adjust`, `add_days` are the parameters `Ops` of the hand
model; here each call is matched by shape (receiver, arguments) and anything else raises Untranslatable.
"""
import ast
import copy

SCHED_PY = 'financepy/utils/schedule.py'
CDS_PY = 'financepy/products/credit/cds.py'
SOURCES = [SCHED_PY, CDS_PY]
NS = 'SchedLoop'
UN = 'unadjusted_schedule_dts'


def U(n):
    return ast.unparse(n)


def _name(i, store=False):
    return ast.Name(id=i, ctx=ast.Store() if store else ast.Load())


def _assign(name, value):
    return ast.Assign(targets=[_name(name, True)], value=value)


def _mkfn(name, stmts, rets):
    """rets: list of names or AST expressions"""
    elts = [_name(r) if isinstance(r, str) else r for r in rets]
    ret = ast.Return(value=ast.Tuple(elts=elts, ctx=ast.Load()) if len(elts) > 1 else elts[0])
    f = ast.FunctionDef(name=name, args=ast.arguments(posonlyargs=[], args=[], kwonlyargs=[], kw_defaults=[], defaults=[]),
                        body=[copy.deepcopy(s) for s in stmts] + [ret], decorator_list=[], type_params=[])
    ast.fix_missing_locations(f)
    return f


class _Calls(ast.NodeTransformer):
    """`X.add_months(A)` -> am_in, `Y.eom()` -> eom_in, `<table>.append(E)` -> `appended = E`; every other call is an error."""

    def __init__(self, P, what, table):
        self.P, self.what, self.table = P, what, table
        self.am = []       # [(receiver, arg)]
        self.eom = []      # [receiver]
        self.app = 0

    def visit_Expr(self, node):
        v = node.value
        if isinstance(v, ast.Call) and isinstance(v.func, ast.Attribute) and v.func.attr == 'append':
            if U(v.func.value) != self.table or len(v.args) != 1 or v.keywords:
                raise self.P.Untranslatable(f'{self.what}: unexpected append `{U(node)}` (table {self.table})')
            self.app += 1
            return ast.copy_location(_assign('appended', self.visit(v.args[0])), node)
        return self.generic_visit(node)

    def visit_Raise(self, node):
        return node

    def visit_Call(self, node):
        f = node.func
        if isinstance(f, ast.Attribute) and f.attr == 'add_months' and len(node.args) == 1 and not node.keywords:
            self.am.append((f.value, node.args[0]))
            return ast.copy_location(_name('am_in'), node)
        if isinstance(f, ast.Attribute) and f.attr == 'eom' and not node.args and not node.keywords:
            self.eom.append(f.value)
            return ast.copy_location(_name('eom_in'), node)
        raise self.P.Untranslatable(f'{self.what}: unexpected call `{U(node)}` in a schedule loop')


def _no_jumps(P, loop, what):
    for x in ast.walk(loop):
        if isinstance(x, (ast.Break, ast.Continue, ast.Return, ast.For, ast.While)) and x is not loop:
            raise P.Untranslatable(f'{what}: loop body contains {type(x).__name__}')
    if loop.orelse:
        raise P.Untranslatable(f'{what}: loop has an else clause')


def _branch(P, fnode, what, rule):
    """the body of `if/elif self.dg_type == DateGenRuleTypes.<rule>:` at the top level of the method"""
    want = f'self.dg_type == DateGenRuleTypes.{rule}'
    hits = []
    for st in fnode.body:
        cur = st
        while isinstance(cur, ast.If):
            if U(cur.test) == want:
                hits.append(cur.body)
            cur = cur.orelse[0] if len(cur.orelse) == 1 and isinstance(cur.orelse[0], ast.If) else None
    if len(hits) != 1:
        raise P.Untranslatable(f'{what}: {len(hits)} branches `if {want}` (expected 1)')
    return hits[0]


def _one_while(P, stmts, what):
    idx = [i for i, s in enumerate(stmts) if isinstance(s, ast.While)]
    if len(idx) != 1:
        raise P.Untranslatable(f'{what}: {len(idx)} while loops in the branch (expected 1)')
    loop = stmts[idx[0]]
    _no_jumps(P, loop, what)
    return stmts[:idx[0]], loop, stmts[idx[0] + 1:]


def _range2(P, it, what):
    if isinstance(it, ast.Call) and U(it.func) == 'range' and len(it.args) == 2 and not it.keywords:
        return [_assign('lo', it.args[0]), _assign('hi', it.args[1])]
    raise P.Untranslatable(f'{what}: loop header `{U(it)}` is not range(a, b)')


def _slice2(P, sub, table, what):
    """`table[a:b]` -> statements lo = a; hi = b (0 = absent)"""
    if isinstance(sub, ast.Subscript) and U(sub.value) == table and isinstance(sub.slice, ast.Slice) and sub.slice.step is None:
        return [_assign('lo', sub.slice.lower or ast.Constant(0)), _assign('hi', sub.slice.upper or ast.Constant(0))]
    raise P.Untranslatable(f'{what}: `{U(sub)}` is not a slice of {table}')


def _adjust_arg(P, call, what):
    """`calendar.adjust(E, self.bd_type)` -> E"""
    if isinstance(call, ast.Call) and U(call.func) == 'calendar.adjust' and len(call.args) == 2 and not call.keywords \
            and U(call.args[1]) == 'self.bd_type':
        return call.args[0]
    raise P.Untranslatable(f'{what}: expected calendar.adjust(<date>, self.bd_type), found `{U(call)}`')


def _index_of(P, sub, table, what):
    if isinstance(sub, ast.Subscript) and U(sub.value) == table and not isinstance(sub.slice, ast.Slice):
        return sub.slice
    raise P.Untranslatable(f'{what}: `{U(sub)}` is not an element of {table}')


def build(P, S):
    from py2lean import FuncSpec, Translator, Dialect, INT, BOOL, DATE, find_function
    tr = Translator(Dialect('int'), {})
    out = []

    def emit(fn, spec):
        out.append(tr.function(fn, spec))

    def while_pieces(pfx, w, stmts, state, attr, extra, with_eom, init_names, init_append):
        """emit init / guard / pre / post (/ eom_flag) of the one while loop of the branch; returns (before, loop, after)"""
        before, loop, after = _one_while(P, stmts, w)
        am = dict(attr_map=attr, extra_params=extra)
        # ---- init
        c = _Calls(P, w + ' init', UN)
        ini = [c.visit(copy.deepcopy(s)) for s in before]
        if c.am or c.eom or c.app != (1 if init_append else 0):
            raise P.Untranslatable(f'{w}: unexpected date call / append count before the loop')
        rets = list(init_names) + (['appended'] if init_append else [])
        emit(_mkfn(pfx + '_init', ini, rets),
             FuncSpec(w + '[before the loop]', pfx + '_init', [], 'tuple:' + ','.join(['date', 'int'] + (['date'] if init_append else [])),
                      doc='(next_dt, flow_num' + (', element appended to the unadjusted table' if init_append else '') + ') on loop entry', **am))
        # ---- guard
        emit(_mkfn(pfx + '_guard', [], [loop.test]),
             FuncSpec(w + '[while test]', pfx + '_guard', state[:1], BOOL, doc='dates compare by excel serial', **am))
        # ---- body
        c = _Calls(P, w + ' body', UN)
        body = [c.visit(copy.deepcopy(s)) for s in loop.body]
        if len(c.am) != 1 or c.app != 1 or len(c.eom) != (1 if with_eom else 0):
            raise P.Untranslatable(f'{w}: body has {len(c.am)} add_months / {len(c.eom)} eom / {c.app} appends')
        k = [i for i, s in enumerate(loop.body) if any(isinstance(x, ast.Attribute) and x.attr == 'add_months' for x in ast.walk(s))]
        if len(k) != 1 or not (isinstance(loop.body[k[0]], ast.Assign) and U(loop.body[k[0]].targets[0]) == 'next_dt'
                               and isinstance(loop.body[k[0]].value, ast.Call)
                               and isinstance(loop.body[k[0]].value.func, ast.Attribute) and loop.body[k[0]].value.func.attr == 'add_months'):
            raise P.Untranslatable(f'{w}: expected exactly one top-level `next_dt = X.add_months(A)` in the body')
        k = k[0]
        recv, arg = c.am[0]
        cp = _Calls(P, w + ' body prefix', UN)
        prefix = [cp.visit(copy.deepcopy(s)) for s in loop.body[:k]]
        emit(_mkfn(pfx + '_pre', prefix, [recv, arg]),
             FuncSpec(w + '[loop body, up to add_months]', pfx + '_pre', state, 'tuple:date,int',
                      doc='(X, A) of the one call `next_dt = X.add_months(A)`', **am))
        post_params = state + [('am_in', DATE)] + ([('eom_in', DATE)] if with_eom else [])
        emit(_mkfn(pfx + '_post', body, ['next_dt', 'flow_num', 'appended']),
             FuncSpec(w + '[loop body]', pfx + '_post', post_params, 'tuple:date,int,date',
                      doc='one iteration: am_in = X.add_months(A) of _pre' + (', eom_in = am_in.eom()' if with_eom else '') +
                          '; returns (next_dt, flow_num, element appended to the unadjusted table)', **am))
        if with_eom:
            iff = [s for s in loop.body[k + 1:] if isinstance(s, ast.If)]
            if len(iff) != 1 or iff[0].orelse or len(iff[0].body) != 1 or U(iff[0].body[0]) != 'next_dt = next_dt.eom()' \
                    or loop.body[k + 1] is not iff[0]:
                raise P.Untranslatable(f'{w}: expected `if <flag>: next_dt = next_dt.eom()` right after the add_months statement')
            emit(_mkfn(pfx + '_eom_flag', [], [iff[0].test]),
                 FuncSpec(w + '[eom test]', pfx + '_eom_flag', [], BOOL, doc='.eom() is evaluated iff this holds', **am))
        return before, loop, after

    # ======================================================================================= Schedule.generate
    tree = S.parse(SCHED_PY)
    f = find_function(tree, 'Schedule.generate')
    SA = {'self.termination_dt': ('termination_dt', DATE), 'self.effective_dt': ('effective_dt', DATE),
          'self.end_of_month': ('end_of_month', BOOL), 'self.adjust_termination_dt': ('adjust_termination_dt', BOOL)}
    SX = [('termination_dt', DATE), ('effective_dt', DATE), ('end_of_month', BOOL), ('adjust_termination_dt', BOOL)]
    am = dict(attr_map=SA, extra_params=SX)
    STATE = [('next_dt', DATE), ('flow_num', INT), ('num_months', INT)]
    ADJ = 'self.adjusted_dts'

    # ---------------------------------------------------------------- BACKWARD
    w = 'Schedule.generate[BACKWARD]'
    _, loop, after = while_pieces('sch_back', w, _branch(P, f, w, 'BACKWARD'), STATE, SA, SX, True, ['next_dt', 'flow_num'], False)
    # after: append(next_dt); flow_num += 1; dt = un[E]; adjusted.append(dt); for i in range(1, flow_num - 1): …; adjusted.append(T)
    if len(after) != 6:
        raise P.Untranslatable(f'{w}: {len(after)} statements after the loop (expected 6)')
    c = _Calls(P, w + ' tail', UN)
    tail = [c.visit(copy.deepcopy(s)) for s in after[:2]]
    if c.app != 1 or c.am or c.eom:
        raise P.Untranslatable(f'{w}: expected one append and the counter update right after the loop')
    emit(_mkfn('sch_back_tail', tail, ['appended', 'flow_num']),
         FuncSpec(w + '[after the loop]', 'sch_back_tail', STATE[:2], 'tuple:date,int',
                  doc='(last element appended to the unadjusted table = previous coupon date, final flow_num)', **am))
    if not (isinstance(after[2], ast.Assign) and U(after[2].targets[0]) == 'dt' and U(after[3]) == f'{ADJ}.append(dt)'):
        raise P.Untranslatable(f'{w}: expected `dt = {UN}[E]; {ADJ}.append(dt)`')
    emit(_mkfn('sch_back_first_idx', [], [_index_of(P, after[2].value, UN, w)]),
         FuncSpec(w + '[first adjusted date]', 'sch_back_first_idx', [('flow_num', INT)], INT,
                  doc=f'E of `dt = {UN}[E]` (stored unadjusted as first date)'))
    fl = after[4]
    if not (isinstance(fl, ast.For) and U(fl.target) == 'i' and len(fl.body) == 2 and not fl.orelse
            and isinstance(fl.body[0], ast.Assign) and U(fl.body[0].targets[0]) == 'dt' and U(fl.body[1]) == f'{ADJ}.append(dt)'):
        raise P.Untranslatable(f'{w}: adjustment loop is not `for i in range(a, b): dt = calendar.adjust(…); {ADJ}.append(dt)`')
    emit(_mkfn('sch_back_adj_range', _range2(P, fl.iter, w), ['lo', 'hi']),
         FuncSpec(w + '[adjustment loop header]', 'sch_back_adj_range', [('flow_num', INT)], 'tuple:int,int'))
    emit(_mkfn('sch_back_adj_idx', [], [_index_of(P, _adjust_arg(P, fl.body[0].value, w), UN, w)]),
         FuncSpec(w + '[adjustment loop body]', 'sch_back_adj_idx', [('flow_num', INT), ('i', INT)], INT,
                  doc=f'E of `calendar.adjust({UN}[E], self.bd_type)`'))
    if not (isinstance(after[5], ast.Expr) and isinstance(after[5].value, ast.Call) and U(after[5].value.func) == f'{ADJ}.append'
            and len(after[5].value.args) == 1):
        raise P.Untranslatable(f'{w}: the branch does not end in `{ADJ}.append(<date>)`')
    emit(_mkfn('sch_back_last', [], [after[5].value.args[0]]),
         FuncSpec(w + '[last appended]', 'sch_back_last', [], DATE, doc='appended unadjusted after the adjustment loop', **am))

    # ---------------------------------------------------------------- FORWARD
    w = 'Schedule.generate[FORWARD]'
    _, loop, after = while_pieces('sch_fwd', w, _branch(P, f, w, 'FORWARD'), STATE, SA, SX, False, ['next_dt', 'flow_num'], True)
    if len(after) != 2:
        raise P.Untranslatable(f'{w}: {len(after)} statements after the loop (expected 2)')
    fl = after[0]
    if not (isinstance(fl, ast.For) and U(fl.target) == 'i' and len(fl.body) == 2 and not fl.orelse
            and isinstance(fl.body[0], ast.Assign) and U(fl.body[0].targets[0]) == 'dt' and U(fl.body[1]) == f'{ADJ}.append(dt)'):
        raise P.Untranslatable(f'{w}: adjustment loop is not `for i in range(a, b): dt = calendar.adjust(…); {ADJ}.append(dt)`')
    emit(_mkfn('sch_fwd_adj_range', _range2(P, fl.iter, w), ['lo', 'hi']),
         FuncSpec(w + '[adjustment loop header]', 'sch_fwd_adj_range', [('flow_num', INT)], 'tuple:int,int'))
    emit(_mkfn('sch_fwd_adj_idx', [], [_index_of(P, _adjust_arg(P, fl.body[0].value, w), UN, w)]),
         FuncSpec(w + '[adjustment loop body]', 'sch_fwd_adj_idx', [('flow_num', INT), ('i', INT)], INT,
                  doc=f'E of `calendar.adjust({UN}[E], self.bd_type)`'))
    if not (isinstance(after[1], ast.Expr) and isinstance(after[1].value, ast.Call) and U(after[1].value.func) == f'{ADJ}.append'
            and len(after[1].value.args) == 1):
        raise P.Untranslatable(f'{w}: the branch does not end in `{ADJ}.append(<date>)`')
    emit(_mkfn('sch_fwd_last', [], [after[1].value.args[0]]),
         FuncSpec(w + '[last appended]', 'sch_fwd_last', [], DATE, doc='appended unadjusted after the adjustment loop', **am))

    # ---------------------------------------------------------------- common tail of generate()
    w = 'Schedule.generate[tail]'
    top = f.body
    st0 = [s for s in top if isinstance(s, ast.Assign) and isinstance(s.targets[0], ast.Subscript) and U(s.targets[0].value) == ADJ]
    if len(st0) != 1:
        raise P.Untranslatable(f'{w}: {len(st0)} top-level stores into {ADJ}[…] (expected 1: the effective-date override)')
    emit(_mkfn('sch_first_override', [], [_index_of(P, st0[0].targets[0], ADJ, w), st0[0].value]),
         FuncSpec(w + '[first date]', 'sch_first_override', [], 'tuple:int,date', doc=f'(E, V) of `{ADJ}[E] = V`', **am))
    ifs = [s for s in top if isinstance(s, ast.If) and 'adjust_termination_dt' in U(s.test)]
    if len(ifs) != 1 or ifs[0].orelse or len(ifs[0].body) != 2:
        raise P.Untranslatable(f'{w}: expected one `if <adjust_termination_dt flag>:` with two statements')
    emit(_mkfn('sch_term_flag', [], [ifs[0].test]), FuncSpec(w + '[termination flag]', 'sch_term_flag', [], BOOL, **am))
    a0, a1 = ifs[0].body
    if not (isinstance(a0, ast.Assign) and U(a0.targets[0]) == 'self.termination_dt' and isinstance(a1, ast.Assign)
            and isinstance(a1.targets[0], ast.Subscript) and U(a1.value) == 'self.termination_dt'):
        raise P.Untranslatable(f'{w}: expected `self.termination_dt = calendar.adjust(…); {ADJ}[E] = self.termination_dt`')
    emit(_mkfn('sch_term_adjusted', [], [_adjust_arg(P, a0.value, w)]),
         FuncSpec(w + '[termination adjust argument]', 'sch_term_adjusted', [], DATE, **am))
    emit(_mkfn('sch_term_idx', [], [_index_of(P, a1.targets[0], ADJ, w)]),
         FuncSpec(w + '[termination store index]', 'sch_term_idx', [], INT, doc='negative = from the end'))
    # dedup loop
    di = [i for i, s in enumerate(top) if isinstance(s, ast.Assign) and U(s.targets[0]) == 'deduped_dts']
    if len(di) != 1 or not (isinstance(top[di[0]].value, ast.List) and len(top[di[0]].value.elts) == 1
                            and isinstance(top[di[0] + 1], ast.For) and U(top[di[0] + 1].target) == 'dt'):
        raise P.Untranslatable(f'{w}: expected `deduped_dts = [{ADJ}[E]]` followed by `for dt in …`')
    emit(_mkfn('sch_dedup_init_idx', [], [_index_of(P, top[di[0]].value.elts[0], ADJ, w)]),
         FuncSpec(w + '[dedup init]', 'sch_dedup_init_idx', [], INT))
    dl = top[di[0] + 1]
    _no_jumps(P, dl, w)
    emit(_mkfn('sch_dedup_slice', _slice2(P, dl.iter, ADJ, w), ['lo', 'hi']),
         FuncSpec(w + '[dedup loop header]', 'sch_dedup_slice', [], 'tuple:int,int', doc=f'`for dt in {ADJ}[lo:hi]` (0 = bound absent)'))

    class _Last(ast.NodeTransformer):
        n = 0

        def visit_Subscript(self, node):
            if U(node) == 'deduped_dts[-1]':
                _Last.n += 1
                return ast.copy_location(_name('last_in'), node)
            raise P.Untranslatable(f'{w}: unexpected subscript `{U(node)}` in the dedup loop')
    c = _Calls(P, w + ' dedup', 'deduped_dts')
    _Last.n = 0
    body = [c.visit(_Last().visit(copy.deepcopy(s))) for s in dl.body]
    if c.app != 1 or c.am or c.eom or _Last.n != 2:
        raise P.Untranslatable(f'{w}: dedup body has {c.app} appends / {_Last.n} reads of deduped_dts[-1]')
    # `appended = dt` under the `if`: expose as (keep, element)
    body2 = ast.parse('keep = False').body
    for s in body:
        if isinstance(s, ast.If) and any(isinstance(x, ast.Assign) and U(x.targets[0]) == 'appended' for x in s.body):
            if len(s.body) != 1 or s.orelse or U(s.body[0].value) != 'dt':
                raise P.Untranslatable(f'{w}: the keeping branch is not exactly `deduped_dts.append(dt)`')
            s = ast.If(test=s.test, body=ast.parse('keep = True').body, orelse=[])
        body2.append(s)
    emit(_mkfn('sch_dedup_step', body2, ['keep']),
         FuncSpec(w + '[dedup loop body]', 'sch_dedup_step', [('last_in', DATE), ('dt', DATE)], BOOL,
                  doc='last_in = deduped_dts[-1]; error = the raise; true = `deduped_dts.append(dt)`'))
    ml = [s for s in top if isinstance(s, ast.If) and U(s.test).startswith(f'len({ADJ})')]
    if len(ml) != 1 or not isinstance(ml[0].body[0], ast.Raise) or not isinstance(ml[0].test, ast.Compare) \
            or U(ml[0].test.left) != f'len({ADJ})':
        raise P.Untranslatable(f'{w}: expected one `if len({ADJ}) <op> <n>: raise`')
    t = copy.deepcopy(ml[0].test)
    t.left = _name('n_in')
    emit(_mkfn('sch_too_short', [], [t]), FuncSpec(w + '[length check]', 'sch_too_short', [('n_in', INT)], BOOL,
                                                  doc=f'n_in = len({ADJ}); true = the raise'))

    # ======================================================================================= CDS
    ctree = S.parse(CDS_PY)
    f = find_function(ctree, 'CDS._generate_adjusted_cds_payment_dts')
    CA = {'self.maturity_dt': ('maturity_dt', DATE), 'self.step_in_dt': ('step_in_dt', DATE)}
    CX = [('maturity_dt', DATE), ('step_in_dt', DATE)]
    cam = dict(attr_map=CA, extra_params=CX)
    CSTATE = [('next_dt', DATE), ('flow_num', INT), ('num_months', INT), ('start_dt', DATE)]
    sd = [s for s in f.body if isinstance(s, ast.Assign) and U(s.targets[0]) == 'start_dt']
    if len(sd) != 1:
        raise P.Untranslatable('CDS: expected one top-level `start_dt = …`')
    emit(_mkfn('cds_start_dt', [], [sd[0].value]), FuncSpec('CDS[start_dt]', 'cds_start_dt', [], DATE, **cam))

    def cds_pieces(pfx, w, rule, init_append, rev):
        stmts = _branch(P, f, w, rule)
        before, loop, after = _one_while(P, stmts, w)
        # guard has 2 date operands among (next_dt, start_dt, self.maturity_dt): pass the whole state
        am_ = dict(attr_map=CA, extra_params=CX)
        c = _Calls(P, w + ' init', UN)
        ini = [c.visit(copy.deepcopy(s)) for s in before]
        if c.am or c.eom or c.app != (1 if init_append else 0):
            raise P.Untranslatable(f'{w}: unexpected date call / append count before the loop')
        emit(_mkfn(pfx + '_init', ini, ['next_dt', 'flow_num'] + (['appended'] if init_append else [])),
             FuncSpec(w + '[before the loop]', pfx + '_init', [('start_dt', DATE)],
                      'tuple:' + ','.join(['date', 'int'] + (['date'] if init_append else [])), **am_))
        emit(_mkfn(pfx + '_guard', [], [loop.test]),
             FuncSpec(w + '[while test]', pfx + '_guard', [('next_dt', DATE), ('start_dt', DATE)], BOOL, **am_))
        c = _Calls(P, w + ' body', UN)
        body = [c.visit(copy.deepcopy(s)) for s in loop.body]
        if len(c.am) != 1 or c.app != 1 or c.eom:
            raise P.Untranslatable(f'{w}: body has {len(c.am)} add_months / {len(c.eom)} eom / {c.app} appends')
        k = [i for i, s in enumerate(loop.body) if isinstance(s, ast.Assign) and U(s.targets[0]) == 'next_dt'
             and isinstance(s.value, ast.Call) and isinstance(s.value.func, ast.Attribute) and s.value.func.attr == 'add_months']
        if len(k) != 1:
            raise P.Untranslatable(f'{w}: expected exactly one top-level `next_dt = X.add_months(A)` in the body')
        cp = _Calls(P, w + ' body prefix', UN)
        prefix = [cp.visit(copy.deepcopy(s)) for s in loop.body[:k[0]]]
        emit(_mkfn(pfx + '_pre', prefix, [c.am[0][0], c.am[0][1]]),
             FuncSpec(w + '[loop body, up to add_months]', pfx + '_pre', CSTATE, 'tuple:date,int',
                      doc='(X, A) of the one call `next_dt = X.add_months(A)`', **am_))
        emit(_mkfn(pfx + '_post', body, ['next_dt', 'flow_num', 'appended']),
             FuncSpec(w + '[loop body]', pfx + '_post', CSTATE + [('am_in', DATE)], 'tuple:date,int,date',
                      doc='one iteration: am_in = X.add_months(A) of _pre; returns (next_dt, flow_num, element appended)', **am_))
        # after the loop: [append(maturity)?]; adjusted_dts = []; for date in <reversed(un) | un>: adjusted = calendar.adjust(date, bd); append
        rest = list(after)
        if not init_append:
            if not (rest and isinstance(rest[0], ast.Expr) and isinstance(rest[0].value, ast.Call)
                    and U(rest[0].value.func) == UN + '.append' and len(rest[0].value.args) == 1):
                raise P.Untranslatable(f'{w}: expected `{UN}.append(<date>)` after the loop')
            emit(_mkfn(pfx + '_last', [], [rest[0].value.args[0]]), FuncSpec(w + '[appended after the loop]', pfx + '_last', [], DATE, **am_))
            rest = rest[1:]
        want_iter = f'reversed({UN})' if rev else UN
        ok = (len(rest) == 2 and U(rest[0]) == 'adjusted_dts = []' and isinstance(rest[1], ast.For) and U(rest[1].target) == 'date'
              and U(rest[1].iter) == want_iter and len(rest[1].body) == 2 and not rest[1].orelse
              and isinstance(rest[1].body[0], ast.Assign) and U(rest[1].body[0].targets[0]) == 'adjusted'
              and U(_adjust_arg(P, rest[1].body[0].value, w)) == 'date' and U(rest[1].body[1]) == 'adjusted_dts.append(adjusted)')
        if not ok:
            raise P.Untranslatable(f'{w}: expected `adjusted_dts = []; for date in {want_iter}: adjusted = calendar.adjust(date, self.bd_type); '
                                   'adjusted_dts.append(adjusted)` after the loop')
        out.append(f'/-- generated from `{w}[adjustment loop]`: `for date in {want_iter}` — true = the table is traversed reversed -/\n'
                   f'def {pfx}_adjust_reversed : Bool := {"true" if rev else "false"}\n')

    cds_pieces('cds_back', 'CDS._generate_adjusted_cds_payment_dts[BACKWARD]', 'BACKWARD', True, True)
    cds_pieces('cds_fwd', 'CDS._generate_adjusted_cds_payment_dts[FORWARD]', 'FORWARD', False, False)
    w = 'CDS._generate_adjusted_cds_payment_dts[slices]'

    def top_assign(target):
        hits = [s for s in f.body if isinstance(s, ast.Assign) and U(s.targets[0]) == target and not isinstance(s.value, ast.List)]
        if len(hits) != 1:
            raise P.Untranslatable(f'{w}: {len(hits)} non-trivial assignments of {target} (expected 1)')
        return hits[0].value
    emit(_mkfn('cds_payment_slice', _slice2(P, top_assign('self.payment_dts'), 'adjusted_dts', w), ['lo', 'hi']),
         FuncSpec(w + '[payment_dts]', 'cds_payment_slice', [], 'tuple:int,int', doc='adjusted_dts[lo:hi] (0 = bound absent)'))
    emit(_mkfn('cds_accrual_start_slice', _slice2(P, top_assign('self.accrual_start_dts'), 'adjusted_dts', w), ['lo', 'hi']),
         FuncSpec(w + '[accrual_start_dts]', 'cds_accrual_start_slice', [], 'tuple:int,int', doc='adjusted_dts[lo:hi] (0 = bound absent)'))
    ae = top_assign('self.accrual_end_dts')
    ok = (isinstance(ae, ast.ListComp) and len(ae.generators) == 1 and not ae.generators[0].ifs and U(ae.generators[0].target) == 'date'
          and isinstance(ae.elt, ast.Call) and U(ae.elt.func) == 'date.add_days' and len(ae.elt.args) == 1 and not ae.elt.keywords)
    if not ok:
        raise P.Untranslatable(f'{w}: accrual_end_dts is not `[date.add_days(k) for date in self.accrual_start_dts[a:b]]`')
    emit(_mkfn('cds_accrual_end_slice', _slice2(P, ae.generators[0].iter, 'self.accrual_start_dts', w), ['lo', 'hi']),
         FuncSpec(w + '[accrual_end_dts source]', 'cds_accrual_end_slice', [], 'tuple:int,int'))
    emit(_mkfn('cds_accrual_end_days', [], [ae.elt.args[0]]), FuncSpec(w + '[accrual_end_dts add_days argument]', 'cds_accrual_end_days', [], INT))
    la = [s for s in f.body if isinstance(s, ast.Expr) and isinstance(s.value, ast.Call) and U(s.value.func) == 'self.accrual_end_dts.append']
    if len(la) != 1 or len(la[0].value.args) != 1:
        raise P.Untranslatable(f'{w}: expected one `self.accrual_end_dts.append(<date>)`')
    emit(_mkfn('cds_accrual_end_last', [], [la[0].value.args[0]]), FuncSpec(w + '[last accrual end]', 'cds_accrual_end_last', [], DATE, **cam))

    text = ('import FinVerif.Core.Prelude\n\nset_option linter.unusedVariables false\n\n'
            f'namespace FinVerif.Gen.{NS}\nopen FinVerif\n\n' + '\n'.join(out) + f'\nend FinVerif.Gen.{NS}\n')
    return SOURCES, text


MODULES = {NS: build}
