"""Generated module for C19: the closed forms that the Monte-Carlo short-rate routines are compared with
(`zero_price_mc vs zero_price`, terminal mean / variance of the simulated paths vs `meanr` / `variancer`).

  ShortRateR  ℝ (Props/C19g: semigroup of the mean, variance composition, the Vasicek zero price is the Gaussian
              moment-generating function of the integrated rate, Euler bias sign)

Translated (name in the generated module  <-  source):

  vas_meanr       <- meanr       models/vasicek_mc.py
  vas_variancer   <- variancer   models/vasicek_mc.py
  vas_zero_price  <- zero_price  models/vasicek_mc.py
  cir_meanr       <- meanr       models/cir_montecarlo.py
  cir_variancer   <- variancer   models/cir_montecarlo.py
"""
from registry.bs import prelude

VAS_PY = 'financepy/models/vasicek_mc.py'
CIR_PY = 'financepy/models/cir_montecarlo.py'


def build_real(P, S):
    from py2lean import FuncSpec, Translator, Dialect, NUM, find_function
    tr = Translator(Dialect('real'), {})
    out = []
    vas = S.parse(VAS_PY)
    cir = S.parse(CIR_PY)
    specs = [
        (vas, 'meanr', 'vas_meanr', ['r0', 'a', 'b', 't']),
        (vas, 'variancer', 'vas_variancer', ['a', 'sigma', 't']),
        (vas, 'zero_price', 'vas_zero_price', ['r0', 'a', 'b', 'sigma', 't']),
        (cir, 'meanr', 'cir_meanr', ['r0', 'a', 'b', 't']),
        (cir, 'variancer', 'cir_variancer', ['r0', 'a', 'b', 'sigma', 't']),
    ]
    for tree, src, name, params in specs:
        sp = FuncSpec(src, name, [(p, NUM) for p in params], NUM)
        out.append(tr.function(find_function(tree, src), sp))
    body = prelude('ShortRateR', 'real') + '\n'.join(out) + '\nend FinVerif.Gen.ShortRateR\n'
    return [VAS_PY, CIR_PY], body


MODULES = {'ShortRateR': build_real}
