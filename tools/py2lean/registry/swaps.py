"""Generated modules for the valuation loops of the linear rate products (property C06).

  SwapsF  Float, executable (Driver/C06: ops GFX / GFL / GEQ fold these step functions; correspondence with the implementation)
  SwapsR  ℝ, noncomputable (Props/C06e: the hand model's loop bodies ARE these functions — `fixedStep_is_generated`,
          `floatStep_is_generated`, `eqStep_is_generated`, … — and the per-flow liveness theorems are stated on them)

The translator takes no loops.  What it takes are the straight-line pieces: the *body* of each `for i_pmnt in
range(0, num_payments)` loop (one call = one iteration, loop-carried variables in and out), the block after the loop
(principal exchange, PAY sign), and the small methods around them.  This builder cuts those pieces out of the
methods' ASTs and hands each to the translator as a synthetic function
(name in the generated module  <-  source):

  fixed_leg_step      <- SwapFixedLeg.value      products/rates/swap_fixed_leg.py   body of the payment loop
  fixed_leg_tail      <- SwapFixedLeg.value                                          statements after the loop up to `if pv_only:`
  float_leg_step      <- SwapFloatLeg.value      products/rates/swap_float_leg.py   body of the payment loop
  float_leg_tail      <- SwapFloatLeg.value                                          statements after the loop up to `if pv_only:`
  equity_leg_step     <- EquitySwapLeg.value     products/equity/equity_swap_leg.py body of the payment loop
  equity_leg_tail     <- EquitySwapLeg.value                                         the PAY sign
  swap_pv01           <- IborSwap.pv01           products/rates/ibor_swap.py        (fixed leg PV is a parameter)
  swap_swap_rate      <- IborSwap.swap_rate                                          (pv01 and float leg PV are parameters)
  swap_details_rate   <- IborSwap.valuation_details                                  the statements that compute `pv01` and `swap_rate`
  swap_cash_pv01_step <- IborSwap.cash_settled_pv01                                  body of the annuity loop
  ois_pv01            <- OIS.pv01                products/rates/ois.py
  ois_swap_rate       <- OIS.swap_rate

How a loop body becomes a function (all by exact source text; every listed text must occur exactly the stated
number of times, so an edit to the glue makes generation fail loudly instead of silently changing the kernel):
  * array reads / curve reads listed in `subst` (`self.payment_dts[i_pmnt]`, `discount_curve.df(payment_dt)`, …) become
    parameters; statements listed in `drop` (date look-ups that only feed those reads) are removed;
  * `self.<table>.append(e)` becomes `<table>_out = e`; the function returns the loop-carried variables followed by
    the `<table>_out` values of this iteration (the row of the cached tables);
  * `self.leg_type == SwapTypes.PAY` becomes the Bool parameter `is_pay`; `first_fixing_rate is not None` becomes the
    Bool parameter `has_first_fixing` (the rate itself stays the Num parameter `first_fixing_rate`);
  * `self.payment_pvs[-1]` / `self.cumulative_pvs[-1]` (patched after the loop) become the variables
    `payment_pvs_last` / `cumulative_pvs_last`.
Everything else — the comparison `payment_dt > value_dt`, the first-fixing branch, the arithmetic, the order of the
updates — is the translator's reading of the source text.
"""
from __future__ import annotations

import ast
import copy

from registry.bs import prelude, GV_PY

FIXED_PY = 'financepy/products/rates/swap_fixed_leg.py'
FLOAT_PY = 'financepy/products/rates/swap_float_leg.py'
EQLEG_PY = 'financepy/products/equity/equity_swap_leg.py'
SWAP_PY = 'financepy/products/rates/ibor_swap.py'
OIS_PY = 'financepy/products/rates/ois.py'

SOURCES = [FIXED_PY, FLOAT_PY, EQLEG_PY, SWAP_PY, OIS_PY, GV_PY]

LOOP_HEADER = ('i_pmnt', 'range(0, num_payments)')
IS_PAY = 'self.leg_type == SwapTypes.PAY'
FLOAT_IS_PAY = 'self.float_leg.leg_type == SwapTypes.PAY'


def U(n):
    return ast.unparse(n)


class _Cut(ast.NodeTransformer):
    """drop statements / substitute expressions by exact text; `self.X.append(e)` -> `X_out = e`."""

    def __init__(self, drop, subst, replace):
        self.drop = {d: 0 for d in drop}
        self.subst = {k: 0 for k in subst}
        self.subst_to = dict(subst)
        self.replace = {k: 0 for k in replace}
        self.replace_to = dict(replace)
        self.outs = []

    def visit(self, node):
        if isinstance(node, ast.stmt):
            t = U(node)
            if t in self.drop:
                self.drop[t] += 1
                return None
            if t in self.replace:
                self.replace[t] += 1
                new = ast.parse(self.replace_to[t]).body
                return new if len(new) != 1 else new[0]
            if isinstance(node, ast.Expr) and isinstance(node.value, ast.Call) \
                    and isinstance(node.value.func, ast.Attribute) and node.value.func.attr == 'append' \
                    and isinstance(node.value.func.value, ast.Attribute) \
                    and isinstance(node.value.func.value.value, ast.Name) and node.value.func.value.value.id == 'self' \
                    and len(node.value.args) == 1 and not node.value.keywords:
                tbl = node.value.func.value.attr + '_out'
                if tbl not in self.outs:
                    self.outs.append(tbl)
                val = self.visit(node.value.args[0])
                return ast.copy_location(ast.Assign(targets=[ast.Name(id=tbl, ctx=ast.Store())], value=val), node)
        if isinstance(node, ast.expr):
            t = U(node)
            if t in self.subst:
                self.subst[t] += 1
                ctx = getattr(node, 'ctx', None)
                ctx = ast.Store() if isinstance(ctx, ast.Store) else ast.Load()
                return ast.copy_location(ast.Name(id=self.subst_to[t], ctx=ctx), node)
        return self.generic_visit(node)


def _cut(P, stmts, what, drop=(), subst=None, replace=None, counts=None):
    """Returns (new statements, table outputs in order of first append)."""
    c = _Cut(list(drop), subst or {}, replace or {})
    out = []
    for st in copy.deepcopy(stmts):
        r = c.visit(st)
        if r is None:
            continue
        out.extend(r if isinstance(r, list) else [r])
    counts = counts or {}
    bad = [f'`{k[:60]}` x{v} (expected {counts.get(k, 1)})'
           for k, v in list(c.drop.items()) + list(c.subst.items()) + list(c.replace.items())
           if v != counts.get(k, 1)]
    if bad:
        raise P.Untranslatable(f'{what}: glue changed: ' + ' | '.join(bad))
    return out, c.outs


def _the_loop(P, fnode, what, header=LOOP_HEADER):
    """(statements before, the loop, statements after) — exactly one top-level loop with this header."""
    idx = [i for i, st in enumerate(fnode.body)
           if isinstance(st, ast.For) and U(st.target) == header[0] and U(st.iter) == header[1]]
    if len(idx) != 1:
        raise P.Untranslatable(f'{what}: {len(idx)} top-level loops `for {header[0]} in {header[1]}` (expected 1)')
    loop = fnode.body[idx[0]]
    if loop.orelse:
        raise P.Untranslatable(f'{what}: loop has an else clause')
    for x in ast.walk(loop):
        if isinstance(x, (ast.Break, ast.Continue, ast.Return, ast.For, ast.While)) and x is not loop:
            raise P.Untranslatable(f'{what}: loop body contains {type(x).__name__}')
    return fnode.body[:idx[0]], loop, fnode.body[idx[0] + 1:]


def _check_branch_tables(P, stmts, what):
    """every `if/else` of the body that appends to a table appends to the same tables in both branches"""
    def tables(ss):
        out = []
        for s in ss:
            for x in ast.walk(s):
                if isinstance(x, ast.Assign) and isinstance(x.targets[0], ast.Name) and x.targets[0].id.endswith('_out'):
                    out.append(x.targets[0].id)
        return out
    for s in stmts:
        if isinstance(s, ast.If):
            a, b = tables(s.body), tables(s.orelse)
            if (a or b) and sorted(a) != sorted(b):
                raise P.Untranslatable(f'{what}: the branches append to different tables: {a} / {b}')


def _fn(name, stmts, ret_names):
    ret = ast.Return(value=ast.Tuple(elts=[ast.Name(id=n, ctx=ast.Load()) for n in ret_names], ctx=ast.Load())
                     if len(ret_names) > 1 else ast.Name(id=ret_names[0], ctx=ast.Load()))
    f = ast.FunctionDef(name=name, args=ast.arguments(posonlyargs=[], args=[], kwonlyargs=[], kw_defaults=[], defaults=[]),
                        body=list(stmts) + [ret], decorator_list=[], type_params=[])
    ast.fix_missing_locations(f)
    return f


def _tail_stmts(P, after, what):
    """the statements after the loop, up to (excluding) the final `if pv_only:` / `return leg_pv`"""
    if not after:
        raise P.Untranslatable(f'{what}: nothing after the loop')
    last = after[-1]
    ok = (isinstance(last, ast.If) and U(last.test) == 'pv_only') or (isinstance(last, ast.Return) and U(last.value) == 'leg_pv')
    if not ok:
        raise P.Untranslatable(f'{what}: the method does not end in `if pv_only:` / `return leg_pv`')
    if isinstance(last, ast.If):
        if len(last.body) != 1 or U(last.body[0]) != 'return leg_pv':
            raise P.Untranslatable(f'{what}: the pv_only branch is not `return leg_pv`')
    return after[:-1]


# --------------------------------------------------------------------------- the cuts
FIXED_STEP_SUBST = {
    'self.payment_dts[i_pmnt]': 'payment_dt_in',
    'self.payments[i_pmnt]': 'pmnt_amount_in',
    'discount_curve.df(payment_dt)': 'df_pay_in',
}
FIXED_TAIL_SUBST = {
    IS_PAY: 'is_pay',
    'self.payment_pvs[-1]': 'payment_pvs_last',
    'self.cumulative_pvs[-1]': 'cumulative_pvs_last',
}
FLOAT_STEP_DROP = [
    'start_accrued_dt = self.start_accrued_dts[i_pmnt]',
    'end_accrued_dt = self.end_accrued_dts[i_pmnt]',
]
FLOAT_STEP_REPLACE = {
    'index_alpha, num, _ = index_day_counter.year_frac(start_accrued_dt, end_accrued_dt)': 'index_alpha = index_alpha_in',
}
FLOAT_STEP_SUBST = {
    'self.payment_dts[i_pmnt]': 'payment_dt_in',
    'self.year_fracs[i_pmnt]': 'pay_alpha_in',
    'index_curve.df(start_accrued_dt)': 'df_start_in',
    'index_curve.df(end_accrued_dt)': 'df_end_in',
    'self.notional_array[i_pmnt]': 'notional_i_in',
    'discount_curve.df(payment_dt)': 'df_pay_in',
    'first_fixing_rate is not None': 'has_first_fixing',
}
FLOAT_TAIL_SUBST = {
    IS_PAY: 'is_pay',
    'self.payment_pvs[-1]': 'payment_pvs_last',
    'self.cumulative_pvs[-1]': 'cumulative_pvs_last',
    'self.notional_array[-1]': 'notional_last_in',
}
EQ_STEP_DROP = [
    'start_accrued_dt = self.start_accd_dts[i_pmnt]',
    'end_accrued_dt = self.end_accd_dts[i_pmnt]',
]
EQ_STEP_SUBST = {
    'self.payment_dts[i_pmnt]': 'payment_dt_in',
    'index_day_counter.year_frac(start_accrued_dt, end_accrued_dt)[0]': 'index_alpha_in',
    'index_curve.df(start_accrued_dt)': 'df_start_in',
    'index_curve.df(end_accrued_dt)': 'df_end_in',
    'dividend_curve.df(start_accrued_dt)': 'div_start_in',
    'dividend_curve.df(end_accrued_dt)': 'div_end_in',
    'self.year_fracs[i_pmnt]': 'year_frac_in',
    'discount_curve.df(payment_dt)': 'df_pay_in',
}
PV01_SUBST = {'self.fixed_leg.value(value_dt, discount_curve)': 'pv_in'}
SWAP_RATE_SUBST = {
    'self.pv01(value_dt, discount_curve)': 'pv01_in',
    'self.float_leg.value(value_dt, discount_curve, index_curve, first_fixing)': 'float_leg_pv_in',
}
OIS_RATE_SUBST = {
    'self.pv01(value_dt, ois_curve)': 'pv01_in',
    'self.float_leg.value(value_dt, ois_curve, ois_curve, first_fixing_rate)': 'float_leg_value_in',
}
DETAILS_KEEP = ['pv01', 'pay_receive_float', 'swap_rate']


def build_swaps(kind):
    def build(P, S):
        from py2lean import FuncSpec, Translator, Dialect, NUM, INT, BOOL, find_function
        from registry._astprep import slice_method
        consts = dict(S.module_consts(GV_PY))
        tr = Translator(Dialect(kind), consts)
        out = []

        def emit(fn, spec):
            out.append(tr.function(fn, spec, force_fallible=None))

        # ---------------------------------------------------------------- SwapFixedLeg.value
        f = find_function(S.parse(FIXED_PY), 'SwapFixedLeg.value')
        _, loop, after = _the_loop(P, f, 'SwapFixedLeg.value')
        body, outs = _cut(P, loop.body, 'SwapFixedLeg.value loop', subst=FIXED_STEP_SUBST)
        _check_branch_tables(P, body, 'SwapFixedLeg.value loop')
        if outs != ['payment_dfs_out', 'payment_pvs_out', 'cumulative_pvs_out']:
            raise P.Untranslatable(f'SwapFixedLeg.value loop: tables appended {outs}')
        emit(_fn('fixed_leg_step', body, ['leg_pv', 'df_payment'] + outs), FuncSpec(
            'SwapFixedLeg.value[loop body]', 'fixed_leg_step',
            [('value_dt', INT), ('df_value', NUM), ('leg_pv', NUM), ('df_payment', NUM),
             ('payment_dt_in', INT), ('pmnt_amount_in', NUM), ('df_pay_in', NUM)],
            'tuple:num,num,num,num,num',
            doc='one iteration: (leg_pv, df_payment) in and out, then the row appended to payment_dfs, payment_pvs, '
                'cumulative_pvs; payment_dt_in = self.payment_dts[i], pmnt_amount_in = self.payments[i], '
                'df_pay_in = discount_curve.df(payment_dt); dates are serial day numbers'))
        tail, _ = _cut(P, _tail_stmts(P, after, 'SwapFixedLeg.value'), 'SwapFixedLeg.value tail', subst=FIXED_TAIL_SUBST)
        emit(_fn('fixed_leg_tail', tail, ['leg_pv', 'payment_pvs_last', 'cumulative_pvs_last']), FuncSpec(
            'SwapFixedLeg.value[after the loop]', 'fixed_leg_tail',
            [('value_dt', INT), ('payment_dt', INT), ('leg_pv', NUM), ('df_payment', NUM), ('notional', NUM),
             ('payment_pvs_last', NUM), ('cumulative_pvs_last', NUM), ('is_pay', BOOL)],
            'tuple:num,num,num',
            attr_map={'self.principal': ('principal', NUM)}, extra_params=[('principal', NUM)],
            doc='principal exchange on the last payment date (payment_dt = the loop variable after the loop) and the PAY sign; '
                'returns (leg_pv, payment_pvs[-1], cumulative_pvs[-1])'))
        # ---------------------------------------------------------------- SwapFloatLeg.value
        f = find_function(S.parse(FLOAT_PY), 'SwapFloatLeg.value')
        _, loop, after = _the_loop(P, f, 'SwapFloatLeg.value')
        body, outs = _cut(P, loop.body, 'SwapFloatLeg.value loop', drop=FLOAT_STEP_DROP, subst=FLOAT_STEP_SUBST,
                          replace=FLOAT_STEP_REPLACE)
        _check_branch_tables(P, body, 'SwapFloatLeg.value loop')
        if outs != ['rates_out', 'payments_out', 'payment_dfs_out', 'payment_pvs_out', 'cumulative_pvs_out']:
            raise P.Untranslatable(f'SwapFloatLeg.value loop: tables appended {outs}')
        emit(_fn('float_leg_step', body, ['leg_pv', 'df_payment', 'first_payment'] + outs), FuncSpec(
            'SwapFloatLeg.value[loop body]', 'float_leg_step',
            [('value_dt', INT), ('df_value', NUM), ('has_first_fixing', BOOL), ('first_fixing_rate', NUM),
             ('leg_pv', NUM), ('df_payment', NUM), ('first_payment', BOOL),
             ('payment_dt_in', INT), ('pay_alpha_in', NUM), ('index_alpha_in', NUM), ('df_start_in', NUM), ('df_end_in', NUM),
             ('notional_i_in', NUM), ('df_pay_in', NUM)],
            'tuple:num,num,bool,num,num,num,num,num',
            attr_map={'self.spread': ('spread', NUM)}, extra_params=[('spread', NUM)],
            doc='one iteration: (leg_pv, df_payment, first_payment) in and out, then the row appended to rates, payments, '
                'payment_dfs, payment_pvs, cumulative_pvs; has_first_fixing = (first_fixing_rate is not None); '
                'pay_alpha_in = self.year_fracs[i], index_alpha_in = index day count over the accrual dates, '
                'df_start_in / df_end_in = index_curve.df(accrual start / end), notional_i_in = self.notional_array[i], '
                'df_pay_in = discount_curve.df(payment_dt)'))
        tail, _ = _cut(P, _tail_stmts(P, after, 'SwapFloatLeg.value'), 'SwapFloatLeg.value tail', subst=FLOAT_TAIL_SUBST)
        emit(_fn('float_leg_tail', tail, ['leg_pv', 'payment_pvs_last', 'cumulative_pvs_last']), FuncSpec(
            'SwapFloatLeg.value[after the loop]', 'float_leg_tail',
            [('value_dt', INT), ('payment_dt', INT), ('leg_pv', NUM), ('df_payment', NUM), ('notional_last_in', NUM),
             ('payment_pvs_last', NUM), ('cumulative_pvs_last', NUM), ('is_pay', BOOL)],
            'tuple:num,num,num',
            attr_map={'self.principal': ('principal', NUM)}, extra_params=[('principal', NUM)],
            doc='principal exchange x notional_array[-1] on the last payment date and the PAY sign'))
        # ---------------------------------------------------------------- EquitySwapLeg.value
        f = find_function(S.parse(EQLEG_PY), 'EquitySwapLeg.value')
        _, loop, after = _the_loop(P, f, 'EquitySwapLeg.value')
        body, outs = _cut(P, loop.body, 'EquitySwapLeg.value loop', drop=EQ_STEP_DROP, subst=EQ_STEP_SUBST)
        _check_branch_tables(P, body, 'EquitySwapLeg.value loop')
        want = ['fwd_rates_out', 'div_fwd_rates_out', 'eq_fwd_rates_out', 'last_notionals_out', 'payment_amounts_out',
                'payment_dfs_out', 'payment_pvs_out', 'cumulative_pvs_out']
        if outs != want:
            raise P.Untranslatable(f'EquitySwapLeg.value loop: tables appended {outs}')
        emit(_fn('equity_leg_step', body, ['leg_pv', 'eq_term_rate', 'last_notional', 'next_notional'] + outs), FuncSpec(
            'EquitySwapLeg.value[loop body]', 'equity_leg_step',
            [('value_dt', INT), ('df_value', NUM), ('leg_pv', NUM), ('eq_term_rate', NUM), ('last_notional', NUM),
             ('next_notional', NUM), ('payment_dt_in', INT), ('year_frac_in', NUM), ('index_alpha_in', NUM),
             ('df_start_in', NUM), ('df_end_in', NUM), ('div_start_in', NUM), ('div_end_in', NUM), ('df_pay_in', NUM)],
            'tuple:num,num,num,num,num,num,num,num,num,num,num,num',
            attr_map={'self.current_price': ('current_price', NUM), 'self.quantity': ('quantity', NUM),
                      'self.notional': ('notional', NUM)},
            extra_params=[('current_price', NUM), ('quantity', NUM), ('notional', NUM)],
            doc='one iteration: (leg_pv, eq_term_rate, last_notional, next_notional) in and out, then the row appended to '
                'fwd_rates, div_fwd_rates, eq_fwd_rates, last_notionals, payment_amounts, payment_dfs, payment_pvs, cumulative_pvs'))
        if len(after) != 2 or U(after[1]) != 'return leg_pv':
            raise P.Untranslatable('EquitySwapLeg.value: expected the PAY sign and `return leg_pv` after the loop')
        tail, _ = _cut(P, after[:1], 'EquitySwapLeg.value tail', subst={IS_PAY: 'is_pay'})
        emit(_fn('equity_leg_tail', tail, ['leg_pv']), FuncSpec(
            'EquitySwapLeg.value[after the loop]', 'equity_leg_tail', [('leg_pv', NUM), ('is_pay', BOOL)], NUM))
        # ---------------------------------------------------------------- IborSwap
        tree = S.parse(SWAP_PY)
        fixed_attrs = {'self.fixed_leg.cpn': ('cpn', NUM), 'self.fixed_leg.notional': ('notional', NUM)}
        fn = slice_method(find_function(tree, 'IborSwap.pv01'), [], PV01_SUBST, 'swap_pv01')
        emit(fn, FuncSpec('IborSwap.pv01', 'swap_pv01', [('pv_in', NUM)], NUM, attr_map=fixed_attrs,
                          extra_params=[('cpn', NUM), ('notional', NUM)], skip_params=('self', 'value_dt', 'discount_curve'),
                          doc='pv_in = self.fixed_leg.value(value_dt, discount_curve)'))
        fn = slice_method(find_function(tree, 'IborSwap.swap_rate'), [], SWAP_RATE_SUBST, 'swap_swap_rate')
        fn.body, _ = _cut(P, fn.body, 'IborSwap.swap_rate', subst={FLOAT_IS_PAY: 'float_is_pay'})
        emit(fn, FuncSpec('IborSwap.swap_rate', 'swap_swap_rate',
                          [('pv01_in', NUM), ('float_leg_pv_in', NUM), ('float_is_pay', BOOL)], NUM,
                          attr_map={'self.float_leg.notional': ('float_notional', NUM)},
                          extra_params=[('float_notional', NUM)],
                          doc='pv01_in = self.pv01(value_dt, discount_curve), float_leg_pv_in = self.float_leg.value(...)'))
        f = find_function(tree, 'IborSwap.valuation_details')
        keep = [st for st in f.body if isinstance(st, ast.Assign) and len(st.targets) == 1
                and isinstance(st.targets[0], ast.Name) and st.targets[0].id in DETAILS_KEEP]
        if [st.targets[0].id for st in keep] != DETAILS_KEEP:
            raise P.Untranslatable('IborSwap.valuation_details: expected one assignment each to pv01, pay_receive_float, swap_rate')
        keep, _ = _cut(P, keep, 'IborSwap.valuation_details', subst={FLOAT_IS_PAY: 'float_is_pay'})
        emit(_fn('swap_details_rate', keep, ['pv01', 'swap_rate']), FuncSpec(
            'IborSwap.valuation_details[pv01, market_rate]', 'swap_details_rate',
            [('fixed_leg_value', NUM), ('float_leg_value', NUM), ('float_is_pay', BOOL)], 'tuple:num,num',
            attr_map=dict(fixed_attrs, **{'self.float_leg.notional': ('float_notional', NUM)}),
            extra_params=[('cpn', NUM), ('notional', NUM), ('float_notional', NUM)]))
        f = find_function(tree, 'IborSwap.cash_settled_pv01')
        loops = [st for st in f.body if isinstance(st, ast.For)]
        if len(loops) != 1 or U(loops[0].iter) != 'self.fixed_leg.payment_dts[start_index:]' or U(loops[0].target) != '_':
            raise P.Untranslatable('IborSwap.cash_settled_pv01: expected `for _ in self.fixed_leg.payment_dts[start_index:]`')
        emit(_fn('swap_cash_pv01_step', copy.deepcopy(loops[0].body), ['df', 'flat_pv01']), FuncSpec(
            'IborSwap.cash_settled_pv01[loop body]', 'swap_cash_pv01_step',
            [('df', NUM), ('flat_pv01', NUM), ('alpha', NUM), ('flat_swap_rate', NUM)], 'tuple:num,num'))
        # ---------------------------------------------------------------- OIS
        tree = S.parse(OIS_PY)
        fn = slice_method(find_function(tree, 'OIS.pv01'), [], PV01_SUBST, 'ois_pv01')
        emit(fn, FuncSpec('OIS.pv01', 'ois_pv01', [('pv_in', NUM)], NUM, attr_map=fixed_attrs,
                          extra_params=[('cpn', NUM), ('notional', NUM)], skip_params=('self', 'value_dt', 'discount_curve')))
        fn = slice_method(find_function(tree, 'OIS.swap_rate'), [], OIS_RATE_SUBST, 'ois_swap_rate')
        fn.body, _ = _cut(P, fn.body, 'OIS.swap_rate', subst={FLOAT_IS_PAY: 'float_is_pay'})
        emit(fn, FuncSpec('OIS.swap_rate', 'ois_swap_rate',
                          [('pv01_in', NUM), ('float_leg_value_in', NUM), ('float_is_pay', BOOL)], NUM,
                          attr_map={'self.fixed_leg.notional': ('notional', NUM)}, extra_params=[('notional', NUM)]))
        ns = 'SwapsF' if kind == 'float' else 'SwapsR'
        body = prelude(ns, kind) + '\n'.join(out) + f'\nend FinVerif.Gen.{ns}\n'
        return SOURCES, body
    return build


MODULES = {'SwapsF': build_swaps('float'), 'SwapsR': build_swaps('real')}
