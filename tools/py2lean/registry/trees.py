"""Generated module for the short-rate trees (property C03): `TreesR` (ℝ, noncomputable, for Props/C03d..f).

The tree builders and roll-back routines of hw_tree.py / bk_tree.py / bdt_tree.py are loops over arrays, which the
translator does not take.  What it *can* take are the straight-line pieces inside those loops: the branch
formulas of the probability loop, the index expressions of the edge branching, the per-node formulas of the
forward and backward inductions.  This builder cuts exactly those pieces out of the functions' ASTs and hands
each to the translator as a small synthetic function:

  probabilities       {hw,bk}_pu / _pm / _pd (a, j, dt, j_max)      the three-way `if j == j_max / elif j == -j_max / else`
                                                                   of the `for j in range(-j_max, j_max+1)` loop
  j_max rule          {hw,bk}_jmax_arg (a, dt)                      the argument of `ceil` in `j_max = ceil(0.1835/(a*dt))`;
                      {hw,bk}_{opt,swn,cp}_jmax_arg                 the same statement as repeated by each roll-back routine
  forward targets     {hw,bk}_fwd_tgt_u/_m/_d (j, j_max)            the column of `Q[m+1, ·]` that receives `Q[m,jN]*p?[jN]*z`
  HW drift            hw_sumqz_term, hw_alpha, hw_rate, hw_z        `alpha[m] = log(sum_qz/df[m+1])/dt`, `r = alpha + j*dR`, `z = exp(-r*dt)`
  BK objective        bk_f_term, bk_x, bk_z                         one term of `f`, `X = alpha + j*dX`, `z = exp(-exp(X)*dt)`
  roll-back indices   {hw,bk}_{opt,swn,cp}_idx_u/_m/_d (k, j_max)   the columns `kN / kN±1 / kN±2` read for vu, vm, vd — every
                                                                   edge-branching site of the routine must read the same
                                                                   columns (otherwise generation fails: a one-site edit of the
                                                                   index pattern is reported as a broken obligation)
  roll-back node      {hw,bk}_{opt,swn,cp}_back                     `(pu*vu + pm*vm + pd*vd) * df` (the only formula allowed to use vu)
                      {hw,bk}_{opt,swn,cp}_disc                     `df = exp(-r*dt)`
                      {hw,bk}_cp_bond_node / _cp_node               option-free and callable/puttable node value incl. flow and the
                                                                   `min(max(vhold - accrued, vput), vcall) + accrued` clamp
                      {hw,bk}_cp_terminal / _cp_bond_terminal       the values written at the maturity step
                      {hw,bk}_opt_call_node / _opt_put_node         `max(max(clean - K, 0), hold)` / put analogue
  BDT                 bdt_r0, bdt_q1, bdt_q_first/_inner/_last      level 1 and the three cases of the `Q[m+1, ·]` recursion
                      bdt_f_disc, bdt_f_term, bdt_ladder_down/_up   the search objective's discounting and the rate ladder
                      bdt_{opt,swn,cp}_back / _disc, bdt_cp_node, bdt_cp_bond_node, bdt_cp_terminal

Every cut is by exact source text or exact AST shape, and every expected piece must be found exactly as many
times as stated, so any edit to those statements either changes the generated Lean (and the theorems are
re-checked against it) or makes generation fail loudly (`Untranslatable` → broken obligation).  Array reads are
replaced by scalar parameters only for the subscript texts listed at each call below.
"""
from __future__ import annotations

import ast
import copy

from registry.bs import prelude

HW_PY = 'financepy/models/hw_tree.py'
BK_PY = 'financepy/models/bk_tree.py'
BDT_PY = 'financepy/models/bdt_tree.py'
SOURCES = [HW_PY, BK_PY, BDT_PY]

INT_NAMES = {'j', 'k', 'j_max', 'N', 'm', 'n', 'i', 'kN', 'jN', 'midm', 'nm'}
NOT_PARAMS = {'np', 'math', 'max', 'min', 'abs', 'ceil', 'int', 'float', 'range'}
BACK3 = '(pu * vu + pm * vm + pd * vd) * df'
BACK2 = '(pu * vu + pd * vd) * df'


def U(n):
    return ast.unparse(n)


class _Subst(ast.NodeTransformer):
    """replace array reads (exact `ast.unparse` text of a Subscript in load position) by scalar names"""

    def __init__(self, mapping):
        self.mapping = mapping
        self.hits = {k: 0 for k in mapping}

    def visit_Subscript(self, node):
        t = U(node)
        if isinstance(node.ctx, ast.Load) and t in self.mapping:
            self.hits[t] += 1
            return ast.copy_location(ast.Name(id=self.mapping[t], ctx=ast.Load()), node)
        return self.generic_visit(node)


def make_tools(P):
    Un = P.Untranslatable

    def subst(nodes, mapping, what):
        s = _Subst(mapping)
        out = [s.visit(copy.deepcopy(n)) for n in nodes]
        for k, c in s.hits.items():
            if c == 0:
                raise Un(f'{what}: expected array read `{k}` not found')
        return out

    def walk_in(node, cls):
        return [x for x in ast.walk(node) if isinstance(x, cls)]

    def loops(fn, target, iter_text):
        return [x for x in walk_in(fn, ast.For) if U(x.target) == target and U(x.iter) == iter_text]

    def top_assigns(fn):
        """function-level `Name = Name|Constant` statements (N = j_max, pu = 0.5, CONT_COMPOUNDED = True)"""
        out = []
        for st in fn.body:
            if isinstance(st, ast.Assign) and len(st.targets) == 1 and isinstance(st.targets[0], ast.Name) \
                    and isinstance(st.value, (ast.Name, ast.Constant)):
                out.append(st)
        return out

    def names_loaded(node):
        out = []
        for x in ast.walk(node):
            if isinstance(x, ast.Name) and isinstance(x.ctx, ast.Load) and x.id not in out:
                out.append(x.id)
        return out

    def closure(ret_nodes, candidates):
        """the candidate `Name = expr` statements (in source order) that the returned expressions depend on"""
        need = set()
        for r in ret_nodes:
            need |= set(names_loaded(r))
        keep = []
        for st in reversed(candidates):
            if not (isinstance(st, ast.Assign) and len(st.targets) == 1 and isinstance(st.targets[0], ast.Name)):
                continue
            if st.targets[0].id in need:
                keep.append(st)
                need.discard(st.targets[0].id)
                need |= set(names_loaded(st.value))
        return list(reversed(keep))

    def free_params(stmts):
        """names read before being assigned, in order of first occurrence"""
        bound, out = set(), []
        for st in stmts:
            val = st.value if isinstance(st, (ast.Assign, ast.Return, ast.AugAssign)) else st
            srcs = [val] if not isinstance(st, ast.If) else [st]
            for s in srcs:
                for nm in ordered_names(s):
                    if nm not in bound and nm not in out and nm not in NOT_PARAMS:
                        out.append(nm)
            if isinstance(st, ast.Assign):
                for t in st.targets:
                    if isinstance(t, ast.Name):
                        bound.add(t.id)
        return out

    def ordered_names(node):
        """Name loads in source order (ast.walk is breadth-first; sort by position)"""
        xs = [x for x in ast.walk(node) if isinstance(x, ast.Name) and isinstance(x.ctx, ast.Load)]
        xs.sort(key=lambda x: (getattr(x, 'lineno', 0), getattr(x, 'col_offset', 0)))
        out = []
        for x in xs:
            if x.id not in out:
                out.append(x.id)
        return out

    def mkfn(name, stmts):
        f = ast.FunctionDef(name=name, args=ast.arguments(posonlyargs=[], args=[], kwonlyargs=[], kw_defaults=[],
                                                          defaults=[]), body=stmts, decorator_list=[])
        ast.fix_missing_locations(f)
        return f

    def ret(e):
        return ast.Return(value=e)

    def edge_sites(fn, var):
        """[(site, loop, index_in_loop_body)] for every `if var == j_max: … elif var == -j_max: … else: …`"""
        out = []
        for lp in walk_in(fn, ast.For):
            for i, st in enumerate(lp.body):
                if isinstance(st, ast.If) and U(st.test) == f'{var} == j_max':
                    if not (len(st.orelse) == 1 and isinstance(st.orelse[0], ast.If)
                            and U(st.orelse[0].test) == f'{var} == -j_max' and st.orelse[0].orelse):
                        raise Un(f'{fn.name}: edge branching on {var} is not if/elif/else at line {st.lineno}')
                    out.append((st, lp, i))
        # no edge test may hide anywhere else
        n_all = len([x for x in walk_in(fn, ast.If) if U(x.test) == f'{var} == j_max'])
        if n_all != len(out):
            raise Un(f'{fn.name}: {n_all} tests `{var} == j_max` but {len(out)} recognised edge-branching sites')
        return out

    def branches(site):
        return [site.body, site.orelse[0].body, site.orelse[0].orelse]

    def three_way(var, rets):
        inner = ast.If(test=ast.parse(f'{var} == -j_max', mode='eval').body, body=[ret(rets[1])], orelse=[ret(rets[2])])
        return ast.If(test=ast.parse(f'{var} == j_max', mode='eval').body, body=[ret(rets[0])], orelse=[inner])

    return dict(subst=subst, loops=loops, top_assigns=top_assigns, closure=closure, free_params=free_params,
                mkfn=mkfn, ret=ret, edge_sites=edge_sites, branches=branches, three_way=three_way, walk_in=walk_in,
                names_loaded=names_loaded)


def build_trees(kind):
    def build(P, S):
        from py2lean import FuncSpec, Translator, Dialect, NUM, INT, find_function
        Un = P.Untranslatable
        T = make_tools(P)
        tr = Translator(Dialect(kind), {})
        out = []

        def emit(py_name, lean_name, stmts, ret_t=NUM, doc=''):
            params = [(p, INT if p in INT_NAMES else NUM) for p in T['free_params'](stmts)]
            fn = T['mkfn'](lean_name, stmts)
            out.append(tr.function(fn, FuncSpec(py_name, lean_name, params, ret_t, doc=doc)))

        def one(xs, what):
            if len(xs) != 1:
                raise Un(f'{what}: found {len(xs)} (expected exactly 1)')
            return xs[0]

        def assigns_to(node, target_text):
            return [x for x in T['walk_in'](node, ast.Assign) if len(x.targets) == 1 and U(x.targets[0]) == target_text]

        # ------------------------------------------------------------------ trinomial trees (HW, BK)
        def jmax_arg(fn, lean_name, py):
            sts = [st for st in fn.body if isinstance(st, ast.Assign) and U(st.targets[0]) == 'j_max']
            st = one(sts, f'{py}: top-level assignment to j_max')
            if not (isinstance(st.value, ast.Call) and U(st.value.func) == 'ceil' and len(st.value.args) == 1):
                raise Un(f'{py}: j_max is not ceil(<expr>): {U(st)}')
            emit(py, lean_name, [T['ret'](st.value.args[0])], doc='the argument of `ceil` in `' + U(st) + '`')

        def trinomial_build(rel, pre):
            tree = S.parse(rel)
            fn = find_function(tree, 'build_tree_fast')
            py = f'{rel}:build_tree_fast'
            jmax_arg(fn, pre + '_jmax_arg', py)
            sites = T['edge_sites'](fn, 'j')
            if len(sites) != 2:
                raise Un(f'{py}: {len(sites)} edge-branching sites on j (expected 2: probabilities, forward induction)')
            # ---- probabilities
            psite, ploop, pidx = one([s for s in sites if all(
                isinstance(x, ast.Assign) and isinstance(x.targets[0], ast.Subscript) for x in s[0].body)],
                f'{py}: probability loop')
            if U(ploop.target) != 'j' or U(ploop.iter) != 'range(-j_max, j_max + 1)':
                raise Un(f'{py}: probability loop header is `for {U(ploop.target)} in {U(ploop.iter)}`')
            if len(ploop.body) != pidx + 1:
                raise Un(f'{py}: statements after the branching in the probability loop')
            for arr in ('pu', 'pm', 'pd'):
                rets = []
                for br in T['branches'](psite):
                    if len(br) != 3 or sorted(U(x.targets[0]) for x in br if isinstance(x, ast.Assign)) != \
                            ['pd[jN]', 'pm[jN]', 'pu[jN]']:
                        raise Un(f'{py}: a probability branch is not exactly pu[jN]=, pm[jN]=, pd[jN]=')
                    rets.append(one([x.value for x in br if U(x.targets[0]) == f'{arr}[jN]'], f'{py}: store to {arr}[jN]'))
                pre_st = T['closure'](rets, ploop.body[:pidx])
                emit(py, f'{pre}_{arr}', pre_st + [T['three_way']('j', rets)],
                     doc=f'`{arr}[jN]` of the probability loop, by branch (top edge, bottom edge, interior)')
            # the array position must be j + j_max
            jn = one(assigns_to(ploop, 'jN'), f'{py}: jN in the probability loop')
            emit(py, f'{pre}_prob_pos', T['closure']([jn.value], T['top_assigns'](fn)) + [T['ret'](jn.value)], INT,
                 doc='array position `jN` of node j in pu/pm/pd')
            # ---- forward induction targets
            fsite, floop, fidx = one([s for s in sites if s[0] is not psite], f'{py}: forward-induction branching')
            if U(floop.target) != 'j' or U(floop.iter) != 'range(-nm, nm + 1)':
                raise Un(f'{py}: forward loop header is `for {U(floop.target)} in {U(floop.iter)}`')
            if len(floop.body) != fidx + 1:
                raise Un(f'{py}: statements after the branching in the forward loop')
            for x_ in ('u', 'm', 'd'):
                rets = []
                for br in T['branches'](fsite):
                    if len(br) != 3 or not all(isinstance(s_, ast.AugAssign) and isinstance(s_.op, ast.Add) for s_ in br):
                        raise Un(f'{py}: a forward-induction branch is not exactly three `Q[m+1, …] += …`')
                    hit = []
                    for s_ in br:
                        tg = s_.target
                        if not (isinstance(tg, ast.Subscript) and U(tg.value) == 'Q' and isinstance(tg.slice, ast.Tuple)
                                and len(tg.slice.elts) == 2 and U(tg.slice.elts[0]) == 'm + 1'):
                            raise Un(f'{py}: forward-induction target {U(tg)}')
                        if U(s_.value) == f'Q[m, jN] * p{x_}[jN] * z':
                            hit.append(tg.slice.elts[1])
                    rets.append(one(hit, f'{py}: contribution Q[m, jN] * p{x_}[jN] * z in a branch'))
                pre_st = T['closure'](rets, T['top_assigns'](fn) + floop.body[:fidx])
                emit(py, f'{pre}_fwd_tgt_{x_}', pre_st + [T['three_way']('j', rets)], INT,
                     doc=f'column of Q[m+1, ·] that receives Q[m,jN]*p{x_}[jN]*z')
            return fn, floop, fidx

        # HW
        fn, floop, fidx = trinomial_build(HW_PY, 'hw')
        py = f'{HW_PY}:build_tree_fast'
        au = one([x for x in T['walk_in'](fn, ast.AugAssign) if U(x.target) == 'sum_qz'], f'{py}: sum_qz +=')
        lp = one([l_ for l_ in T['loops'](fn, 'j', 'range(-nm, nm + 1)') if au in l_.body], f'{py}: sum_qz loop')
        body = T['subst'](lp.body[:lp.body.index(au)] + [T['ret'](au.value)], {'Q[m, j + N]': 'q'}, py)
        emit(py, 'hw_sumqz_term', body, doc='one term of `sum_qz`; q = Q[m, j+N]')
        al = one(assigns_to(fn, 'alpha[m]'), f'{py}: alpha[m] =')
        emit(py, 'hw_alpha', T['subst']([T['ret'](al.value)], {'discount_factors[m + 1]': 'df_next'}, py),
             doc='df_next = discount_factors[m+1]')
        rt_ = one(assigns_to(fn, 'r_t[m, jN]'), f'{py}: r_t[m, jN] =')
        emit(py, 'hw_rate', T['subst']([T['ret'](rt_.value)], {'alpha[m]': 'alpha_m'}, py))
        zz = one(assigns_to(floop, 'z'), f'{py}: z =')
        pre_st = T['closure']([zz.value], [s_ for s_ in floop.body[:fidx] if s_ is not zz and U(s_.targets[0]) != 'jN'])
        emit(py, 'hw_z', T['subst'](pre_st + [T['ret'](zz.value)], {'r_t[m, jN]': 'r'}, py), doc='r = r_t[m, jN]')

        # BK
        fn, floop, fidx = trinomial_build(BK_PY, 'bk')
        py = f'{BK_PY}:build_tree_fast'
        xx = one(assigns_to(fn, 'X[m, jN]'), f'{py}: X[m, jN] =')
        emit(py, 'bk_x', T['subst']([T['ret'](xx.value)], {'alpha[m]': 'alpha_m'}, py))
        zz = one(assigns_to(floop, 'z'), f'{py}: z =')
        pre_st = T['closure']([zz.value], [s_ for s_ in floop.body[:fidx] if s_ is not zz and U(s_.targets[0]) != 'jN'])
        emit(py, 'bk_z', T['subst'](pre_st + [T['ret'](zz.value)], {'X[m, jN]': 'x'}, py), doc='x = X[m, jN]')
        ffn = find_function(S.parse(BK_PY), 'f')
        py = f'{BK_PY}:f'
        au = one([x for x in T['walk_in'](ffn, ast.AugAssign) if U(x.target) == 'sum_qz'], f'{py}: sum_qz +=')
        lp = one(T['loops'](ffn, 'j', 'range(-nm, nm + 1)'), f'{py}: loop')
        emit(py, 'bk_f_term', T['subst'](lp.body[:lp.body.index(au)] + [T['ret'](au.value)], {'Q[j + N]': 'q'}, py),
             doc='one term of the objective; q = Q[j+N]')
        ob = one(assigns_to(ffn, 'obj_fn'), f'{py}: obj_fn =')
        emit(py, 'bk_f_obj', [T['ret'](ob.value)])

        # ------------------------------------------------------------------ roll-back routines
        def rollback(rel, pre, routine, tag, nsites_expected):
            tree = S.parse(rel)
            fn = find_function(tree, routine)
            py = f'{rel}:{routine}'
            jmax_arg(fn, f'{pre}_{tag}_jmax_arg', py)
            sites = T['edge_sites'](fn, 'k')
            if len(sites) != nsites_expected:
                raise Un(f'{py}: {len(sites)} edge-branching sites (expected {nsites_expected})')
            patt = None
            for site, lp, idx in sites:
                if U(lp.target) != 'k' or U(lp.iter) != 'range(-nm, nm + 1)':
                    raise Un(f'{py}: roll-back loop header is `for {U(lp.target)} in {U(lp.iter)}`')
                trip = []
                arrs = set()
                for br in T['branches'](site):
                    got = {}
                    for s_ in br:
                        if isinstance(s_, ast.Assign) and isinstance(s_.targets[0], ast.Name) and s_.targets[0].id in ('vu', 'vm', 'vd'):
                            v = s_.value
                            if not (isinstance(v, ast.Subscript) and isinstance(v.slice, ast.Tuple) and len(v.slice.elts) == 2
                                    and U(v.slice.elts[0]) == 'm + 1') or s_.targets[0].id in got:
                                raise Un(f'{py}: unexpected read {U(s_)}')
                            got[s_.targets[0].id] = v.slice.elts[1]
                            arrs.add(U(v.value))
                        elif isinstance(s_, ast.Assign) and U(s_.value) == BACK3 and isinstance(s_.targets[0], ast.Name):
                            pass
                        elif isinstance(s_, ast.Assign) and isinstance(s_.targets[0], ast.Subscript) \
                                and U(s_.targets[0].slice) == '(m, kN)' and isinstance(s_.value, ast.Name):
                            arrs.add(U(s_.targets[0].value))
                        else:
                            raise Un(f'{py}: unexpected statement in an edge-branching branch: {U(s_)}')
                    if sorted(got) != ['vd', 'vm', 'vu']:
                        raise Un(f'{py}: a branch does not read vu, vm, vd')
                    trip.append((got['vu'], got['vm'], got['vd']))
                if len(arrs) != 1:
                    raise Un(f'{py}: one edge-branching site touches several arrays {sorted(arrs)}')
                txt = [[U(e) for e in t3] for t3 in trip]
                kn = one(assigns_to(lp, 'kN'), f'{py}: kN =')
                knt = U(T['mkfn']('x', T['closure']([kn.value], T['top_assigns'](fn)) + [T['ret'](kn.value)]))
                if patt is None:
                    patt = (txt, knt, trip, kn, lp, idx)
                elif (txt, knt) != patt[:2]:
                    raise Un(f'{py}: edge-branching sites read different columns: {patt[0]} (kN: {patt[1]!r}) vs {txt} (kN: {knt!r})')
            txt, knt, trip, kn, lp, idx = patt
            pre_kn = T['closure']([kn.value], T['top_assigns'](fn)) + [kn]
            for c, x_ in enumerate(('u', 'm', 'd')):
                emit(py, f'{pre}_{tag}_idx_{x_}', pre_kn + [T['three_way']('k', [t3[c] for t3 in trip])], INT,
                     doc=f'column of the level-(m+1) array read for v{x_}; identical at all {len(sites)} edge-branching sites of the routine')
            # the only formula that may consume vu/vm/vd
            users = [x for x in T['walk_in'](fn, ast.Assign) if 'vu' in T['names_loaded'](x.value)]
            if not users or any(U(x.value) != BACK3 for x in users):
                raise Un(f'{py}: a statement other than `{BACK3}` uses vu')
            if len(users) not in (len(sites), 3 * len(sites)):
                raise Un(f'{py}: {len(users)} discounted-expectation statements for {len(sites)} sites')
            emit(py, f'{pre}_{tag}_back', [T['ret'](users[0].value)], doc=f'the discounted expectation, {len(users)} occurrences, all with this text')
            dfs = [x for l_ in {id(s[1]): s[1] for s in sites}.values() for x in l_.body
                   if isinstance(x, ast.Assign) and U(x.targets[0]) == 'df']
            if not dfs or len({U(x.value) for x in dfs}) != 1:
                raise Un(f'{py}: the one-period discount `df` is not assigned by one text in every roll-back loop')
            emit(py, f'{pre}_{tag}_disc', [T['ret'](dfs[0].value)], doc='one-period discount at the node')
            return fn, sites

        def cp_nodes(rel, pre, fn, sites, py, back_text, flows_name='tree_flows'):
            """option-free and callable/puttable node values of callable_puttable_bond_tree_fast"""
            lp = sites[0][1]
            if any(s[1] is not lp for s in sites):
                raise Un(f'{py}: the edge-branching sites are not in one loop')
            body = lp.body
            # option-free: v = …; bond_values[m, kN] = v; bond_values[m, kN] += flow
            i0 = one([i for i, s_ in enumerate(body) if isinstance(s_, ast.Assign) and U(s_.targets[0]) == 'v'
                      and U(s_.value) == back_text], f'{py}: v = {back_text}')
            tgt = 'bond_values[m, kN]' if pre != 'bdt' else 'bond_values[m, k]'
            if not (U(body[i0 + 1]) == f'{tgt} = v' and U(body[i0 + 2]) == f'{tgt} += flow'):
                raise Un(f'{py}: option-free node is not `v = …; {tgt} = v; {tgt} += flow`')
            stm = [body[i0], ast.parse('bv = v').body[0], ast.parse('bv = bv + flow').body[0], ast.parse('return bv').body[0]]
            emit(py, f'{pre}_cp_bond_node', stm, doc=f'{tgt} after the two stores')
            # callable/puttable: vhold = …; vhold = vhold + flow; value = min(max(vhold - accrued[m], vput), vcall) + accrued[m]
            i1 = one([i for i, s_ in enumerate(body) if isinstance(s_, ast.Assign) and U(s_.targets[0]) == 'vhold'
                      and U(s_.value) == back_text], f'{py}: vhold = {back_text}')
            tgt2 = tgt.replace('bond_values', 'call_put_bond_values')
            seq = body[i1:i1 + 4]
            if not (len(seq) == 4 and U(seq[1].targets[0]) == 'vhold' and U(seq[2].targets[0]) == 'value'
                    and U(seq[3]) == f'{tgt2} = value' and i1 + 4 == len(body)):
                raise Un(f'{py}: callable/puttable node is not `vhold = …; vhold = …; value = …; {tgt2} = value` at the end of the loop')
            stm = T['subst'](seq[:3], {'accrued[m]': 'accrued_m'}, py) + [ast.parse('return value').body[0]]
            emit(py, f'{pre}_cp_node', stm, doc='accrued_m = accrued[m]')
            # maturity step: vhold = (1 + tree_flows[m]) * face; vclean = vhold - accrued[m]; value = min(max(vclean, vput), vcall) + accrued[m]
            j0 = one([i for i, s_ in enumerate(fn.body) if isinstance(s_, ast.Assign) and U(s_.targets[0]) == 'vhold'],
                     f'{py}: top-level vhold =')
            seq = fn.body[j0:j0 + 3]
            if [U(s_.targets[0]) for s_ in seq] != ['vhold', 'vclean', 'value']:
                raise Un(f'{py}: maturity-step statements are not vhold, vclean, value')
            stm = T['subst'](seq, {f'{flows_name}[m]': 'tree_flows_m', 'accrued[m]': 'accrued_m'}, py) + [ast.parse('return value').body[0]]
            emit(py, f'{pre}_cp_terminal', stm)
            tl = one([x for x in T['walk_in'](fn, ast.Assign) if U(x.targets[0]) == tgt and x not in body and not isinstance(x.value, ast.Name)],
                     f'{py}: maturity-step store to {tgt}')
            emit(py, f'{pre}_cp_bond_terminal', T['subst']([T['ret'](tl.value)], {f'{flows_name}[m]': 'tree_flows_m'}, py))

        def opt_nodes(pre, fn, sites, py):
            """exercise decision of american_bond_option_tree_fast: the loop of the last site"""
            lp = sites[-1][1]
            need = ['clean_price', 'call_exercise', 'put_exercise']
            sts = {t: one([x for x in lp.body if isinstance(x, ast.Assign) and U(x.targets[0]) == t], f'{py}: {t} =') for t in need}
            ex = [x for x in T['walk_in'](lp, ast.Assign) if U(x.targets[0]) == 'call_option_values[m, kN]' and not isinstance(x.value, ast.Name)]
            if not ex or len({U(x.value) for x in ex}) != 1:
                raise Un(f'{py}: exercise stores to call_option_values differ')
            stm = T['subst']([sts['clean_price'], sts['call_exercise'], T['ret'](ex[0].value)], {'accrued[m]': 'accrued_m'}, py)
            emit(py, f'{pre}_opt_call_node', stm, doc=f'value stored when exercise is allowed ({len(ex)} stores with this text); dirty_price = bond_values[m, kN], hold_call = discounted expectation')
            ex = [x for x in T['walk_in'](lp, ast.Assign) if U(x.targets[0]) == 'put_option_values[m, kN]' and not isinstance(x.value, ast.Name)]
            if not ex or len({U(x.value) for x in ex}) != 1:
                raise Un(f'{py}: exercise stores to put_option_values differ')
            stm = T['subst']([sts['clean_price'], sts['put_exercise'], T['ret'](ex[0].value)], {'accrued[m]': 'accrued_m'}, py)
            emit(py, f'{pre}_opt_put_node', stm)

        for rel, pre, nopt in ((HW_PY, 'hw', 3), (BK_PY, 'bk', 4)):
            fn, sites = rollback(rel, pre, 'american_bond_option_tree_fast', 'opt', nopt)
            opt_nodes(pre, fn, sites, f'{rel}:american_bond_option_tree_fast')
            rollback(rel, pre, 'bermudan_swaption_tree_fast', 'swn', 3)
            fn, sites = rollback(rel, pre, 'callable_puttable_bond_tree_fast', 'cp', 2)
            cp_nodes(rel, pre, fn, sites, f'{rel}:callable_puttable_bond_tree_fast', BACK3)

        # ------------------------------------------------------------------ BDT
        tree = S.parse(BDT_PY)
        fn = copy.deepcopy(find_function(tree, 'build_tree_fast'))
        py = f'{BDT_PY}:build_tree_fast'
        flag = one([st for st in fn.body if isinstance(st, ast.Assign) and U(st.targets[0]) == 'CONT_COMPOUNDED'],
                   f'{py}: CONT_COMPOUNDED =')
        if not (isinstance(flag.value, ast.Constant) and flag.value.value is True):
            raise Un(f'{py}: CONT_COMPOUNDED is not the constant True')

        class _Res(ast.NodeTransformer):
            def visit_If(self, node):
                self.generic_visit(node)
                if U(node.test) == 'CONT_COMPOUNDED':
                    return node.body
                return node
        fn = _Res().visit(fn)
        ast.fix_missing_locations(fn)
        r0 = one(assigns_to(fn, 'r0'), f'{py}: r0 =')
        emit(py, 'bdt_r0', T['subst']([T['ret'](r0.value)], {'discount_factors[1]': 'df1'}, py), doc='CONT_COMPOUNDED = True branch')
        q10 = one(assigns_to(fn, 'Q[1, 0]'), f'{py}: Q[1, 0] =')
        q11 = one(assigns_to(fn, 'Q[1, 1]'), f'{py}: Q[1, 1] =')
        if U(q10.value) != U(q11.value):
            raise Un(f'{py}: Q[1,0] and Q[1,1] differ')
        if U(one(assigns_to(fn, 'rt[0, 0]'), f'{py}: rt[0, 0] =').value) != 'r0' or U(one(assigns_to(fn, 'Q[0, 0]'), f'{py}: Q[0,0]').value) != '1.0':
            raise Un(f'{py}: root initialisation changed')
        emit(py, 'bdt_q1', T['subst']([T['ret'](q10.value)], {'rt[0, 0]': 'r0'}, py), doc='Q[1,0] = Q[1,1]')
        mloop = one(T['loops'](fn, 'm', 'range(1, num_time_steps + 1)'), f'{py}: level loop')
        qf = one(assigns_to(mloop, 'Q[m + 1, 0]'), f'{py}: Q[m+1, 0] =')
        emit(py, 'bdt_q_first', T['subst']([T['ret'](qf.value)], {'Q[m, 0]': 'q', 'rt[m, 0]': 'r'}, py))
        nloop = one(T['loops'](mloop, 'n', 'range(1, m + 1)'), f'{py}: inner loop')
        qi = one(assigns_to(nloop, 'Q[m + 1, n]'), f'{py}: Q[m+1, n] =')
        emit(py, 'bdt_q_inner', T['subst']([T['ret'](qi.value)], {'Q[m, n - 1]': 'q_lo', 'rt[m, n - 1]': 'r_lo', 'Q[m, n]': 'q_hi',
                                                                'rt[m, n]': 'r_hi'}, py))
        ql = one(assigns_to(mloop, 'Q[m + 1, m + 1]'), f'{py}: Q[m+1, m+1] =')
        emit(py, 'bdt_q_last', T['subst']([T['ret'](ql.value)], {'Q[m, m]': 'q', 'rt[m, m]': 'r'}, py))
        # the search objective
        ffn = find_function(tree, 'f')
        py = f'{BDT_PY}:f'
        dn = one(assigns_to(ffn, 'rt[m, i - 1]'), f'{py}: rt[m, i-1] =')
        emit(py, 'bdt_ladder_down', T['subst']([T['ret'](dn.value)], {'rt[m, i]': 'r'}, py))
        up = one(assigns_to(ffn, 'rt[m, i]'), f'{py}: rt[m, i] =')
        emit(py, 'bdt_ladder_up', T['subst']([T['ret'](up.value)], {'rt[m, i - 1]': 'r'}, py))
        lp = one(T['loops'](ffn, 'i', 'range(0, m + 1)'), f'{py}: sum loop')
        au = one([x for x in lp.body if isinstance(x, ast.AugAssign) and U(x.target) == 'sum_inner'], f'{py}: sum_inner +=')
        nd = one(assigns_to(lp, 'next_period_df'), f'{py}: next_period_df =')
        emit(py, 'bdt_f_disc', [T['ret'](nd.value)])
        stm = T['subst']([s_ for s_ in lp.body if s_ is not au] + [T['ret'](au.value)], {'rt[m, i]': 'r_in', 'q_matrix[m, i]': 'q_in'}, py)
        emit(py, 'bdt_f_term', stm, doc='one term of sum_inner; r_in = rt[m, i], q_in = q_matrix[m, i]')
        emit(py, 'bdt_f_obj', [T['ret'](one(assigns_to(ffn, 'obj_fn'), f'{py}: obj_fn =').value)])

        # roll-back of the BDT routines: reads (k+1, k), `(pu*vu + pd*vd)*df` with pu = pd = 0.5
        def bdt_rollback(routine, tag, nreads):
            fn = find_function(tree, routine)
            py = f'{BDT_PY}:{routine}'
            tops = T['top_assigns'](fn)
            half = [U(s_) for s_ in tops if U(s_.targets[0]) in ('pu', 'pd')]
            if sorted(half) != ['pd = 0.5', 'pu = 0.5']:
                raise Un(f'{py}: pu, pd are not the constants 0.5: {half}')
            vus = assigns_to(fn, 'vu')
            vds = assigns_to(fn, 'vd')
            if len(vus) != nreads or len(vds) != nreads:
                raise Un(f'{py}: {len(vus)}/{len(vds)} reads of vu/vd (expected {nreads})')
            for x in vus:
                if not (isinstance(x.value, ast.Subscript) and U(x.value.slice) == '(m + 1, k + 1)'):
                    raise Un(f'{py}: vu read {U(x)}')
            for x in vds:
                if not (isinstance(x.value, ast.Subscript) and U(x.value.slice) == '(m + 1, k)'):
                    raise Un(f'{py}: vd read {U(x)}')
            users = [x for x in T['walk_in'](fn, ast.Assign) if 'vu' in T['names_loaded'](x.value)]
            if len(users) != nreads or any(U(x.value) != BACK2 for x in users):
                raise Un(f'{py}: discounted expectation is not `{BACK2}` at every site')
            emit(py, f'bdt_{tag}_back', [s_ for s_ in tops if U(s_.targets[0]) in ('pu', 'pd')] + [T['ret'](users[0].value)],
                 doc=f'{nreads} sites, all reading columns k+1 (vu) and k (vd) of level m+1')
            for lp_ in T['loops'](fn, 'k', 'range(0, nm + 1)'):
                pass
            dfs = [x for x in T['walk_in'](fn, ast.Assign) if U(x.targets[0]) == 'df' and 'np' in T['names_loaded'](x.value)]
            if not dfs or len({U(x.value) for x in dfs}) != 1:
                raise Un(f'{py}: one-period discount assigned by several texts')
            emit(py, f'bdt_{tag}_disc', [T['ret'](dfs[0].value)])
            return fn

        bdt_rollback('american_bond_option_tree_fast', 'opt', 4)
        bdt_rollback('bermudan_swaption_tree_fast', 'swn', 3)
        fn = bdt_rollback('callable_puttable_bond_tree_fast', 'cp', 2)
        py = f'{BDT_PY}:callable_puttable_bond_tree_fast'
        kl = [l_ for l_ in T['loops'](fn, 'k', 'range(0, nm + 1)') if assigns_to(l_, 'vu')]
        lp = one(kl, f'{py}: roll-back loop')
        half = [s_ for s_ in T['top_assigns'](fn) if U(s_.targets[0]) in ('pu', 'pd')]
        # reuse cp_nodes with the constants bound first
        sites = [(None, lp, 0)]
        _emit = emit

        def emit_half(py_name, lean_name, stmts, ret_t=NUM, doc=''):
            used = set()
            for s_ in stmts:
                used |= set(T['names_loaded'](s_))
            _emit(py_name, lean_name, [h for h in half if h.targets[0].id in used] + stmts, ret_t, doc)
        emit = emit_half
        try:
            cp_nodes(BDT_PY, 'bdt', fn, sites, py, BACK2)
        finally:
            emit = _emit

        body = prelude('TreesR', kind) + '\n'.join(out) + '\nend FinVerif.Gen.TreesR\n'
        return SOURCES, body
    return build


MODULES = {'TreesR': build_trees('real')}
