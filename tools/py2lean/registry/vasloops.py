"""VasLoopR — the LOOPS of `financepy/models/process_simulator.py:get_vasicek_paths` (NORMAL and ANTITHETIC branches), cut
out of the source `for` statements (ℝ / Int, for Props/C19k).  Same conventions as registry/mcloops.py:

  vas_dt, vas_steps_arg, vas_ssd   `dt = …`, the ARGUMENT of `int(·)` in `num_steps = int(…)`, `sigma_sqrt_dt = …`
  per branch X in {n (NORMAL), a (ANTITHETIC)}:
  vas_X_shape, vas_X_init          extents of `rate_path = np.empty((rows, cols))`, value of `rate_path[:, 0] = …`
  vas_X_path_range                 `for i_path in range(lo, hi)`
  vas_X_path_init                  the scalar state set at the top of every path (`r = r0` / `r1 = r0; r2 = r0`)
  vas_X_step_range                 `for i_step in range(lo, hi)`
  vas_X_idx                        subscripts (row, column) of every store in the inner body and of the read of z
  vas_X_step                       the inner body: state -> (new state, stored values)
The statement after the path initialisation must be exactly `z = np.random.normal(0.0, 1.0, size=num_steps)` (one vector
of num_steps draws per path: path-major draw order), `np.random.seed(seed)` must come first.  Anything else raises
Untranslatable.
"""
from __future__ import annotations

import ast

from registry.bs import prelude
from registry.crrloops import U, _assign, _fn, _range_stmts, _plain, _one, _is_assign_to
from registry.mcloops import _cut, _sub2

PS_PY = 'financepy/models/process_simulator.py'
SOURCES = [PS_PY]


def build_vas(kind):
    def build(P, S):
        from py2lean import FuncSpec, Translator, Dialect, NUM, INT, find_function
        Un = P.Untranslatable
        tr = Translator(Dialect(kind), {})
        out = []

        def emit(name, stmts, rets, params, ret, doc=''):
            out.append(tr.function(_fn(name, stmts, rets), FuncSpec(f'get_vasicek_paths[{name}]', name, params, ret, doc=doc)))

        w = 'get_vasicek_paths'
        f = find_function(S.parse(PS_PY), w)
        if [a.arg for a in f.args.args] != ['num_paths', 'num_annual_steps', 't', 'r0', 'kappa', 'theta', 'sigma', 'scheme', 'seed']:
            raise Un(f'{w}: parameter list changed')
        body = [s for s in f.body if not (isinstance(s, ast.Expr) and isinstance(s.value, ast.Constant))]
        if U(body[0]) != 'np.random.seed(seed)':
            raise Un(f'{w}: the first statement is not `np.random.seed(seed)`')
        i_if, st_if = _one(P, body, lambda s: isinstance(s, ast.If), w, 'top-level if')
        pre = body[1:i_if]
        if [U(s.targets[0]) if isinstance(s, ast.Assign) else '?' for s in pre] != ['dt', 'num_steps', 'sigma_sqrt_dt']:
            raise Un(f'{w}: the statements before the branch are not dt, num_steps, sigma_sqrt_dt')
        if [U(s) for s in body[i_if + 1:]] != ['return rate_path']:
            raise Un(f'{w}: the statements after the branch are not just `return rate_path`')
        st_dt, st_ns, st_ssd = pre
        emit('vas_dt', [st_dt], ['dt'], [('num_annual_steps', INT)], NUM)
        v = st_ns.value
        if not (isinstance(v, ast.Call) and U(v.func) == 'int' and len(v.args) == 1 and not v.keywords):
            raise Un(f'{w}: `{U(st_ns)}` is not `num_steps = int(…)`')
        emit('vas_steps_arg', [_assign('arg', v.args[0])], ['arg'], [('t', NUM), ('dt', NUM)], NUM,
             doc='the argument of `int(·)` in `num_steps = int(…)` (int truncates toward zero)')
        emit('vas_ssd', [st_ssd], ['sigma_sqrt_dt'], [('sigma', NUM), ('dt', NUM)], NUM)
        if U(st_if.test) != 'scheme == FinVasicekNumericalScheme.NORMAL.value':
            raise Un(f'{w}: first branch test is `{U(st_if.test)}`')
        if len(st_if.orelse) != 1 or not isinstance(st_if.orelse[0], ast.If):
            raise Un(f'{w}: no elif branch')
        st_el = st_if.orelse[0]
        if U(st_el.test) != 'scheme == FinVasicekNumericalScheme.ANTITHETIC.value' or st_el.orelse:
            raise Un(f'{w}: second branch is not `elif scheme == FinVasicekNumericalScheme.ANTITHETIC.value:` without else')

        def branch(x, stmts, state, stores):
            ww = f'{w} {"NORMAL" if x == "n" else "ANTITHETIC"} branch'
            if len(stmts) != 3 or not isinstance(stmts[2], ast.For):
                raise Un(f'{ww}: expected alloc, init, path loop')
            al, ini, lp = stmts
            if not (_is_assign_to('rate_path')(al) and isinstance(al.value, ast.Call) and U(al.value.func) == 'np.empty'
                    and len(al.value.args) == 1 and not al.value.keywords and isinstance(al.value.args[0], ast.Tuple)
                    and len(al.value.args[0].elts) == 2):
                raise Un(f'{ww}: `{U(al)}` is not `rate_path = np.empty((rows, cols))`')
            r, c = al.value.args[0].elts
            emit(f'vas_{x}_shape', [_assign('rows', r), _assign('cols', c)], ['rows', 'cols'],
                 [('num_paths', INT), ('num_steps', INT)], 'tuple:int,int', doc='extents of `rate_path = np.empty((rows, cols))`')
            if not (isinstance(ini, ast.Assign) and len(ini.targets) == 1 and U(ini.targets[0]) == 'rate_path[:, 0]'):
                raise Un(f'{ww}: `{U(ini)}` is not `rate_path[:, 0] = …`')
            emit(f'vas_{x}_init', [_assign('v0', ini.value)], ['v0'], [('r0', NUM)], NUM, doc='`rate_path[:, 0] = v0`: column 0 of every row')
            if U(lp.target) != 'i_path':
                raise Un(f'{ww}: outer loop variable is {U(lp.target)}')
            inner = _plain(P, lp, ww, inner=1)
            _plain(P, inner, ww + ' (inner)')
            if U(inner.target) != 'i_step':
                raise Un(f'{ww}: inner loop variable is {U(inner.target)}')
            hs, hn = _range_stmts(P, lp.iter, ww, 2)
            emit(f'vas_{x}_path_range', hs, hn, [('num_paths', INT)], 'tuple:int,int', doc='`for i_path in range(lo, hi)`')
            head = lp.body[:-1]
            if len(head) != len(state) + 1 or U(head[-1]) != 'z = np.random.normal(0.0, 1.0, size=num_steps)' \
                    or [U(s.targets[0]) if isinstance(s, ast.Assign) else '?' for s in head[:-1]] != state:
                raise Un(f'{ww}: the top of the path loop is not {state} followed by the draw `z = np.random.normal(0.0, 1.0, size=num_steps)`: '
                         f'{[U(s) for s in head]}')
            emit(f'vas_{x}_path_init', head[:-1], state, [('r0', NUM)], 'tuple:' + ','.join(['num'] * len(state)) if len(state) > 1 else NUM,
                 doc='the scalar state at the top of every path')
            hs, hn = _range_stmts(P, inner.iter, ww + ' (inner)', 2)
            emit(f'vas_{x}_step_range', hs, hn, [('num_steps', INT)], 'tuple:int,int', doc='`for i_step in range(lo, hi)`')
            idx, names = [], []
            for text, nm in stores.items():
                rr, cc = _sub2(P, text, ww)
                idx += [_assign(nm + '_row', rr), _assign(nm + '_col', cc)]
                names += [nm + '_row', nm + '_col']
            idx.append(_assign('z_idx', ast.parse('z[i_step - 1]', mode='eval').body.slice))
            names.append('z_idx')
            emit(f'vas_{x}_idx', idx, names, [('i_path', INT), ('i_step', INT), ('num_paths', INT)], 'tuple:' + ','.join(['int'] * len(names)),
                 doc='subscripts of the inner body, in order: ' + ', '.join(names) + ' (z_idx: the read `z[i_step - 1]`, pinned by its text)')
            st = _cut(P, inner.body, ww, {'z[i_step - 1]': 'z_in'}, stores, counts={'z[i_step - 1]': len(state)})
            rets = state + list(stores.values())
            emit(f'vas_{x}_step', st, rets, [(s, NUM) for s in state] + [('z_in', NUM), ('kappa', NUM), ('theta', NUM), ('dt', NUM), ('sigma_sqrt_dt', NUM)],
                 'tuple:' + ','.join(['num'] * len(rets)),
                 doc='one inner iteration: new state, then the stored values; z_in = z[i_step - 1]; stores: '
                     + ', '.join(f'{k} = {v}' for k, v in stores.items()))

        branch('n', st_if.body, ['r'], {'rate_path[i_path, i_step]': 'rp_out'})
        branch('a', st_el.body, ['r1', 'r2'], {'rate_path[i_path, i_step]': 'rp_out', 'rate_path[i_path + num_paths, i_step]': 'rp_out2'})
        ns = 'VasLoopR'
        text = prelude(ns, kind) + '\n'.join(out) + f'\nend FinVerif.Gen.{ns}\n'
        return SOURCES, text
    return build


MODULES = {'VasLoopR': build_vas('real')}
