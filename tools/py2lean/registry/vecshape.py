"""Generated module `VecShape` (C18, growth round 7): the scalar-or-vector DISPATCH of the curve entry points as Lean.

What is translated is the control flow on the TYPE of the "Date or list" / "float or ndarray" argument: isinstance
chains, `np.array([t])` wrapping, `[0]` unwrapping, early returns, raises, `np.any(...)` guards and the element loops,
with every call between the entry points INLINED (helpers.times_from_dates, interpolator.interpolate, _vinterpolate,
Interpolator.interpolate, DiscountCurve.df_t / _zero_to_df).  Every maximal expression below that level is opaque and
becomes `K.ew "<key>" [vars]` / `K.dw` / `K.tst` / `K.cfg`, the key being the normalised source text (opaque names
replaced by their reaching definition, callee parameters by the caller's argument text, element variables by _1, _2).
So two paths agree in the model exactly when they evaluate the same source expression per element.

Normalisations done here (each refuses loudly — Untranslatable — outside its pattern):
  * `for i in range(0, n)` with `n = len(X)` / `X.size`, `X[i]` the only use of `i`, one `acc.append(e)` / `acc[i] = e`
    as the last statement, and NO local read before it is assigned in the body (a loop-carried local, the shape of the
    round-3 `add_months` defect) becomes `mapE (fun x => body) X`;
  * a dispatch on a value whose shape is known at that point (because the caller wrapped / unwrapped it) is resolved
    at generation time;
  * element-wise by trust: NumPy arithmetic / ufuncs, a SciPy spline call, a comprehension over the array, `[c]*len(x)`,
    the compiled `_uinterpolate`, `_zero_rate` of the parametric curves (validated bit-for-bit on the implementation by
    harness/props/c18.py `curve_vector_checks` on every run).
"""
from __future__ import annotations

import ast
import copy

HELP = 'financepy/utils/helpers.py'
INTERP = 'financepy/market/curves/interpolator.py'
DC = 'financepy/market/curves/discount_curve.py'
CURVES = {
    'DiscountCurve': DC,
    'DiscountCurveFlat': 'financepy/market/curves/discount_curve_flat.py',
    'DiscountCurveZeros': 'financepy/market/curves/discount_curve_zeros.py',
    'DiscountCurvePWF': 'financepy/market/curves/discount_curve_pwf.py',
    'DiscountCurvePWL': 'financepy/market/curves/discount_curve_pwl.py',
    'DiscountCurveNS': 'financepy/market/curves/discount_curve_ns.py',
    'DiscountCurveNSS': 'financepy/market/curves/discount_curve_nss.py',
    'DiscountCurvePoly': 'financepy/market/curves/discount_curve_poly.py',
}
SOURCES = sorted({HELP, INTERP} | set(CURVES.values()))

# (lean name, class or None, function, [(param, kind)])   kind: 'date' | 'num'
ENTRIES = [
    ('times_from_dates', None, 'times_from_dates', [('dt', 'date')]),
    ('interpolate', None, 'interpolate', [('t', 'num')]),
    ('vinterpolate', None, '_vinterpolate', [('xValues', 'num:v')]),
    ('Interpolator_interpolate', 'Interpolator', 'interpolate', [('t', 'num')]),
    ('DiscountCurve_df_t', 'DiscountCurve', 'df_t', [('t', 'num')]),
    ('DiscountCurve_df', 'DiscountCurve', 'df', [('dt', 'date')]),
    ('DiscountCurveZeros_df', 'DiscountCurveZeros', 'df', [('dt', 'date')]),
    ('DiscountCurveFlat_df', 'DiscountCurveFlat', 'df', [('dts', 'date')]),
    ('DiscountCurveNS_df', 'DiscountCurveNS', 'df', [('dates', 'date')]),
    ('DiscountCurveNSS_df', 'DiscountCurveNSS', 'df', [('dates', 'date')]),
    ('DiscountCurvePWF_df', 'DiscountCurvePWF', 'df', [('dates', 'date')]),
    ('DiscountCurvePWL_df', 'DiscountCurvePWL', 'df', [('dates', 'date')]),
    ('DiscountCurvePoly_df', 'DiscountCurvePoly', 'df', [('dates', 'date')]),
]
MODULE_FUNCS = {'times_from_dates': HELP, 'interpolate': INTERP, '_vinterpolate': INTERP}
INLINE_METHODS = {'df_t', '_zero_to_df'}          # self.<m>(...) resolved through the class and DiscountCurve
SCALAR_T = {'Date': 'date', 'float': 'num', 'np.float64': 'num', '(float, np.float64)': 'num'}
VECTOR_T = {'list': 'date', 'np.ndarray': 'num'}


class Untranslatable(Exception):
    pass


class V:
    """a scalar-or-vector value: raw Lean term of shape 's' (element) / 'v' (List), or a `Val` term of shape '?'"""
    def __init__(self, expr, shape, kind, lit=None):
        self.expr, self.shape, self.kind, self.lit = expr, shape, kind, lit

    def val(self):
        return {'s': f'(Val.s {self.expr})', 'v': f'(Val.v {self.expr})', '?': self.expr}[self.shape]


def lstr(s):
    return '"' + s.replace('\\', '\\\\').replace('"', '\\"') + '"'


class Gen:
    def __init__(self, S):
        self.S = S
        self.trees = {}
        self.n = 0

    def tree(self, rel):
        if rel not in self.trees:
            self.trees[rel] = self.S.parse(rel)
        return self.trees[rel]

    def find(self, cls, name):
        if cls is None:
            for st in self.tree(MODULE_FUNCS[name]).body:
                if isinstance(st, ast.FunctionDef) and st.name == name:
                    return st
            raise Untranslatable(f'function {name} not found')
        rels = [INTERP] if cls == 'Interpolator' else [CURVES[cls], DC]
        for rel in rels:
            for st in self.tree(rel).body:
                if isinstance(st, ast.ClassDef) and (st.name == cls or rel == DC and st.name == 'DiscountCurve'):
                    for f in st.body:
                        if isinstance(f, ast.FunctionDef) and f.name == name:
                            return f
        raise Untranslatable(f'method {cls}.{name} not found')

    def fresh(self, base):
        self.n += 1
        return f'{base}_{self.n}'

    # ------------------------------------------------------------------ keys
    def key(self, node, env):
        """normalised text of an opaque expression and the value variables it mentions (in order of appearance)"""
        vals = []
        gen = self

        class T(ast.NodeTransformer):
            def visit_Subscript(self, n):
                if isinstance(n.value, ast.Name) and isinstance(env.get(n.value.id), list) and isinstance(n.slice, ast.Constant):
                    e = env[n.value.id][n.slice.value]
                    if isinstance(e, V):
                        return self.place(e)
                return self.generic_visit(n)

            def visit_ListComp(self, n):
                if len(n.generators) == 1 and isinstance(n.generators[0].iter, ast.Name) and isinstance(env.get(n.generators[0].iter.id), V) \
                        and isinstance(n.generators[0].target, ast.Name) and not n.generators[0].ifs:
                    tn, old = n.generators[0].target.id, env.get(n.generators[0].target.id)
                    env[tn] = env[n.generators[0].iter.id]
                    try:
                        r = self.visit(n.elt)
                    finally:
                        if old is None:
                            del env[tn]
                        else:
                            env[tn] = old
                    return r
                return self.generic_visit(n)

            def visit_Call(self, n):
                if gen.is_length(n, env):
                    return ast.Name(id='len_' + n.args[0].id, ctx=ast.Load())
                return self.generic_visit(n)

            def visit_Attribute(self, n):
                if gen.is_length(n, env):
                    return ast.Name(id='len_' + n.value.id, ctx=ast.Load())
                return self.generic_visit(n)

            def place(self, e):
                for i, x in enumerate(vals):
                    if x is e:
                        return ast.Name(id=f'_{i + 1}', ctx=ast.Load())
                vals.append(e)
                return ast.Name(id=f'_{len(vals)}', ctx=ast.Load())

            def visit_Name(self, n):
                e = env.get(n.id)
                if isinstance(e, V):
                    return self.place(e)
                if isinstance(e, str):
                    if e == n.id:
                        return n
                    return ast.parse(e, mode='eval').body
                return n
        t = T().visit(copy.deepcopy(node))
        return ast.unparse(t), vals

    def has_val(self, node, env):
        return bool(self.key(node, env)[1])

    # ------------------------------------------------------------------ opaque application
    def opaque(self, node, env):
        if isinstance(node, ast.BinOp) and isinstance(node.op, ast.Mult) and isinstance(node.left, ast.List) and len(node.left.elts) == 1 \
                and isinstance(node.left.elts[0], ast.Constant) and self.is_length(node.right, env):
            x = env[node.right.args[0].id]
            c = f'(K.ew {lstr(ast.unparse(node.left.elts[0]))} [])'
            if x.lit is not None:
                return V('[' + ', '.join(c for _ in x.lit) + ']', 'v', 'num', [c for _ in x.lit])
            if x.shape == 'v':
                return V(f'(List.map (fun _ => {c}) {x.expr})', 'v', 'num')
            raise Untranslatable('[c] * len(x) of an unknown shape')
        k, vals = self.key(node, env)
        ks = lstr(k)
        if not vals:
            return V(f'(K.ew {ks} [])', 's', 'num')
        if len(vals) == 1:
            a = vals[0]
            f = f'(K.dw {ks})' if a.kind == 'date' else f'(fun x => K.ew {ks} [x])'
            one = (lambda x: f'(K.dw {ks} {x})') if a.kind == 'date' else (lambda x: f'(K.ew {ks} [{x}])')
            if a.shape == 's':
                return V(one(a.expr), 's', 'num')
            if a.lit is not None:
                lit = [one(x) for x in a.lit]
                return V('[' + ', '.join(lit) + ']', 'v', 'num', lit)
            if a.shape == 'v':
                return V(f'(List.map {f} {a.expr})', 'v', 'num')
            return V(f'(Val.map {f} {a.expr})', '?', 'num')
        if len(vals) == 2 and all(x.kind == 'num' for x in vals):
            a, b = vals
            if a.shape == 's' and b.shape == 's':
                return V(f'(K.ew {ks} [{a.expr}, {b.expr}])', 's', 'num')
            if a.lit is not None and b.lit is not None and len(a.lit) == len(b.lit):
                lit = [f'(K.ew {ks} [{x}, {y}])' for x, y in zip(a.lit, b.lit)]
                return V('[' + ', '.join(lit) + ']', 'v', 'num', lit)
            return V(f'(Val.map2 (fun a b => K.ew {ks} [a, b]) {a.val()} {b.val()})', '?', 'num')
        raise Untranslatable('opaque expression over more than two array variables: ' + k)

    # ------------------------------------------------------------------ isinstance tests
    def isinstance_test(self, test, env):
        """(variable name, shape for which the test is true or None, needs_nonempty) or None"""
        neg = False
        if isinstance(test, ast.Compare) and len(test.ops) == 1 and isinstance(test.ops[0], ast.Is) \
                and isinstance(test.comparators[0], ast.Constant) and test.comparators[0].value is False:
            neg, test = True, test.left
        nonempty = False
        if isinstance(test, ast.BoolOp) and isinstance(test.op, ast.And) and len(test.values) == 2:
            a, b = test.values
            if (isinstance(b, ast.Call) and getattr(b.func, 'id', '') == 'isinstance' and isinstance(b.args[0], ast.Subscript)
                    and isinstance(a, ast.Call) and getattr(a.func, 'id', '') == 'isinstance'
                    and ast.unparse(b.args[0].value) == ast.unparse(a.args[0])):
                nonempty, test = True, a
        if not (isinstance(test, ast.Call) and getattr(test.func, 'id', '') == 'isinstance' and isinstance(test.args[0], ast.Name)):
            return None
        name = test.args[0].id
        e = env.get(name)
        if not isinstance(e, V):
            return None
        ty = ast.unparse(test.args[1])
        if ty in SCALAR_T:
            shape = 's' if SCALAR_T[ty] == e.kind else None
        elif ty in VECTOR_T:
            shape = 'v' if VECTOR_T[ty] == e.kind else None
        else:
            raise Untranslatable('isinstance against ' + ty)
        if neg:
            if nonempty or shape is None:
                raise Untranslatable('negated isinstance form')
            shape = 'v' if shape == 's' else 's'
        return name, shape, nonempty

    # ------------------------------------------------------------------ statements (continuation passing)
    def block(self, stmts, env, k):
        """Lean term (Except PyErr (Val α)) for the statements followed by the continuation; `k(V)` is what a
        `return` does; falling off the end returns None (not modelled: refuse)"""
        if not stmts:
            raise Untranslatable('fell off the end of a function / branch without return')
        st, rest = stmts[0], stmts[1:]
        if isinstance(st, ast.Expr):
            if isinstance(st.value, ast.Constant):          # docstring
                return self.block(rest, env, k)
            if isinstance(st.value, ast.Call) and getattr(st.value.func, 'id', '') == 'print':
                return self.block(rest, env, k)
            raise Untranslatable('expression statement ' + ast.unparse(st))
        if isinstance(st, ast.FunctionDef):                  # local helper: opaque
            return self.block(rest, env, k)
        if isinstance(st, ast.Raise):
            return '(.error .finError)'
        if isinstance(st, ast.Return):
            return self.value(st.value, env, k)
        if isinstance(st, ast.Assign) and len(st.targets) == 1:
            tg = st.targets[0]
            if isinstance(tg, ast.Subscript) and isinstance(tg.value, ast.Name) and isinstance(env.get(tg.value.id), list) \
                    and isinstance(tg.slice, ast.Constant):
                def k2(v, tg=tg):
                    e2 = dict(env)
                    lst = list(env[tg.value.id])
                    lst[tg.slice.value] = v
                    e2[tg.value.id] = lst
                    return self.block(rest, e2, k)
                return self.value(st.value, env, k2)
            if isinstance(tg, ast.Name):
                if isinstance(st.value, ast.List) and all(isinstance(x, ast.Constant) and x.value is None for x in st.value.elts) \
                        and st.value.elts:
                    e2 = dict(env)
                    e2[tg.id] = [None] * len(st.value.elts)
                    return self.block(rest, e2, k)
                if self.is_length(st.value, env):
                    e2 = dict(env)
                    e2[tg.id] = self.key(st.value, env)[0]
                    return self.block(rest, e2, k)
                constvec = isinstance(st.value, ast.BinOp) and isinstance(st.value.left, ast.List) and self.is_length(st.value.right, env)
                if not self.is_model_call(st.value) and not self.has_val(st.value, env) and not constvec:
                    e2 = dict(env)
                    e2[tg.id] = self.key(st.value, env)[0]
                    return self.block(rest, e2, k)

                def k3(v, tg=tg):
                    e2 = dict(env)
                    if v.lit is not None or v.shape == 's' and len(v.expr) < 12:
                        e2[tg.id] = v
                        return self.block(rest, e2, k)
                    nm = self.fresh(tg.id)
                    e2[tg.id] = V(nm, v.shape, v.kind)
                    return f'(let {nm} := {v.expr}\n {self.block(rest, e2, k)})'
                return self.value(st.value, env, k3)
        if isinstance(st, ast.If):
            return self.if_(st, rest, env, k)
        if isinstance(st, ast.For):
            return self.for_(st, rest, env, k)
        raise Untranslatable('statement ' + ast.unparse(st)[:80])

    def is_length(self, node, env):
        if isinstance(node, ast.Call) and getattr(node.func, 'id', '') == 'len' and len(node.args) == 1 \
                and isinstance(node.args[0], ast.Name) and isinstance(env.get(node.args[0].id), V):
            return True
        return isinstance(node, ast.Attribute) and node.attr == 'size' and isinstance(node.value, ast.Name) \
            and isinstance(env.get(node.value.id), V)

    def if_(self, st, rest, env, k):
        it = self.isinstance_test(st.test, env)
        then, els = st.body + rest, (st.orelse + rest if st.orelse else rest)
        if it is not None:
            name, shape, nonempty = it
            e = env[name]

            def branch(sh, raw):
                e2 = dict(env)
                e2[name] = V(raw, sh, e.kind, e.lit if sh == e.shape else None)
                if shape == sh:
                    if nonempty and e2[name].lit is None:
                        return f'(match {raw} with\n | [] => .error .indexError\n | _ :: _ => {self.block(then, e2, k)})'
                    return self.block(then, e2, k)
                return self.block(els, e2, k)
            if e.shape in ('s', 'v'):
                return branch(e.shape, e.expr)
            a, b = self.fresh(name), self.fresh(name)
            return f'(match {e.expr} with\n | .s {a} => {branch("s", a)}\n | .v {b} => {branch("v", b)})'
        kt, vals = self.key(st.test, env)
        if not vals:
            import re
            if kt == 'None is None':
                return self.block(then, env, k)
            if re.fullmatch(r'[A-Z]\w*\(.*\) is None', kt):      # a constructor call is never None
                return self.block(els, env, k)
            return f'(if K.cfg {lstr(kt)} then {self.block(then, env, k)}\n else {self.block(els, env, k)})'
        if len(vals) == 1 and vals[0].kind == 'num':
            a = vals[0]
            if a.shape == 's':
                return f'(if K.tst {lstr(kt)} {a.expr} then {self.block(then, env, k)}\n else {self.block(els, env, k)})'
            t = st.test
            if a.shape == 'v' and isinstance(t, ast.Call) and ast.unparse(t.func) == 'np.any' and len(t.args) == 1:
                ki = self.key(t.args[0], env)[0]
                return (f'(if List.any {a.expr} (fun x => K.tst {lstr(ki)} x) then {self.block(then, env, k)}\n'
                        f' else {self.block(els, env, k)})')
        raise Untranslatable('condition ' + kt)

    def for_(self, st, rest, env, k):
        if st.orelse:
            raise Untranslatable('for-else')
        body = st.body
        it = st.iter
        idx = None
        if isinstance(it, ast.Call) and getattr(it.func, 'id', '') == 'range' and isinstance(st.target, ast.Name):
            n = it.args[-1]
            if len(it.args) == 2 and not (isinstance(it.args[0], ast.Constant) and it.args[0].value == 0):
                raise Untranslatable('range not starting at 0')
            ntext = self.key(n, env)
            src = None
            for nm, e in env.items():
                if isinstance(e, V) and e.shape == 'v':
                    if ntext[0] == 'len_' + nm and not ntext[1]:
                        src = nm
            if src is None:
                raise Untranslatable('loop bound is not the length of an array argument: ' + ntext[0])
            idx = st.target.id
            elem = src
        elif isinstance(st.target, ast.Name) and isinstance(it, ast.Name) and isinstance(env.get(it.id), V) and env[it.id].shape == 'v':
            src, elem = it.id, st.target.id
        else:
            raise Untranslatable('loop form ' + ast.unparse(st)[:60])
        xs = env[src]
        body = copy.deepcopy(body)
        if idx is not None:
            class R(ast.NodeTransformer):
                def visit_Subscript(self, n):
                    if isinstance(n.value, ast.Name) and n.value.id == src and isinstance(n.slice, ast.Name) and n.slice.id == idx \
                            and isinstance(n.ctx, ast.Load):
                        return ast.Name(id=src, ctx=ast.Load())
                    return self.generic_visit(n)
            body = [R().visit(b) for b in body]
        last = body[-1]
        acc = None
        if isinstance(last, ast.Expr) and isinstance(last.value, ast.Call) and isinstance(last.value.func, ast.Attribute) \
                and last.value.func.attr == 'append' and isinstance(last.value.func.value, ast.Name):
            acc, yexpr = last.value.func.value.id, last.value.args[0]
        elif isinstance(last, ast.Assign) and isinstance(last.targets[0], ast.Subscript) and idx is not None \
                and isinstance(last.targets[0].slice, ast.Name) and last.targets[0].slice.id == idx:
            acc, yexpr = last.targets[0].value.id, last.value
        if acc is None or not isinstance(env.get(acc), str):
            raise Untranslatable('loop does not end by storing into a fresh accumulator')
        if idx is not None and any(isinstance(x, ast.Name) and x.id == idx for b in body[:-1] for x in ast.walk(b)) \
                or idx is not None and any(isinstance(x, ast.Name) and x.id == idx for x in ast.walk(yexpr)):
            raise Untranslatable('loop index used other than as X[i]')
        self.check_no_carried(body[:-1], yexpr, {src})
        x = self.fresh('x')
        e2 = dict(env)
        e2[elem] = V(x, 's', xs.kind)
        ret = ast.Return(value=yexpr)
        inner = self.block(body[:-1] + [ret], e2, lambda v: self.ok_scalar(v))
        out = self.fresh(acc)
        e3 = dict(env)
        e3[acc] = V(out, 'v', 'num')
        return (f'(match mapE (fun {x} => {inner}) {xs.expr} with\n | .error e => .error e\n'
                f' | .ok {out} => {self.block(rest, e3, k)})')

    def ok_scalar(self, v):
        if v.shape != 's':
            raise Untranslatable('loop body yields a non-scalar')
        return f'(Except.ok {v.expr})'

    def check_no_carried(self, stmts, yexpr, ok):
        assigned = {t.id for s in stmts for n in ast.walk(s) if isinstance(n, ast.Assign) for t in n.targets if isinstance(t, ast.Name)}
        assigned |= {n.target.id for s in stmts for n in ast.walk(s) if isinstance(n, ast.AugAssign) and isinstance(n.target, ast.Name)}

        def walk(ss, written):
            for s in ss:
                if isinstance(s, ast.If):
                    self_reads(s.test, written)
                    w1, w2 = walk(s.body, set(written)), walk(s.orelse, set(written))
                    written = w1 & w2
                elif isinstance(s, ast.Assign):
                    self_reads(s.value, written)
                    written = written | {t.id for t in s.targets if isinstance(t, ast.Name)}
                elif isinstance(s, ast.AugAssign):
                    self_reads(s.value, written)
                    self_reads(s.target, written)
                else:
                    self_reads(s, written)
            return written

        def self_reads(node, written):
            for n in ast.walk(node):
                if isinstance(n, ast.Name) and n.id in assigned and n.id not in written and n.id not in ok:
                    raise Untranslatable(f'loop-carried local `{n.id}` is read before it is assigned in the loop body')
        w = walk(stmts, set())
        self_reads(yexpr, w)

    # ------------------------------------------------------------------ values
    def is_model_call(self, node):
        if not isinstance(node, ast.Call):
            return False
        f = node.func
        if isinstance(f, ast.Name) and f.id in MODULE_FUNCS:
            return True
        if isinstance(f, ast.Attribute) and isinstance(f.value, ast.Name) and f.value.id == 'self' and f.attr in INLINE_METHODS:
            return True
        if ast.unparse(f) == 'self._interpolator.interpolate':
            return True
        return False

    def value(self, node, env, k):
        """evaluate `node` and pass the V to k"""
        if isinstance(node, ast.Name) and isinstance(env.get(node.id), V):
            return k(env[node.id])
        if isinstance(node, ast.Subscript) and isinstance(node.value, ast.Name) and isinstance(node.slice, ast.Constant):
            e = env.get(node.value.id)
            if isinstance(e, list) and isinstance(e[node.slice.value], V):
                return k(e[node.slice.value])
            if isinstance(e, V) and node.slice.value == 0:
                if e.lit is not None:
                    return k(V(e.lit[0], 's', e.kind)) if e.lit else '(.error .indexError)'
                if e.shape == 'v':
                    y = self.fresh('y')
                    return f'(match {e.expr} with\n | [] => .error .indexError\n | {y} :: _ => {k(V(y, "s", e.kind))})'
                if e.shape == '?':
                    y = self.fresh('y')
                    return f'(match Val.first {e.expr} with\n | .error e => .error e\n | .ok {y} => {k(V(y, "?", e.kind))})'
                raise Untranslatable('subscript of a scalar')
        if isinstance(node, ast.Call) and ast.unparse(node.func) == 'np.array' and len(node.args) == 1:
            a = node.args[0]
            if isinstance(a, ast.List) and len(a.elts) == 1 and isinstance(a.elts[0], ast.Name) and isinstance(env.get(a.elts[0].id), V):
                e = env[a.elts[0].id]
                if e.shape != 's':
                    raise Untranslatable('np.array([x]) of a non-scalar')
                return k(V(f'[{e.expr}]', 'v', e.kind, [e.expr]))
            if isinstance(a, ast.Name) and isinstance(env.get(a.id), V):
                return k(env[a.id])
        if self.is_model_call(node):
            return self.call(node, env, k)
        if not self.has_val(node, env):
            return k(self.opaque(node, env))
        for sub in ast.walk(node):
            if sub is not node and self.is_model_call(sub):
                raise Untranslatable('model call nested in an expression: ' + ast.unparse(node)[:80])
        return k(self.opaque(node, env))

    def call(self, node, env, k):
        f = node.func
        selftext = env.get('self', 'self')
        cls = env.get('__class__')
        if isinstance(f, ast.Name):
            fn, ccls, cself = self.find(None, f.id), None, None
        elif ast.unparse(f) == 'self._interpolator.interpolate':
            fn, ccls, cself = self.find('Interpolator', 'interpolate'), 'Interpolator', f'{selftext}._interpolator'
        else:
            fn, ccls, cself = self.find(cls, f.attr), cls, selftext
        params = [a.arg for a in fn.args.args]
        defaults = dict(zip(params[len(params) - len(fn.args.defaults):], fn.args.defaults))
        cenv = {'__class__': ccls}
        if params and params[0] == 'self':
            cenv['self'] = cself
            params = params[1:]
        given = dict(zip(params, node.args))
        for kw in node.keywords:
            given[kw.arg] = kw.value
        pending = []
        for p in params:
            if p in given:
                a = given[p]
                if self.has_val(a, env) or self.is_model_call(a):
                    pending.append((p, a))
                else:
                    cenv[p] = self.key(a, env)[0]
            elif p in defaults:
                cenv[p] = ast.unparse(defaults[p])
            else:
                raise Untranslatable(f'missing argument {p} in call of {fn.name}')

        def bind(i):
            if i == len(pending):
                return self.block(fn.body, cenv, k)
            p, a = pending[i]

            def kk(v):
                cenv[p] = v
                return bind(i + 1)
            return self.value(a, env, kk)
        return bind(0)

    # ------------------------------------------------------------------ entry points
    def entry(self, lean, cls, name, params):
        fn = self.find(cls, name)
        env = {'__class__': cls}
        args = [a.arg for a in fn.args.args]
        if args and args[0] == 'self':
            env['self'] = 'self'
            args = args[1:]
        defaults = dict(zip(args[len(args) - len(fn.args.defaults):], fn.args.defaults))
        sig = []
        pk = dict(params)
        for a in args:
            if a in pk and pk[a].endswith(':v'):
                env[a] = V(a, 'v', pk[a][:-2])
                sig.append(f'({a} : List {"δ" if pk[a][:-2] == "date" else "α"})')
            elif a in pk:
                env[a] = V(a, '?', pk[a])
                sig.append(f'({a} : Val {"δ" if pk[a] == "date" else "α"})')
            else:
                env[a] = a
        body = self.block(fn.body, env, lambda v: f'(.ok {v.val()})')
        src = (cls + '.' if cls else '') + name
        return (f'/-- dispatch of `{src}` -/\ndef {lean} (K : Kern α δ) {" ".join(sig)} : Except PyErr (Val α) :=\n  {body}\n')


def build_vecshape(P, S):
    g = Gen(S)
    out = ['import FinVerif.Model.C18v', '', 'namespace FinVerif.Gen.VecShape', 'open FinVerif FinVerif.C18 FinVerif.C18v', '',
           'variable {α δ : Type}', '']
    for lean, cls, name, params in ENTRIES:
        try:
            out.append(g.entry(lean, cls, name, params))
        except Untranslatable as e:
            raise Untranslatable(f'{lean}: {e}')
    out.append('end FinVerif.Gen.VecShape')
    return SOURCES, '\n'.join(out) + '\n'


MODULES = {'VecShape': build_vecshape}
