"""Generated modules for property C04 (calibrated volatility objects): VolF (Float) and VolR (ℝ).

What is translated (ordinary T1 translator; `py2lean.py` itself is unchanged):

  models/volatility_fns.py   vol_function_clark (3 and 5 parameters), vol_function_bloomberg (3), vol_function_svi,
                             phi_ssvi, ssvi, ssvi1, ssvi2, ssvit, g, ssvi_local_varg, vol_function_ssvi
  models/sabr.py             _x, vol_function_sabr, vol_function_sabr_beta_one, vol_function_sabr_beta_half,
                             SABR.set_alpha_from_atm_black_vol  -> the four cubic coefficients as coded
  models/sabr_shifted.py     vol_function_shifted_sabr, SABRShifted.set_alpha_from_atm_black_vol -> coefficients
  utils/math.py              N, nprime, ... (shared), norminvcdf
  models/black_scholes_analytic.py  bs_value, bs_delta
  products/fx/fx_vanilla_option.py  fast_delta (all four FinFXDeltaMethod branches)
  market/volatility/fx_vol_surface.py        g (strike-from-delta objective), the ATM-strike chain of
                             FXVolSurface.build_vol_surface, the residual arithmetic of obj_fast, solve_for_strike
                             (closed forms; the two Newton branches return a solver parameter)
  market/volatility/fx_vol_surface_plus.py   _g, the ATM-strike chain of FXVolSurfacePlus._build_vol_surface, the
                             residual arithmetic of _obj (weights 1, 1-alpha, alpha)
  models/sabr.py, sabr_shifted.py   the nested objective `fn` of set_alpha_from_black_vol (model vol as a parameter); the
                             text around it is pinned (guard, bounds, `alpha = results.x[0]` stored unconditionally)
  market/volatility/{fx_vol_surface, fx_vol_surface_plus, equity_vol_surface, swaption_vol_surface}.py
                             vol_function -> dispatch table VolFuncTypes code -> family id (`vol_dispatch_*`)

Source-to-source preparation (each refuses anything it does not recognise -> Untranslatable -> broken obligation):
  * `params[i]` with a literal i -> scalar parameter `p<i>`; `len(params)` -> the parameter count the builders use
    (CLARK 3, CLARK5 5, BBG 3); `for i in range(0, <literal>)` unrolled; integer locals that are compile-time constants
    after unrolling (`pwr = num_params - i - 1`) folded.
  * `x = args[i]` prologue of the `*args` objectives -> x becomes a parameter.
  * objective tails: assignments whose right-hand side is a call of vol_function / bs_value / a strike solver are
    dropped and the names they bind become parameters (the solver / pricer results); what remains is the residual
    arithmetic exactly as coded.
  * ATM chain: the `if self.atm_method == ...: self.k_atm[i] = e ... else: raise` statement inside the tenor loop, with
    `self.k_atm[i] = e` read as `return e`.
"""
from __future__ import annotations

import ast
import copy
import math

from registry.bs import prelude, math_kernels, MATH_PY, GT_PY, GV_PY, BSA_PY
from registry.exotics import unroll

VFN_PY = 'financepy/models/volatility_fns.py'
SABR_PY = 'financepy/models/sabr.py'
SABRS_PY = 'financepy/models/sabr_shifted.py'
FXV_PY = 'financepy/products/fx/fx_vanilla_option.py'
FXC_PY = 'financepy/products/fx/fx_mkt_conventions.py'
FXS_PY = 'financepy/market/volatility/fx_vol_surface.py'
FXP_PY = 'financepy/market/volatility/fx_vol_surface_plus.py'
EQS_PY = 'financepy/market/volatility/equity_vol_surface.py'
SWS_PY = 'financepy/market/volatility/swaption_vol_surface.py'

SOURCES = [VFN_PY, SABR_PY, SABRS_PY, MATH_PY, BSA_PY, FXV_PY, FXC_PY, FXS_PY, FXP_PY, GT_PY, GV_PY, EQS_PY, SWS_PY]


# ----------------------------------------------------------------------------------------- AST preparation
class _Scalarize(ast.NodeTransformer):
    """params[i] -> p<i>, len(params) -> n"""

    def __init__(self, P, arr, n):
        self.P, self.arr, self.n = P, arr, n

    def visit_Subscript(self, node):
        self.generic_visit(node)
        if isinstance(node.value, ast.Name) and node.value.id == self.arr:
            if not (isinstance(node.slice, ast.Constant) and type(node.slice.value) is int and isinstance(node.ctx, ast.Load)):
                raise self.P.Untranslatable(f'{self.arr}[...] with a non-literal index or a store')
            if self.n is not None and not 0 <= node.slice.value < self.n:
                raise self.P.Untranslatable(f'{self.arr}[{node.slice.value}] outside the declared parameter count {self.n}')
            return ast.copy_location(ast.Name(id=f'p{node.slice.value}', ctx=ast.Load()), node)
        return node

    def visit_Call(self, node):
        self.generic_visit(node)
        if isinstance(node.func, ast.Name) and node.func.id == 'len' and len(node.args) == 1 \
                and isinstance(node.args[0], ast.Name) and node.args[0].id == self.arr:
            if self.n is None:
                raise self.P.Untranslatable('len(params) in a function with no declared parameter count')
            return ast.copy_location(ast.Constant(value=self.n), node)
        return node


def _fold_int(node, env):
    """value of an integer-constant expression over `env`, else None"""
    if isinstance(node, ast.Constant) and type(node.value) is int:
        return node.value
    if isinstance(node, ast.Name) and node.id in env:
        return env[node.id]
    if isinstance(node, ast.BinOp) and isinstance(node.op, (ast.Add, ast.Sub, ast.Mult)):
        a, b = _fold_int(node.left, env), _fold_int(node.right, env)
        if a is None or b is None:
            return None
        return {ast.Add: a + b, ast.Sub: a - b, ast.Mult: a * b}[type(node.op)]
    return None


class _SubstInts(ast.NodeTransformer):
    def __init__(self, env):
        self.env = env

    def visit_Name(self, node):
        if isinstance(node.ctx, ast.Load) and node.id in self.env:
            return ast.copy_location(ast.Constant(value=self.env[node.id]), node)
        return node


def fold_int_locals(fnode, P):
    """Straight-line bodies only: drop `name = <int constant expr>` and substitute the value downstream."""
    env = {}
    out = []
    for st in fnode.body:
        if isinstance(st, (ast.If, ast.For, ast.While)) and env:
            raise P.Untranslatable('integer folding across control flow')
        st = _SubstInts(dict(env)).visit(copy.deepcopy(st))
        if isinstance(st, ast.Assign) and len(st.targets) == 1 and isinstance(st.targets[0], ast.Name):
            v = _fold_int(st.value, {})
            if v is not None:
                env[st.targets[0].id] = v
                continue
            env.pop(st.targets[0].id, None)
        out.append(st)
    new = copy.deepcopy(fnode)
    new.body = out
    ast.fix_missing_locations(new)
    return new


class _LenOnly(_Scalarize):
    def visit_Subscript(self, node):
        self.generic_visit(node)
        return node


def scalarize(P, fnode, n, arr='params', fold=False):
    f = _LenOnly(P, arr, n).visit(copy.deepcopy(fnode))      # len(params) -> n
    ast.fix_missing_locations(f)
    f = unroll(f, P)                                          # literal-range loops
    f = _Scalarize(P, arr, n).visit(f)                        # params[<literal>] -> p<i>
    ast.fix_missing_locations(f)
    if fold:
        f = fold_int_locals(f, P)
    return f


def strip_args_prologue(P, fnode):
    """`x = args[i]` statements removed; returns (function, [names in args order])."""
    f = copy.deepcopy(fnode)
    names = {}
    body = []
    for st in f.body:
        if isinstance(st, ast.Assign) and len(st.targets) == 1 and isinstance(st.targets[0], ast.Name) \
                and isinstance(st.value, ast.Subscript) and isinstance(st.value.value, ast.Name) and st.value.value.id == 'args':
            if not (isinstance(st.value.slice, ast.Constant) and type(st.value.slice.value) is int):
                raise P.Untranslatable('args[...] with a non-literal index')
            names[st.value.slice.value] = st.targets[0].id
            continue
        body.append(st)
    for st in body:
        for x in ast.walk(st):
            if isinstance(x, ast.Name) and x.id == 'args':
                raise P.Untranslatable('use of *args outside the `x = args[i]` prologue')
    if sorted(names) != list(range(len(names))):
        raise P.Untranslatable('args prologue does not bind args[0..n-1]')
    f.body = body
    ast.fix_missing_locations(f)
    return f, [names[i] for i in range(len(names))]


def drop_call_assignments(P, stmts, callees, bound):
    """Remove `x = callee(...)` (x a plain name) recursively; the names go to `bound`."""
    out = []
    for st in stmts:
        if isinstance(st, ast.Assign) and len(st.targets) == 1 and isinstance(st.targets[0], ast.Name) \
                and isinstance(st.value, ast.Call) and isinstance(st.value.func, ast.Name) and st.value.func.id in callees:
            bound.append(st.targets[0].id)
            continue
        if isinstance(st, ast.If):
            st = ast.If(test=st.test, body=drop_call_assignments(P, st.body, callees, bound),
                        orelse=drop_call_assignments(P, st.orelse, callees, bound))
            if not st.body:
                raise P.Untranslatable('objective tail: an if-branch became empty')
        out.append(st)
    return out


def objective_tail(P, fnode, callees, also_drop=()):
    f, argnames = strip_args_prologue(P, fnode)
    bound = []
    body = drop_call_assignments(P, f.body, set(callees), bound)
    body = [st for st in body if ast.unparse(st) not in also_drop]
    f.body = body
    ast.fix_missing_locations(f)
    return f, argnames, bound


def atm_chain(P, fnode, first_test):
    """The ATM-strike if/elif chain inside the tenor loop of build_vol_surface, `self.k_atm[i] = e` -> `return e`."""
    hit = []
    for x in ast.walk(fnode):
        if isinstance(x, ast.If) and ast.unparse(x.test) == first_test:
            hit.append(x)
    if len(hit) != 1:
        raise P.Untranslatable(f'ATM-strike chain: {len(hit)} statements start with `{first_test}` (expected 1)')

    def conv(st):
        if isinstance(st, ast.If):
            return ast.If(test=st.test, body=[conv(s) for s in st.body], orelse=[conv(s) for s in st.orelse])
        if isinstance(st, ast.Raise):
            return st
        if isinstance(st, ast.Assign) and len(st.targets) == 1 and ast.unparse(st.targets[0]) == 'self.k_atm[i]':
            return ast.Return(value=st.value)
        raise P.Untranslatable('ATM-strike chain: unexpected statement ' + ast.unparse(st)[:60])

    g = ast.FunctionDef(name='atm_strike', args=fnode.args, body=[conv(hit[0])], decorator_list=[], returns=None,
                        type_comment=None)
    if hasattr(fnode, 'type_params'):
        g.type_params = []
    ast.fix_missing_locations(g)
    return g


def cubic_coeffs(P, fnode, pre_ok):
    """set_alpha_from_atm_black_vol: the statements up to `coeffs = [coeff3, coeff2, coeff1, coeff0]`, returning that tuple;
    the statements after it must be exactly the root selection."""
    body = [s for s in fnode.body if not (isinstance(s, ast.Expr) and isinstance(s.value, ast.Constant))]
    idx = None
    for i, st in enumerate(body):
        if ast.unparse(st) == 'coeffs = [coeff3, coeff2, coeff1, coeff0]':
            idx = i
    if idx is None:
        raise P.Untranslatable('cubic: `coeffs = [coeff3, coeff2, coeff1, coeff0]` not found')
    tail = [ast.unparse(s) for s in body[idx + 1:]]
    # The root selection is hand-modelled (Model/C04.lean: selectAlpha) and proved to return a real root or raise FinError
    # (Props/C04c: select_alpha_*).  Its source text must therefore be exactly the one modelled (commit 220a8a5); any other
    # selection — e.g. the earlier `np.min([coeff.real for coeff in roots if coeff.real > 0])`, which took the real part of
    # complex roots — makes generation fail, i.e. breaks the obligations that depend on it.
    want = ['roots = np.roots(coeffs)',
            'real_roots = [coeff.real for coeff in roots if coeff.real > 0 and abs(coeff.imag) <= 1e-10 * max(1.0, abs(coeff.real))]',
            "if len(real_roots) == 0:\n    raise FinError('No positive real root for alpha.')",
            'alpha = np.min(real_roots)']
    if tail[:-1] != want or len(tail) != 5 or tail[-1] not in ('self.alpha = alpha', 'self._alpha = alpha'):
        raise P.Untranslatable('cubic: the root selection after `coeffs = [...]` is not the modelled one '
                               '(real roots only, FinError if none, smallest): ' + ' | '.join(tail)[:300])
    g = copy.deepcopy(fnode)
    g.body = body[:idx] + [ast.Return(value=ast.Tuple(elts=[ast.Name(id=n, ctx=ast.Load()) for n in
                                                              ('coeff3', 'coeff2', 'coeff1', 'coeff0')], ctx=ast.Load()))]
    ast.fix_missing_locations(g)
    return g


def strike_objective(P, fnode, attr):
    """SABR / SABRShifted.set_alpha_from_black_vol: the nested objective `fn(x)` handed to L-BFGS-B, with the model's vol at x
    (`self.black_vol_with_alpha(x, f, k, t_exp)`, i.e. the generated Hagan formula at alpha = x) as a parameter.  The text
    around it is pinned: the solve is guarded by `init_alpha != black_vol` and nothing else, the optimiser's `results.x[0]`
    is stored unconditionally (no look at `results.success` / `results.fun` — the silent-failure clause stays a finding)."""
    body = [s for s in fnode.body if not (isinstance(s, ast.Expr) and isinstance(s.value, ast.Constant))]
    ifs = [s for s in body if isinstance(s, ast.If)]
    if len(ifs) != 1 or ast.unparse(ifs[0].test) != 'init_alpha != black_vol':
        raise P.Untranslatable('single-strike alpha solve: the guard is not exactly `if init_alpha != black_vol:` '
                               + ' | '.join(ast.unparse(s.test) for s in ifs)[:200])
    if [ast.unparse(s) for s in ifs[0].orelse] != ['alpha = init_alpha']:
        raise P.Untranslatable('single-strike alpha solve: else-branch is not `alpha = init_alpha`')
    if ast.unparse(body[-1]) != f'self.{attr} = alpha' or body[-2] is not ifs[0]:
        raise P.Untranslatable('single-strike alpha solve: the statement after the solve is not `self.%s = alpha`' % attr)
    inner = ifs[0].body
    fns = [s for s in inner if isinstance(s, ast.FunctionDef) and s.name == 'fn']
    rest = [ast.unparse(s) for s in inner if not (isinstance(s, ast.FunctionDef) and s.name == 'fn')]
    want = ['bnds = ((0.0, None),)', 'x0 = init_alpha',
            "results = minimize(fn, x0, method='L-BFGS-B', bounds=bnds, tol=1e-08)", 'alpha = results.x[0]']
    if len(fns) != 1 or rest != want:
        raise P.Untranslatable('single-strike alpha solve: body of the solve branch changed: ' + ' | '.join(rest)[:300])
    fn = copy.deepcopy(fns[0])
    if [a.arg for a in fn.args.args] != ['x'] or len(fn.body) != 1 or not isinstance(fn.body[0], ast.Return):
        raise P.Untranslatable('single-strike alpha solve: fn is not `def fn(x): return <expr>`')
    hits = [0]

    class R(ast.NodeTransformer):
        def visit_Call(self, node):
            self.generic_visit(node)
            if ast.unparse(node.func) == 'self.black_vol_with_alpha':
                if len(node.args) != 4 or ast.unparse(node.args[0]) != 'x':
                    raise P.Untranslatable('single-strike alpha solve: black_vol_with_alpha not called at x')
                hits[0] += 1
                return ast.copy_location(ast.Name(id='model_vol', ctx=ast.Load()), node)
            return node
    fn = R().visit(fn)
    if hits[0] != 1:
        raise P.Untranslatable('single-strike alpha solve: fn does not call self.black_vol_with_alpha exactly once')
    for x in ast.walk(fn.body[0]):
        if isinstance(x, ast.Name) and x.id not in ('black_vol', 'model_vol', 'np'):
            raise P.Untranslatable('single-strike alpha solve: fn reads ' + x.id)
    fn.args = ast.arguments(posonlyargs=[], args=[ast.arg(arg='black_vol'), ast.arg(arg='model_vol')], kwonlyargs=[],
                            kw_defaults=[], defaults=[])
    ast.fix_missing_locations(fn)
    return fn


FAMILY_ID = {'vol_function_clark': 1, 'vol_function_sabr': 2, 'vol_function_sabr_beta_one': 3, 'vol_function_sabr_beta_half': 4,
             'vol_function_bloomberg': 5, 'vol_function_svi': 6, 'vol_function_ssvi': 7}


def dispatch_table(P, fnode):
    """`vol_function(vol_function_type_value, params, ..., f, k, t)` of a surface module as a table code -> family id:
    every `vol = vol_function_X(params, f, k, t) [+ gap_k]; return vol` becomes `return FAMILY_ID[X]`, `return 0.0` becomes
    `return 0` (the function returns the CONSTANT vol 0.0 for that code), `raise FinError` stays.  The strike-gap prologue of
    fx_vol_surface_plus (`if len(strikes) == 1: gap_k = 0.0 else: gap_k = _interpolate_gap(...)`) is dropped; anything else
    is refused."""
    def leaf(stmts):
        if len(stmts) == 2 and isinstance(stmts[0], ast.Assign) and isinstance(stmts[1], ast.Return) \
                and ast.unparse(stmts[0].targets[0]) == 'vol' and ast.unparse(stmts[1].value) == 'vol':
            v = stmts[0].value
            if isinstance(v, ast.BinOp) and isinstance(v.op, ast.Add) and ast.unparse(v.right) == 'gap_k':
                v = v.left
            if isinstance(v, ast.Call) and isinstance(v.func, ast.Name) and v.func.id in FAMILY_ID \
                    and [ast.unparse(a) for a in v.args] == ['params', 'f', 'k', 't']:
                return [ast.Return(value=ast.Constant(value=FAMILY_ID[v.func.id]))]
        raise P.Untranslatable('vol_function dispatch: unexpected branch body ' + ' ; '.join(ast.unparse(x) for x in stmts)[:120])

    def go(stmts):
        out = []
        for st in stmts:
            if isinstance(st, ast.Expr) and isinstance(st.value, ast.Constant):
                continue
            if isinstance(st, ast.If) and ast.unparse(st.test) == 'len(strikes) == 1':
                continue
            if isinstance(st, ast.If):
                if not ast.unparse(st.test).startswith('vol_function_type_value == VolFuncTypes.'):
                    raise P.Untranslatable('vol_function dispatch: unexpected test ' + ast.unparse(st.test)[:80])
                out.append(ast.If(test=st.test, body=leaf(st.body), orelse=go(st.orelse)))
            elif isinstance(st, ast.Raise):
                out.append(st)
            elif isinstance(st, ast.Return) and ast.unparse(st.value) == '0.0':
                out.append(ast.Return(value=ast.Constant(value=0)))
            else:
                raise P.Untranslatable('vol_function dispatch: unexpected statement ' + ast.unparse(st)[:80])
        return out
    g = copy.deepcopy(fnode)
    g.body = go(g.body)
    g.args = ast.arguments(posonlyargs=[], args=[ast.arg(arg='vol_function_type_value')], kwonlyargs=[], kw_defaults=[], defaults=[])
    ast.fix_missing_locations(g)
    return g


def newton_to_param(P, fnode, pname):
    """`if c: argtuple = (...); K = newton_secant(...); return K` -> `if c: return <pname>`."""
    n = [0]

    def go(stmts):
        out = []
        for st in stmts:
            if isinstance(st, ast.If):
                has = any(isinstance(x, ast.Call) and isinstance(x.func, ast.Name) and x.func.id == 'newton_secant'
                          for b in st.body for x in ast.walk(b))
                if has:
                    txt = [ast.unparse(b).split('=')[0].strip() for b in st.body]
                    if txt[:2] != ['argtuple', 'K'] or not isinstance(st.body[-1], ast.Return):
                        raise P.Untranslatable('solve_for_strike: Newton branch changed shape')
                    n[0] += 1
                    st = ast.If(test=st.test, body=[ast.Return(value=ast.Name(id=pname, ctx=ast.Load()))], orelse=go(st.orelse))
                else:
                    st = ast.If(test=st.test, body=go(st.body), orelse=go(st.orelse))
            out.append(st)
        return out
    g = copy.deepcopy(fnode)
    g.body = go(g.body)
    if n[0] != 2:
        raise P.Untranslatable(f'solve_for_strike: {n[0]} Newton branches (expected 2)')
    ast.fix_missing_locations(g)
    return g


# ----------------------------------------------------------------------------------------- calls of fallible kernels
HELPERS = '''/-- value of a call of a kernel that can raise (the error case is tested first by the caller, see `exErr`) -/
def exOkD {α} (d : α) : Except PyErr α → α
  | .ok a => a
  | .error _ => d

/-- the called kernel raised (every `raise` in the kernels translated here is `FinError`) -/
def exErr {α} : Except PyErr α → Bool
  | .ok _ => false
  | .error _ => true

'''


def make_translator(P, dialect, consts):
    """The stock translator has no notion of calling a kernel that can raise.  Here such a call `c(a...)` is emitted as
    `exOkD 0 (c a...)` guarded by the error condition `exErr (c a...)` -> FinError, which the stock statement translation
    turns into `if exErr (...) then .error .finError else ...` in front of the statement (Python: the exception propagates).
    Only kernels all of whose `raise` statements raise FinError may be called this way."""
    class VolTranslator(P.Translator):
        def __init__(self, *a, **k):
            super().__init__(*a, **k)
            self.fallible = set()

        def function(self, fnode, spec, force_fallible=None):
            txt = super().function(fnode, spec, force_fallible)
            if 'Except PyErr' in txt.split(':=')[0]:
                for x in ast.walk(fnode):
                    if isinstance(x, ast.Raise):
                        exc = x.exc
                        nm = self.dotted(exc.func) if isinstance(exc, ast.Call) else self.dotted(exc)
                        if nm != 'FinError':
                            raise P.Untranslatable(f'{spec.py_name}: raises {nm}; only FinError is supported for called kernels')
                self.fallible.add(spec.lean_name)
            return txt

        def call(self, n, env):
            v = super().call(n, env)
            fn = self.dotted(n.func)
            spec = self.funcs.get(fn) if fn is not None else None
            if spec is not None and spec.lean_name in self.fallible:
                zero = self.d.lit_float(0.0)
                return P.Val(f'(exOkD {zero} {v.s})', v.t, v.errs + [(f'(exErr {v.s})', 'finError')], nz=False)
            return v
    return VolTranslator(dialect, consts)


# ----------------------------------------------------------------------------------------- builder
def build_vol(kind):
    def build(P, S):
        from py2lean import FuncSpec, Translator, Dialect, INT, NUM, find_function
        consts = dict(S.module_consts(MATH_PY))
        consts.update(S.module_consts(GV_PY))
        consts.update(S.module_consts(GT_PY))
        consts.update(S.module_consts(FXC_PY))
        consts.update(S.module_consts(VFN_PY))
        consts['np.pi'] = math.pi
        tr = make_translator(P, Dialect(kind), consts)
        out = [HELPERS]
        math_kernels(tr, S, out)

        def emit(fnode, spec, register=None):
            out.append(tr.function(fnode, spec))
            tr.funcs[register or spec.py_name] = spec

        mtree = S.parse(MATH_PY)
        emit(find_function(mtree, 'norminvcdf'), FuncSpec('norminvcdf', 'norminvcdf', [('p', NUM)], NUM))

        # ---- Black-Scholes value / delta (callees of fast_delta)
        btree = S.parse(BSA_PY)
        seven = [('s', NUM), ('t', NUM), ('k', NUM), ('r', NUM), ('q', NUM), ('v', NUM), ('option_type_value', INT)]
        for nm in ('bs_value', 'bs_delta'):
            emit(find_function(btree, nm), FuncSpec(nm, nm, seven, NUM))

        # ---- smile families
        vt = S.parse(VFN_PY)
        fkt = [('f', NUM), ('k', NUM), ('t', NUM)]

        def ps(n):
            return [(f'p{i}', NUM) for i in range(n)]
        clark = find_function(vt, 'vol_function_clark')
        emit(scalarize(P, clark, 3), FuncSpec('vol_function_clark', 'clark3', ps(3) + fkt, NUM, doc='len(params) = 3 (CLARK)'),
             register='clark3')
        emit(scalarize(P, clark, 5), FuncSpec('vol_function_clark', 'clark5', ps(5) + fkt, NUM, doc='len(params) = 5 (CLARK5)'),
             register='clark5')
        emit(scalarize(P, find_function(vt, 'vol_function_bloomberg'), 3, fold=True),
             FuncSpec('vol_function_bloomberg', 'bbg3', ps(3) + fkt, NUM, doc='len(params) = 3 (BBG)'), register='bbg3')
        emit(scalarize(P, find_function(vt, 'vol_function_svi'), 5), FuncSpec('vol_function_svi', 'svi', ps(5) + fkt, NUM),
             register='svi')
        five = [('x', NUM), ('gamma', NUM), ('sigma', NUM), ('rho', NUM), ('t', NUM)]
        emit(find_function(vt, 'phi_ssvi'), FuncSpec('phi_ssvi', 'phi_ssvi', [('theta', NUM), ('gamma', NUM)], NUM))
        for nm in ('ssvi', 'ssvi1', 'ssvi2', 'ssvit', 'g', 'ssvi_local_varg'):
            emit(find_function(vt, nm), FuncSpec(nm, 'ssvi_g' if nm == 'g' else nm, five, NUM))
        emit(scalarize(P, find_function(vt, 'vol_function_ssvi'), None), FuncSpec('vol_function_ssvi', 'vol_ssvi', ps(3) + fkt, NUM,
                                                                                  doc='reads params[0..2]'), register='vol_ssvi')
        del tr.funcs['g']      # the name `g` is reused by fx_vol_surface.py

        # ---- SABR
        st_ = S.parse(SABR_PY)
        emit(find_function(st_, '_x'), FuncSpec('_x', 'sabr_x', [('rho', NUM), ('z', NUM)], NUM))
        emit(scalarize(P, find_function(st_, 'vol_function_sabr'), 4), FuncSpec('vol_function_sabr', 'sabr', ps(4) + fkt, NUM),
             register='sabr')
        emit(scalarize(P, find_function(st_, 'vol_function_sabr_beta_one'), 3),
             FuncSpec('vol_function_sabr_beta_one', 'sabr_beta_one', ps(3) + fkt, NUM), register='sabr_beta_one')
        emit(scalarize(P, find_function(st_, 'vol_function_sabr_beta_half'), 3),
             FuncSpec('vol_function_sabr_beta_half', 'sabr_beta_half', ps(3) + fkt, NUM), register='sabr_beta_half')
        cub = cubic_coeffs(P, find_function(st_, 'SABR.set_alpha_from_atm_black_vol'), [])
        emit(cub, FuncSpec('SABR.set_alpha_from_atm_black_vol', 'sabr_atm_cubic',
                           [('black_vol', NUM), ('atm_strike', NUM), ('time_to_expiry', NUM)], 'tuple:num,num,num,num',
                           attr_map={'self.beta': ('beta', NUM), 'self.rho': ('rho', NUM), 'self.nu': ('nu', NUM)},
                           extra_params=[('beta', NUM), ('rho', NUM), ('nu', NUM)],
                           doc='coefficients (coeff3, coeff2, coeff1, coeff0) handed to np.roots'), register='sabr_atm_cubic')
        emit(strike_objective(P, find_function(st_, 'SABR.set_alpha_from_black_vol'), 'alpha'),
             FuncSpec('SABR.set_alpha_from_black_vol.fn', 'sabr_strike_objective', [('black_vol', NUM), ('model_vol', NUM)], NUM,
                      doc='objective of the single-strike alpha solve; model_vol = self.black_vol_with_alpha(x, f, k, t_exp)'),
             register='sabr_strike_objective')
        ss = S.parse(SABRS_PY)
        # the shifted module has its own copy of _x: must be the same text
        if ast.unparse(find_function(ss, '_x')).split('"""')[-1] != ast.unparse(find_function(st_, '_x')).split('"""')[-1]:
            raise P.Untranslatable('sabr_shifted._x differs from sabr._x')
        emit(scalarize(P, find_function(ss, 'vol_function_shifted_sabr'), 5),
             FuncSpec('vol_function_shifted_sabr', 'sabr_shifted', ps(5) + fkt, NUM), register='sabr_shifted')
        cub = cubic_coeffs(P, find_function(ss, 'SABRShifted.set_alpha_from_atm_black_vol'), [])
        emit(cub, FuncSpec('SABRShifted.set_alpha_from_atm_black_vol', 'sabr_shifted_atm_cubic',
                           [('black_vol', NUM), ('atm_strike', NUM), ('time_to_expiry', NUM)], 'tuple:num,num,num,num',
                           attr_map={'self._beta': ('beta', NUM), 'self._rho': ('rho', NUM), 'self._nu': ('nu', NUM),
                                     'self._shift': ('shift', NUM)},
                           extra_params=[('beta', NUM), ('rho', NUM), ('nu', NUM), ('shift', NUM)]), register='sabr_shifted_atm_cubic')
        emit(strike_objective(P, find_function(ss, 'SABRShifted.set_alpha_from_black_vol'), '_alpha'),
             FuncSpec('SABRShifted.set_alpha_from_black_vol.fn', 'sabr_shifted_strike_objective',
                      [('black_vol', NUM), ('model_vol', NUM)], NUM,
                      doc='objective of the single-strike alpha solve (shifted SABR)'), register='sabr_shifted_strike_objective')

        # ---- FX delta conventions
        ft = S.parse(FXV_PY)
        emit(find_function(ft, 'fast_delta'),
             FuncSpec('fast_delta', 'fast_delta', [('s', NUM), ('t', NUM), ('k', NUM), ('rd', NUM), ('rf', NUM), ('vol', NUM),
                                                   ('deltaTypeValue', INT), ('option_type_value', INT)], NUM))
        for path, gname, cls, bld, objname, lean_sfx in ((FXS_PY, 'g', 'FXVolSurface', 'build_vol_surface', 'obj_fast', ''),
                                                         (FXP_PY, '_g', 'FXVolSurfacePlus', '_build_vol_surface', '_obj', '_plus')):
            tree = S.parse(path)
            gf, names = strip_args_prologue(P, find_function(tree, gname))
            types = {'delta_method_value': INT, 'option_type_value': INT}
            kname = gf.args.args[0].arg
            emit(gf, FuncSpec(gname, 'delta_objective' + lean_sfx, [(kname, NUM)] + [(n, types.get(n, NUM)) for n in names], NUM,
                              doc='strike-from-delta objective: delta_target - fast_delta(...)'), register='delta_objective' + lean_sfx)
            chain = atm_chain(P, find_function(tree, f'{cls}.{bld}'), 'self.atm_method == FinFXATMMethod.SPOT')
            emit(chain, FuncSpec(f'{cls}.{bld}', 'atm_strike' + lean_sfx, [('s', NUM), ('f', NUM), ('atm_vol', NUM), ('t_exp', NUM)], NUM,
                                 attr_map={'self.atm_method': ('atm_method', INT)}, extra_params=[('atm_method', INT)],
                                 doc='ATM strike per FinFXATMMethod (the if-chain inside the tenor loop)'), register='atm_strike' + lean_sfx)
            sol = newton_to_param(P, find_function(tree, 'solve_for_strike'), 'k_newton')
            emit(sol, FuncSpec('solve_for_strike', 'solve_for_strike' + lean_sfx,
                               [('spot_fx_rate', NUM), ('t_del', NUM), ('rd', NUM), ('rf', NUM), ('option_type_value', INT),
                                ('delta_target', NUM), ('delta_method_value', INT), ('volatility', NUM), ('k_newton', NUM)], NUM,
                               doc='closed forms as coded; the two premium-adjusted branches return the Newton result k_newton'),
                 register='solve_for_strike' + lean_sfx)
            callees = ('vol_function', 'bs_value', 'solver_for_smile_strike_fast', '_solver_for_smile_strike')
            drop = ('f = s * np.exp((r_d - r_f) * t)', 'strikes_null = np.zeros(1)', 'gaps_null = np.zeros(1)')
            tail, argnames, bound = objective_tail(P, find_function(tree, objname), callees, drop)
            if objname == 'obj_fast':
                params = ['atm_vol', 'atm_curve_vol', 'v_25d_c_ms', 'v_25d_p_ms', 'v_25d_ms_target', 'sigma_k_25d_c', 'sigma_k_25d_p',
                          'target_rr_vol']
            else:
                params = ['atm_vol', 'atm_curve_vol',
                          'v_25d_c_ms', 'v_25d_p_ms', 'v_25d_ms_target', 'sigma_k_25d_c', 'sigma_k_25d_p', 'target_25d_rr_vol',
                          'v_10d_c_ms', 'v_10d_p_ms', 'v_10d_ms_target', 'sigma_k_10d_c', 'sigma_k_10d_p', 'target_10d_rr_vol', 'alpha']
            missing = [b for b in params if b not in bound and b not in argnames]
            if missing:
                raise P.Untranslatable(f'{objname}: expected residual inputs not bound by the source any more: {missing}')
            emit(tail, FuncSpec(objname, 'objective_tail' + lean_sfx, [(n, NUM) for n in params], NUM,
                                doc='residual arithmetic of the calibration objective; vol_function / bs_value / strike-solver '
                                    'results are parameters'), register='objective_tail' + lean_sfx)

        # ---- family dispatch tables of the four surface modules
        for path, sfx in ((FXS_PY, 'fx'), (FXP_PY, 'fx_plus'), (EQS_PY, 'equity'), (SWS_PY, 'swaption')):
            emit(dispatch_table(P, find_function(S.parse(path), 'vol_function')),
                 FuncSpec('vol_function', 'vol_dispatch_' + sfx, [('vol_function_type_value', INT)], INT,
                          doc='family id per VolFuncTypes code: 1 clark, 2 sabr, 3 sabr_beta_one, 4 sabr_beta_half, 5 bloomberg, '
                              '6 svi, 7 ssvi; 0 = the constant 0.0'), register='vol_dispatch_' + sfx)

        ns = 'VolF' if kind == 'float' else 'VolR'
        body = prelude(ns, kind) + '\n'.join(out) + f'\nend FinVerif.Gen.{ns}\n'
        return SOURCES, body
    return build


MODULES = {'VolF': build_vol('float'), 'VolR': build_vol('real')}
