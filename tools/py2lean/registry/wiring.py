"""Generated module `Wiring`: every constructor call site of a convention-carrying class, as Lean data (C16w).

For every call `Callee(...)` found anywhere under financepy/ where `Callee` is one of CALLEES (Schedule, DayCount,
Calendar and the products that carry schedule conventions), one `CallSite` is emitted: the enclosing class K and method,
K's constructor parameters, the method's own parameters, and for EVERY parameter of the callee's real `__init__`
signature (positional arguments resolved to names, defaults included) a canonical description of the argument:

  param p   the expression is K.__init__'s parameter `p`: directly (inside `__init__`, `p` never re-bound there), or as
            `self.x` where the ONLY assignment to `self.x` in the whole class is `self.x = p` in `__init__`, or as a local
            name bound exactly once in the method to such an expression
  marg p    the enclosing method's own parameter `p` (never re-bound in the method)
  const c   a literal, an enum member `EnumClass.MEMBER`, or a local name bound exactly once in the method to one
  dflt      the callee parameter is not passed (its declared default applies)
  other s   anything else (source text `s`)

Names are also emitted split into lower-case tokens (`fixed_freq_type`, `swapFloatDateGenRuleType` →
["fixed","freq","type"], ["swap","float","date","gen","rule","type"]): a mechanical split on `_` and camel humps — the
ROLE of a name (frequency, calendar, …) is decided by the source-independent spec `FinVerif/Spec/Wiring.lean`, not here.

Nothing is imported from financepy: this reads the text of the working tree (`pysrc.REPO`, honouring FINVERIF_REPO)."""
from __future__ import annotations

import ast
import os
import re

# classes whose constructor takes schedule / day-count / calendar conventions
CALLEES = ['Schedule', 'DayCount', 'Calendar', 'SwapFixedLeg', 'SwapFloatLeg', 'IborSwap', 'OIS', 'Bond', 'BondFRN',
           'IborDeposit', 'IborFRA', 'IborCapFloor', 'IborSwaption', 'CDS', 'EquitySwapLeg', 'FinSchedule']
# FinSchedule: the pre-rename spelling still used by the legacy modules under products/rates/swaps/ (resolved with
# Schedule's signature: the same ten parameters in the same order)
ALIAS = {'FinSchedule': 'Schedule'}


def tokens(name: str):
    out = []
    for part in name.split('_'):
        out += [x.lower() for x in re.findall(r'[A-Z]+(?![a-z])|[A-Z]?[a-z0-9]+', part)]
    return [t for t in out if t]


def _files(repo):
    root = os.path.join(repo, 'financepy')
    res = []
    for dp, dns, fns in os.walk(root):
        dns.sort()
        for fn in sorted(fns):
            if fn.endswith('.py'):
                res.append(os.path.relpath(os.path.join(dp, fn), repo))
    return sorted(res)


def _params(fn: ast.FunctionDef, drop_self=True):
    a = fn.args
    names = [x.arg for x in a.posonlyargs + a.args]
    if drop_self and names and names[0] in ('self', 'cls'):
        names = names[1:]
    return names, [x.arg for x in a.kwonlyargs]


def _init_of(cls: ast.ClassDef, index):
    for st in cls.body:
        if isinstance(st, ast.FunctionDef) and st.name == '__init__':
            return st
    for b in cls.bases:
        if isinstance(b, ast.Name) and b.id in index and index[b.id][1] is not cls:
            r = _init_of(index[b.id][1], index)
            if r is not None:
                return r
    return None


def _bindings(fn: ast.FunctionDef):
    """local name -> list of value nodes it is bound to anywhere in `fn` (None for a binding that is not a plain
    single-target assignment: for-targets, augmented assignments, tuple unpacking, with/except names, walrus…)"""
    b = {}

    def bind(t, v):
        if isinstance(t, ast.Name):
            b.setdefault(t.id, []).append(v)
        elif isinstance(t, (ast.Tuple, ast.List)):
            for e in t.elts:
                bind(e, None)
        elif isinstance(t, ast.Starred):
            bind(t.value, None)

    for n in ast.walk(fn):
        if isinstance(n, ast.Assign):
            for t in n.targets:
                bind(t, n.value if len(n.targets) == 1 else None)
        elif isinstance(n, ast.AnnAssign) and n.value is not None:
            bind(n.target, n.value)
        elif isinstance(n, ast.AugAssign):
            bind(n.target, None)
        elif isinstance(n, (ast.For, ast.AsyncFor)):
            bind(n.target, None)
        elif isinstance(n, ast.NamedExpr):
            bind(n.target, None)
        elif isinstance(n, (ast.With, ast.AsyncWith)):
            for it in n.items:
                if it.optional_vars is not None:
                    bind(it.optional_vars, None)
        elif isinstance(n, ast.ExceptHandler) and n.name:
            b.setdefault(n.name, []).append(None)
        elif isinstance(n, ast.comprehension):
            bind(n.target, None)
    return b


def _self_attr(node):
    if isinstance(node, ast.Attribute) and isinstance(node.value, ast.Name) and node.value.id == 'self':
        return node.attr
    return None


def _attr_assignments(cls: ast.ClassDef):
    """attribute of self -> list of (method name, value node or None) for every place the class binds it"""
    res = {}
    for st in cls.body:
        if not isinstance(st, ast.FunctionDef):
            continue
        for n in ast.walk(st):
            tv = []
            if isinstance(n, ast.Assign):
                for t in n.targets:
                    if isinstance(t, (ast.Tuple, ast.List)):
                        tv += [(e, None) for e in t.elts]
                    else:
                        tv.append((t, n.value if len(n.targets) == 1 else None))
            elif isinstance(n, ast.AnnAssign) and n.value is not None:
                tv.append((n.target, n.value))
            elif isinstance(n, ast.AugAssign):
                tv.append((n.target, None))
            elif isinstance(n, (ast.For, ast.AsyncFor)):
                tv.append((n.target, None))
            for t, v in tv:
                a = _self_attr(t)
                if a is not None:
                    res.setdefault(a, []).append((st.name, v))
    return res


def _is_const(node):
    if isinstance(node, ast.Constant):
        return repr(node.value)
    if isinstance(node, ast.UnaryOp) and isinstance(node.op, ast.USub) and isinstance(node.operand, ast.Constant):
        return '-' + repr(node.operand.value)
    if isinstance(node, ast.Attribute) and isinstance(node.value, ast.Name) and node.value.id[:1].isupper() \
            and node.attr.isupper():
        return f'{node.value.id}.{node.attr}'
    return None


class _Ctx:
    def __init__(self, cls, init, method, index):
        self.cls, self.init, self.method = cls, init, method
        self.ctor = (lambda p: p[0] + p[1])(_params(init)) if init is not None else []
        self.margs = (lambda p: p[0] + p[1])(_params(method, drop_self=cls is not None))
        self.binds = _bindings(method)
        self.init_binds = _bindings(init) if init is not None else {}
        self.attrs = _attr_assignments(cls) if cls is not None else {}
        self.in_init = init is not None and method is init


def describe(node, cx: _Ctx, depth=0):
    """-> (kind, value)"""
    c = _is_const(node)
    if c is not None:
        return 'const', c
    a = _self_attr(node)
    if a is not None and cx.cls is not None:
        asg = cx.attrs.get(a, [])
        if len(asg) == 1 and asg[0][0] == '__init__' and isinstance(asg[0][1], ast.Name) \
                and asg[0][1].id in cx.ctor and asg[0][1].id not in cx.init_binds:
            return 'param', asg[0][1].id
        return 'other', ast.unparse(node)
    if isinstance(node, ast.Name):
        nm = node.id
        bs = cx.binds.get(nm, [])
        if cx.in_init and nm in cx.ctor and not bs:
            return 'param', nm
        if nm in cx.margs and not bs:
            return 'marg', nm
        if len(bs) == 1 and bs[0] is not None and depth < 4 and nm not in cx.margs:
            k, v = describe(bs[0], cx, depth + 1)
            if k in ('const', 'param', 'marg'):
                return k, v
        return 'other', ast.unparse(node)
    return 'other', ast.unparse(node)


def extract(repo):
    """-> (files, sites).  A site is a dict; see the module docstring."""
    files = _files(repo)
    trees = {}
    index = {}
    for rel in files:
        with open(os.path.join(repo, rel), encoding='utf-8') as f:
            trees[rel] = ast.parse(f.read(), filename=rel)
        for st in trees[rel].body:
            if isinstance(st, ast.ClassDef) and st.name not in index:
                index[st.name] = (rel, st)
    sigs = {}
    for c in CALLEES:
        tgt = ALIAS.get(c, c)
        if tgt in index:
            ini = _init_of(index[tgt][1], index)
            if ini is not None:
                pos, kwo = _params(ini)
                sigs[c] = (pos, kwo)
    sites = []

    def visit_fn(rel, cls, init, fn):
        cx = None
        ordinal = {}
        calls = [n for n in ast.walk(fn) if isinstance(n, ast.Call) and isinstance(n.func, ast.Name) and n.func.id in sigs]
        calls.sort(key=lambda n: (n.lineno, n.col_offset))
        for n in calls:
            if cx is None:
                cx = _Ctx(cls, init, fn, index)
            callee = n.func.id
            pos, kwo = sigs[callee]
            given = {}
            bad = None
            for i, a in enumerate(n.args):
                if isinstance(a, ast.Starred) or i >= len(pos):
                    bad = 'positional arguments cannot be resolved'
                    break
                given[pos[i]] = a
            for kw in n.keywords:
                if kw.arg is None or kw.arg not in pos + kwo or kw.arg in given:
                    bad = f'keyword {kw.arg!r} cannot be resolved'
                    break
                given[kw.arg] = kw.value
            args = []
            for p in pos + kwo:
                if bad:
                    args.append((p, 'other', '<' + bad + '>'))
                elif p in given:
                    k, v = describe(given[p], cx)
                    args.append((p, k, v))
                else:
                    args.append((p, 'dflt', ''))
            k = ordinal.get(callee, 0)
            ordinal[callee] = k + 1
            sites.append({'file': rel, 'cls': cls.name if cls is not None else '', 'method': fn.name, 'callee': callee,
                          'ordinal': k, 'line': n.lineno, 'ctor': cx.ctor, 'margs': cx.margs, 'args': args})

    for rel in files:
        for st in trees[rel].body:
            if isinstance(st, ast.ClassDef):
                init = _init_of(st, index)
                for m in st.body:
                    if isinstance(m, (ast.FunctionDef, ast.AsyncFunctionDef)):
                        visit_fn(rel, st, init, m)
            elif isinstance(st, (ast.FunctionDef, ast.AsyncFunctionDef)):
                visit_fn(rel, None, None, st)
    return files, sites


def _s(x):
    return '"' + x.replace('\\', '\\\\').replace('"', '\\"').replace('\n', ' ') + '"'


def _ss(xs):
    return '[' + ', '.join(_s(x) for x in xs) + ']'


def _nm(x):
    return '{ s := %s, toks := %s }' % (_s(x), _ss(tokens(x)))


def build_wiring(P, S):
    files, sites = extract(S.REPO)
    out = ['import FinVerif.Spec.Wiring', '', 'namespace FinVerif.Gen.Wiring', 'open FinVerif.Spec.Wiring', '']
    names = []
    for i, s in enumerate(sites):
        ident = 'site%03d' % i
        names.append(ident)
        args = []
        for p, k, v in s['args']:
            if k in ('param', 'marg'):
                args.append('    { formal := %s, kind := .%s, src := %s }' % (_nm(p), k, _nm(v)))
            else:
                args.append('    { formal := %s, kind := .%s, src := { s := %s, toks := [] } }' % (_nm(p), k, _s(v)))
        out.append(f'/-- {s["file"]}:{s["line"]} -/')
        out.append('def %s : CallSite :=\n  { file := %s, cls := %s, method := %s, callee := %s, ordinal := %d, line := %d,\n'
                   '    ctor := [%s],\n    margs := [%s],\n    args := [\n%s] }\n'
                   % (ident, _s(s['file']), _s(s['cls']), _nm(s['method']), _s(ALIAS.get(s['callee'], s['callee'])),
                      s['ordinal'], s['line'], ', '.join(_nm(x) for x in s['ctor']), ', '.join(_nm(x) for x in s['margs']),
                      ',\n'.join(args)))
    out.append('def callSites : List CallSite := [' + ', '.join(names) + ']\n')
    out.append('end FinVerif.Gen.Wiring\n')
    srcs = sorted({s['file'] for s in sites} | {index_file for index_file in files if index_file.endswith(
        ('utils/schedule.py', 'utils/day_count.py', 'utils/calendar.py'))})
    return srcs, '\n'.join(out)


MODULES = {'Wiring': build_wiring}


if __name__ == '__main__':   # debugging aid: print the table
    import sys
    repo = os.environ.get('FINVERIF_REPO', '/repo')
    _, ss = extract(repo)
    for s in ss:
        if len(sys.argv) > 1 and s['callee'] not in sys.argv[1:]:
            continue
        print(f"{s['file']}:{s['line']} {s['cls']}.{s['method']} -> {s['callee']}#{s['ordinal']}")
        print('    ctor:', s['ctor'])
        for p, k, v in s['args']:
            print(f'    {p:24s} {k:6s} {v}')
