#!/usr/bin/env python3
"""Confirm that seeded changes leave the baseline test-suite result unchanged.

usage: seedsuite.py <resroot> <out.json> [-j N] [--only K]   (--only 3: just <Cxx>/3)
  <resroot>/<Cxx>/<k>/patch.diff are the candidate changes (made by isolated sub-agents).
The pinned suite takes ~9 CPU-minutes, so changes are grouped into batches that touch disjoint
files; every batch is applied to its own scratch worktree of /repo HEAD and the pinned command of
/root/.vp/BASELINE.json is run once per batch.  A batch in which every baseline-stable test still
passes confirms all of its members; a batch with a regression is split and its members re-run
one by one.  Worktrees are removed afterwards.  Nothing is written to /repo."""
import json
import os
import re
import subprocess
import sys
import xml.etree.ElementTree as ET
from concurrent.futures import ThreadPoolExecutor

BASE = json.load(open('/root/.vp/BASELINE.json'))
STABLE = set(BASE['stable_pass'])


def sh(cmd, **kw):
    return subprocess.run(cmd, shell=True, capture_output=True, text=True, **kw)


def files_of(patch):
    return set(re.findall(r'^\+\+\+ b/(\S+)', open(patch).read(), re.M))


def run_suite(tag, patches):
    wt = f'/tmp/suitewt_{tag}'
    sh(f'git -C /repo worktree remove --force {wt}')
    r = sh(f'git -C /repo worktree add --detach {wt} HEAD')
    assert r.returncode == 0, r.stderr
    try:
        for p in patches:
            a = sh(f'git -C {wt} apply --whitespace=nowarn {p}')
            if a.returncode != 0:
                return {'error': f'{p} does not apply: {a.stderr[-200:]}'}
        xml = f'/tmp/suite_{tag}.xml'
        env = dict(os.environ, PYTHONPATH=wt, NUMBA_CACHE_DIR=f'/tmp/suite_nb_{tag}')
        sh(f'cd {wt} && /venv/bin/python -m pytest -ra -q -p no:cacheprovider --timeout=900 '
           f'--continue-on-collection-errors --junitxml={xml}', env=env, timeout=5400)
        passed = set()
        for tc in ET.parse(xml).getroot().iter('testcase'):
            if not any(ch.tag in ('failure', 'error', 'skipped') for ch in tc):
                passed.add(f"{tc.get('classname')}::{tc.get('name')}")
        os.remove(xml)
        return {'missing': sorted(STABLE - passed), 'n_passed': len(passed)}
    finally:
        sh(f'git -C /repo worktree remove --force {wt}')
        sh(f'rm -rf {wt} /tmp/suite_nb_{tag}')


def main():
    root, out = sys.argv[1], sys.argv[2]
    j = int(sys.argv[sys.argv.index('-j') + 1]) if '-j' in sys.argv else 6
    only = sys.argv[sys.argv.index('--only') + 1] if '--only' in sys.argv else None
    cands = []
    for prop in sorted(p for p in os.listdir(root) if os.path.isdir(os.path.join(root, p))):
        for k in sorted(k for k in os.listdir(os.path.join(root, prop)) if os.path.isdir(os.path.join(root, prop, k))):
            if only and k != only:
                continue
            p = os.path.join(root, prop, k, 'patch.diff')
            if os.path.exists(p) and os.path.getsize(p) > 0 and os.path.exists(os.path.join(root, prop, k, 'meta.json')):
                cands.append((f'{prop}/{k}', p, files_of(p)))
    batches = []
    for c in cands:
        for b in batches:
            if not any(c[2] & o[2] for o in b):
                b.append(c)
                break
        else:
            batches.append([c])
    print(f'{len(cands)} changes in {len(batches)} batches', flush=True)
    res = {}
    with ThreadPoolExecutor(j) as ex:
        futs = {i: ex.submit(run_suite, f'b{i}', [c[1] for c in b]) for i, b in enumerate(batches)}
        redo = []
        for i, f in futs.items():
            r = f.result()
            print('batch', i, [c[0] for c in batches[i]], r if r.get('missing') or r.get('error') else 'ok', flush=True)
            if r.get('missing') or r.get('error'):
                redo += batches[i] if len(batches[i]) > 1 else []
                if len(batches[i]) == 1:
                    res[batches[i][0][0]] = {'suite': 'REGRESSION', **r}
            else:
                for c in batches[i]:
                    res[c[0]] = {'suite': 'unchanged', 'batch': [x[0] for x in batches[i]], 'n_passed': r['n_passed']}
        futs = {c[0]: ex.submit(run_suite, 's' + c[0].replace('/', '_'), [c[1]]) for c in redo}
        for k, f in futs.items():
            r = f.result()
            res[k] = ({'suite': 'REGRESSION', **r} if r.get('missing') or r.get('error')
                      else {'suite': 'unchanged', 'batch': [k], 'n_passed': r['n_passed']})
            print('single', k, res[k]['suite'], flush=True)
    json.dump(res, open(out, 'w'), indent=1)


if __name__ == '__main__':
    main()
