#!/usr/bin/env python3
"""Evaluate a seeded change against the checks, in a scratch worktree (never in /repo).

usage: seedtest.py <results_dir_of_one_change> <seed_id> <PROP> [<PROP> ...]
  results dir holds patch.diff, demo.py, meta.json (made by an isolated sub-agent).
Steps: fresh worktree of /repo HEAD -> demo on clean (must PASS) -> apply patch -> demo (must FAIL)
-> run `./check PROP` with FINVERIF_REPO=<worktree> for each PROP -> record -> remove worktree.
Writes /verif/seeded/<seed_id>/{patch.diff,demo.py,meta.json,result.json}."""
import json
import os
import shutil
import subprocess
import sys

VERIF = os.path.dirname(os.path.dirname(os.path.abspath(__file__)))


def sh(cmd, **kw):
    return subprocess.run(cmd, shell=True, capture_output=True, text=True, **kw)


def main():
    res, sid, props = sys.argv[1], sys.argv[2], sys.argv[3:]
    wt = f'/tmp/seedwt_{sid}'
    work = f'/tmp/seedwork_{sid}'
    shutil.rmtree(work, ignore_errors=True)
    os.makedirs(work)
    # private copy of the lean project (incl. build products) so Gen/ is not shared with other runs
    sh(f'cp -a {VERIF}/lean {work}/lean && mkdir -p {work}/.cache {work}/evidence {work}/replays')
    sh(f'git -C /repo worktree remove --force {wt}')
    r = sh(f'git -C /repo worktree add --detach {wt} HEAD')
    assert r.returncode == 0, r.stderr
    out = {'seed': sid, 'props': props, 'checks': {}}
    try:
        env = dict(os.environ, PYTHONPATH=wt)
        d0 = sh(f'cd {wt} && /venv/bin/python {res}/demo.py', env=env, timeout=1800)
        out['demo_clean'] = {'rc': d0.returncode, 'tail': (d0.stdout + d0.stderr)[-300:]}
        a = sh(f'git -C {wt} apply --whitespace=nowarn {res}/patch.diff')
        out['applies'] = a.returncode == 0
        if a.returncode != 0:
            out['apply_err'] = a.stderr[-500:]
        else:
            sh(f'find {wt}/financepy -name __pycache__ -prune -exec rm -rf {{}} +')
            d1 = sh(f'cd {wt} && /venv/bin/python {res}/demo.py', env=env, timeout=1800)
            out['demo_patched'] = {'rc': d1.returncode, 'tail': (d1.stdout + d1.stderr)[-400:]}
            for p in props:
                e2 = dict(os.environ, FINVERIF_REPO=wt, FINVERIF_WORK=work)
                c = sh(f'cd {VERIF} && ./check {p} --tier quick', env=e2, timeout=3600)
                lines = [l for l in c.stdout.split('\n') if l.startswith('VIOLATION') or l.startswith(p + ' [')]
                replay = None
                for l in lines:
                    if l.startswith('VIOLATION') and 'replay=' in l:
                        replay = l.split('replay=')[1].split()[0]
                first = None
                if replay and os.path.exists(os.path.join(work, replay)):
                    try:
                        rp = json.load(open(os.path.join(work, replay)))
                        first = {'kind': rp.get('kind'), 'what': (rp.get('violation') or {}).get('what'),
                                 'case': (rp.get('violation') or {}).get('case'), 'broken': rp.get('broken', [])[:3]}
                    except Exception as ex:  # noqa: BLE001
                        first = {'error': str(ex)}
                out['checks'][p] = {'rc': c.returncode, 'lines': lines, 'first': first}
    finally:
        sh(f'git -C /repo worktree remove --force {wt}')
        shutil.rmtree(wt, ignore_errors=True)
        shutil.rmtree(work, ignore_errors=True)
    dst = os.path.join(VERIF, 'seeded', sid)
    os.makedirs(dst, exist_ok=True)
    for f in ('patch.diff', 'demo.py', 'meta.json', 'demo_output.txt'):
        if os.path.exists(os.path.join(res, f)):
            shutil.copy(os.path.join(res, f), os.path.join(dst, f))
    json.dump(out, open(os.path.join(dst, 'result.json'), 'w'), indent=1, default=str)
    det = {p: ('DETECTED' if v['rc'] == 1 and any('no-failing-input-found' not in l for l in v['lines'] if l.startswith('VIOLATION'))
               else ('BROKEN-ONLY' if v['rc'] == 1 else f'MISSED(rc={v["rc"]})')) for p, v in out['checks'].items()}
    print(sid, 'applies' if out.get('applies') else 'NOAPPLY', 'demo clean rc', out['demo_clean']['rc'],
          'patched rc', out.get('demo_patched', {}).get('rc'), det)


if __name__ == '__main__':
    main()
