#!/bin/bash
# tools/seedwave.sh <resroot> <Cxx> <offset> [extra checks…]: evaluate seeds <resroot>/<Cxx>/{1,2,3} as <Cxx>-<offset+i>
root=$1; prop=$2; off=$3; shift 3
for i in 1 2 3; do
  [ -f "$root/$prop/$i/patch.diff" ] || { echo "$prop-$((off+i)) no patch"; continue; }
  python3 "$(dirname "$0")/seedtest.py" "$root/$prop/$i" "$prop-$((off+i))" "$prop" "$@" 2>&1 | tail -1
done
